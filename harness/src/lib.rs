//! Shared infrastructure of the correspondence harness.
//!
//! Every world binary (`src/bin/w_<world>.rs`) drives the REAL contract code of /repo through
//! the white-box VM and speaks the line protocol described in
//! /verif/lean/MxModel/Driver/Proto.lean:
//!
//!   ops.txt    `W …` / `O n …` / `Q n …`   (the only input of the Lean driver)
//!   impl.out   `W …` / `R n ok … | …` / `R n err` / `V n ok …` / `V n err`
//!   oracle.out `F <hist> <n> prop=<Cxx> clause=<name> site=<op> :: <detail>`  (property oracles on the real code)
//!   stats.json histogram of what was generated / reached
//!
//! Rule: the generator only ever produces op *text*; execution parses that text again.
//! Hence every generated history is replayable from ops.txt alone.

use num_bigint::BigUint;
use num_traits::{One, Zero};
use std::collections::BTreeMap;
use std::fs::File;
use std::io::{BufRead, BufReader, BufWriter, Write};
use std::path::{Path, PathBuf};

// ---------------------------------------------------------------------------------------
// PRNG (splitmix64): every random choice of a run derives from VERIF_SEED
// ---------------------------------------------------------------------------------------
#[derive(Clone)]
pub struct Rng(pub u64);

impl Rng {
    pub fn new(seed: u64) -> Self {
        Rng(seed ^ 0x9E37_79B9_7F4A_7C15)
    }
    pub fn next(&mut self) -> u64 {
        self.0 = self.0.wrapping_add(0x9E37_79B9_7F4A_7C15);
        let mut z = self.0;
        z = (z ^ (z >> 30)).wrapping_mul(0xBF58_476D_1CE4_E5B9);
        z = (z ^ (z >> 27)).wrapping_mul(0x94D0_49BB_1331_11EB);
        z ^ (z >> 31)
    }
    /// uniform in [0, n)
    pub fn below(&mut self, n: u64) -> u64 {
        if n == 0 {
            0
        } else {
            self.next() % n
        }
    }
    /// uniform in [lo, hi]
    pub fn range(&mut self, lo: u64, hi: u64) -> u64 {
        if hi <= lo {
            lo
        } else {
            lo + self.below(hi - lo + 1)
        }
    }
    pub fn chance(&mut self, num: u64, den: u64) -> bool {
        self.below(den) < num
    }
    pub fn pick<'a, T>(&mut self, xs: &'a [T]) -> &'a T {
        &xs[self.below(xs.len() as u64) as usize]
    }
    /// weighted choice: returns the index
    pub fn weighted(&mut self, weights: &[u64]) -> usize {
        let tot: u64 = weights.iter().sum();
        let mut x = self.below(tot.max(1));
        for (i, w) in weights.iter().enumerate() {
            if x < *w {
                return i;
            }
            x -= *w;
        }
        weights.len() - 1
    }
    /// uniform BigUint in [0, n)
    pub fn big_below(&mut self, n: &BigUint) -> BigUint {
        if n.is_zero() {
            return BigUint::zero();
        }
        let bits = n.bits() + 64;
        let mut x = BigUint::zero();
        let mut got = 0;
        while got < bits {
            x = (x << 64u32) + BigUint::from(self.next());
            got += 64;
        }
        x % n
    }
    /// uniform BigUint in [lo, hi]
    pub fn big_range(&mut self, lo: &BigUint, hi: &BigUint) -> BigUint {
        if hi <= lo {
            return lo.clone();
        }
        lo + self.big_below(&(hi - lo + BigUint::one()))
    }
    /// a "magnitude" amount: 10^k * small, k uniform in [0, max_pow]
    pub fn magnitude(&mut self, max_pow: u32) -> BigUint {
        let k = self.below(max_pow as u64 + 1) as u32;
        let m = self.range(1, 9999);
        BigUint::from(m) * BigUint::from(10u32).pow(k)
    }
}

pub fn big(s: &str) -> BigUint {
    s.parse::<BigUint>().unwrap_or_else(|_| panic!("bad number {s}"))
}
pub fn pow10(k: u32) -> BigUint {
    BigUint::from(10u32).pow(k)
}

// ---------------------------------------------------------------------------------------
// Trace: the four output files of a run
// ---------------------------------------------------------------------------------------
pub struct Trace {
    pub dir: PathBuf,
    ops: BufWriter<File>,
    out: BufWriter<File>,
    orc: BufWriter<File>,
    pub stats: BTreeMap<String, u64>,
    pub hist: u64,
    pub n: u64,
    pub failures: u64,
    pub ops_total: u64,
    pub ok_total: u64,
    pub samples: Vec<String>,
}

impl Trace {
    pub fn create(dir: &Path) -> Self {
        std::fs::create_dir_all(dir).unwrap();
        let f = |n: &str| BufWriter::new(File::create(dir.join(n)).unwrap());
        Trace {
            dir: dir.to_path_buf(),
            ops: f("ops.txt"),
            out: f("impl.out"),
            orc: f("oracle.out"),
            stats: BTreeMap::new(),
            hist: 0,
            n: 0,
            failures: 0,
            ops_total: 0,
            ok_total: 0,
            samples: vec![],
        }
    }
    pub fn count(&mut self, key: &str) {
        *self.stats.entry(key.to_string()).or_insert(0) += 1;
    }
    pub fn world(&mut self, header: &str) {
        self.hist += 1;
        self.n = 0;
        writeln!(self.ops, "W {header}").unwrap();
        writeln!(self.out, "W {header}").unwrap();
    }
    /// register an op line; returns its number
    pub fn op(&mut self, text: &str) -> u64 {
        self.n += 1;
        self.ops_total += 1;
        writeln!(self.ops, "O {} {}", self.n, text).unwrap();
        self.n
    }
    pub fn query(&mut self, text: &str) -> u64 {
        self.n += 1;
        writeln!(self.ops, "Q {} {}", self.n, text).unwrap();
        self.n
    }
    pub fn res_ok(&mut self, n: u64, outs: &str, state: &str) {
        self.ok_total += 1;
        writeln!(self.out, "R {n} ok {outs} | {state}").unwrap();
    }
    pub fn res_err(&mut self, n: u64) {
        writeln!(self.out, "R {n} err").unwrap();
    }
    pub fn view_ok(&mut self, n: u64, vals: &str) {
        writeln!(self.out, "V {n} ok {vals}").unwrap();
    }
    pub fn view_err(&mut self, n: u64) {
        writeln!(self.out, "V {n} err").unwrap();
    }
    /// an oracle clause of property `prop` failed on the REAL code at the current step
    pub fn fail(&mut self, prop: &str, clause: &str, site: &str, detail: &str) {
        self.failures += 1;
        writeln!(
            self.orc,
            "F {} {} prop={} clause={} site={} :: {}",
            self.hist, self.n, prop, clause, site, detail
        )
        .unwrap();
    }
    pub fn finish(mut self, extra: &[(&str, String)]) {
        self.ops.flush().unwrap();
        self.out.flush().unwrap();
        self.orc.flush().unwrap();
        let mut s = String::from("{\n");
        s += &format!("  \"histories\": {},\n", self.hist);
        s += &format!("  \"ops\": {},\n", self.ops_total);
        s += &format!("  \"ok\": {},\n", self.ok_total);
        s += &format!("  \"oracle_failures\": {},\n", self.failures);
        for (k, v) in extra {
            s += &format!("  \"{}\": {},\n", k, v);
        }
        s += "  \"counts\": {\n";
        let items: Vec<String> = self
            .stats
            .iter()
            .map(|(k, v)| format!("    \"{}\": {}", k, v))
            .collect();
        s += &items.join(",\n");
        s += "\n  }\n}\n";
        std::fs::write(self.dir.join("stats.json"), s).unwrap();
    }
}

// ---------------------------------------------------------------------------------------
// command line shared by all world binaries
// ---------------------------------------------------------------------------------------
pub struct Args {
    pub mode: String, // gen | replay
    pub seed: u64,
    pub hist: u64,
    pub len: u64,
    pub out: PathBuf,
    pub file: Option<PathBuf>,
    pub tier: String,
    pub extra: BTreeMap<String, String>,
}

pub fn parse_args() -> Args {
    let av: Vec<String> = std::env::args().collect();
    let mut a = Args {
        mode: av.get(1).cloned().unwrap_or_else(|| "gen".into()),
        seed: 1,
        hist: 50,
        len: 40,
        out: PathBuf::from("work"),
        file: None,
        tier: "quick".into(),
        extra: BTreeMap::new(),
    };
    let mut i = 2;
    while i < av.len() {
        let k = av[i].as_str();
        let v = av.get(i + 1).cloned().unwrap_or_default();
        match k {
            "--seed" => a.seed = v.parse().unwrap(),
            "--hist" => a.hist = v.parse().unwrap(),
            "--len" => a.len = v.parse().unwrap(),
            "--out" => a.out = PathBuf::from(v),
            "--file" => a.file = Some(PathBuf::from(v)),
            "--tier" => a.tier = v,
            _ => {
                a.extra.insert(k.trim_start_matches("--").to_string(), v);
            }
        }
        i += 2;
    }
    a
}

/// One history of an ops file: header words and the op/query lines (kind, text).
pub struct History {
    pub header: String,
    pub lines: Vec<(char, String)>,
}

pub fn read_ops(path: &Path) -> Vec<History> {
    let f = BufReader::new(File::open(path).unwrap());
    let mut hs: Vec<History> = vec![];
    for line in f.lines() {
        let line = line.unwrap();
        let t = line.trim();
        if t.is_empty() || t.starts_with('#') {
            continue;
        }
        let mut it = t.splitn(2, ' ');
        let tag = it.next().unwrap();
        let rest = it.next().unwrap_or("").to_string();
        match tag {
            "W" => hs.push(History {
                header: rest,
                lines: vec![],
            }),
            "O" | "Q" => {
                // drop the number
                let mut jt = rest.splitn(2, ' ');
                let _n = jt.next();
                let body = jt.next().unwrap_or("").to_string();
                if let Some(h) = hs.last_mut() {
                    h.lines.push((tag.chars().next().unwrap(), body));
                }
            }
            _ => {}
        }
    }
    hs
}

pub fn kv<'a>(header: &'a str, key: &str) -> Option<&'a str> {
    for w in header.split_whitespace() {
        if let Some((k, v)) = w.split_once('=') {
            if k == key {
                return Some(v);
            }
        }
    }
    None
}
pub fn kv_u64(header: &str, key: &str, default: u64) -> u64 {
    kv(header, key).and_then(|v| v.parse().ok()).unwrap_or(default)
}

/// A world: a deployed set of real contracts.  `exec`/`query` take the op text (without
/// the `O n` prefix), run it on the real code, write the result line and run the oracles.
pub trait World: Sized {
    /// world name as it appears after `W`
    const NAME: &'static str;
    fn new(header: &str) -> Self;
    /// produce a header for history number `h` (random configuration)
    fn gen_header(rng: &mut Rng, h: u64, tier: &str) -> String;
    /// produce the next op or query text given the current real state: ('O'|'Q', text)
    fn gen_line(&mut self, rng: &mut Rng, step: u64, tier: &str) -> (char, String);
    fn exec(&mut self, tr: &mut Trace, text: &str);
    fn query(&mut self, tr: &mut Trace, text: &str);
}

pub fn run_world<W: World>() {
    let a = parse_args();
    // contract failures surface as panics inside the VM: keep stderr quiet unless asked
    if std::env::var("VERIF_VERBOSE").is_err() {
        std::panic::set_hook(Box::new(|_| {}));
    }
    let mut tr = Trace::create(&a.out);
    let t0 = std::time::Instant::now();
    match a.mode.as_str() {
        "gen" => {
            let mut rng = Rng::new(a.seed);
            for h in 0..a.hist {
                let header = W::gen_header(&mut rng, h, &a.tier);
                tr.world(&format!("{} {}", W::NAME, header));
                let mut w = W::new(&header);
                for step in 0..a.len {
                    let (k, text) = w.gen_line(&mut rng, step, &a.tier);
                    if k == 'Q' {
                        w.query(&mut tr, &text);
                    } else {
                        w.exec(&mut tr, &text);
                    }
                }
            }
        }
        "replay" => {
            let hs = read_ops(a.file.as_ref().expect("--file"));
            for h in hs {
                let header = h
                    .header
                    .strip_prefix(W::NAME)
                    .unwrap_or(&h.header)
                    .trim()
                    .to_string();
                tr.world(&format!("{} {}", W::NAME, header));
                let mut w = W::new(&header);
                for (k, text) in h.lines {
                    if k == 'Q' {
                        w.query(&mut tr, &text);
                    } else {
                        w.exec(&mut tr, &text);
                    }
                }
            }
        }
        m => panic!("unknown mode {m}"),
    }
    let el = t0.elapsed().as_secs_f64();
    tr.finish(&[("wall_s", format!("{el:.3}"))]);
}
