//! World `access`: the exhaustive authorisation / pause matrix of property C19 on the REAL
//! contracts pair, router, farm, farm-with-locked-rewards, farm-staking, energy-factory,
//! fees-collector, permissions-hub, token-unstake, lkmex-transfer.
//!
//! Shape of this world (different from the random-history worlds): every op line is one
//! matrix cell `cell <contract> <endpoint[@variant]> <role> <state>`; the harness restores a
//! deterministic, fully deployed "universe" for (contract, variant, state), calls the real
//! endpoint **by name through the contract's generated dispatcher** (so `#[only_owner]`,
//! `#[payable]` and argument decoding are exercised exactly as on chain) with a minimal
//! valid payment/arguments as the given caller role, records ok/err, and evaluates C19's
//! rules directly.  The Lean driver (`drv_access`) answers the same cell from the
//! hand-written access table (lean/MxModel/Core/Access.lean).
//!
//! Sub-commands: `abi-dump` (writes lean/MxModel/Gen/Endpoints.lean from the contracts' ABI
//! providers), `gen` (abi-dump, then the whole matrix), `replay --file f.ops`.
//!
//! The VM is the same `multiversx-chain-vm` the repository's tests run on; it is driven
//! through `ScenarioVMRunner` (public API of multiversx-sc-scenario) instead of
//! `BlockchainStateWrapper` because (a) endpoints must be dispatched by name, (b) the whole
//! chain state must be snapshotted / compared (raw storage of every account).

#![allow(clippy::too_many_arguments, clippy::type_complexity)]

use mxharness::*;
use num_bigint::BigUint;
use num_traits::Zero;
use std::collections::{BTreeMap, HashMap};

use multiversx_sc::abi::{ContractAbi, EndpointAbi, EndpointMutabilityAbi};
use multiversx_sc::contract_base::{CallableContract, ContractAbiProvider, ContractBase};
use multiversx_sc::types::Address;
use multiversx_sc_scenario::debug_executor::{contract_instance_wrapped_execution, ContractContainer};
use multiversx_sc_scenario::multiversx_chain_vm::{
    tx_execution::execute_current_tx_context_input,
    tx_mock::{TxFunctionName, TxInput, TxResult, TxTokenTransfer},
    types::VMAddress,
    world_mock::{AccountData, BlockchainState, EsdtInstanceMetadata},
};
use multiversx_sc_scenario::scenario::run_vm::ScenarioVMRunner;
use multiversx_sc_scenario::DebugApi;

// =======================================================================================
// VM wrapper
// =======================================================================================
pub struct Vm {
    r: ScenarioVMRunner,
    next_user: u64,
    next_sc: u64,
}

fn vma(a: &Address) -> VMAddress {
    VMAddress::from_slice(a.as_bytes())
}

pub fn esdt(token: &[u8], nonce: u64, value: &BigUint) -> TxTokenTransfer {
    TxTokenTransfer { token_identifier: token.to_vec(), nonce, value: value.clone() }
}

impl Vm {
    pub fn new() -> Self {
        Vm { r: ScenarioVMRunner::new(), next_user: 0, next_sc: 0 }
    }
    pub fn state(&self) -> &BlockchainState {
        &self.r.blockchain_mock.state
    }
    pub fn state_mut(&mut self) -> &mut BlockchainState {
        &mut self.r.blockchain_mock.state
    }
    pub fn snapshot(&self) -> BlockchainState {
        self.state().clone()
    }
    pub fn restore(&mut self, s: &BlockchainState) {
        *self.state_mut() = s.clone();
    }
    pub fn user(&mut self) -> Address {
        self.next_user += 1;
        let mut b = [0xAAu8; 32];
        b[0] = 1;
        b[24..32].copy_from_slice(&self.next_user.to_be_bytes());
        let a = Address::from(&b);
        self.state_mut().accounts.insert(vma(&a), AccountData::new_empty(vma(&a)));
        a
    }
    /// an account with a smart-contract address; `code` = registered contract identifier
    pub fn sc_account(&mut self, owner: Option<&Address>, code: Option<&str>) -> Address {
        self.next_sc += 1;
        let mut b = [0x11u8; 32];
        for x in b.iter_mut().take(8) {
            *x = 0;
        }
        b[8] = 5;
        b[9] = 0;
        b[24..32].copy_from_slice(&self.next_sc.to_be_bytes());
        let a = Address::from(&b);
        let mut acc = AccountData::new_empty(vma(&a));
        acc.contract_path = code.map(|c| c.as_bytes().to_vec());
        acc.contract_owner = owner.map(vma);
        self.state_mut().accounts.insert(vma(&a), acc);
        a
    }
    pub fn register<CB: CallableContract + 'static>(&mut self, code: &str, obj: CB) {
        let mut m = self.r.contract_map_ref.lock();
        if !m.contains_contract(code.as_bytes()) {
            m.register_contract(code.as_bytes().to_vec(), ContractContainer::new(Box::new(obj), None, false));
        }
    }
    pub fn set_code(&mut self, a: &Address, code: &str) {
        self.state_mut().accounts.get_mut(&vma(a)).unwrap().contract_path = Some(code.as_bytes().to_vec());
    }
    pub fn set_esdt(&mut self, a: &Address, token: &[u8], v: &BigUint) {
        let acc = self.state_mut().accounts.get_mut(&vma(a)).unwrap();
        acc.esdt.set_esdt_balance(token.to_vec(), 0, v, EsdtInstanceMetadata::default());
    }
    pub fn set_nft(&mut self, a: &Address, token: &[u8], nonce: u64, v: &BigUint, attrs: Vec<u8>) {
        let acc = self.state_mut().accounts.get_mut(&vma(a)).unwrap();
        let md = EsdtInstanceMetadata { attributes: attrs, ..Default::default() };
        acc.esdt.set_esdt_balance(token.to_vec(), nonce, v, md);
    }
    pub fn set_egld(&mut self, a: &Address, v: &BigUint) {
        self.state_mut().accounts.get_mut(&vma(a)).unwrap().egld_balance = v.clone();
    }
    pub fn bal(&self, a: &Address, token: &[u8], nonce: u64) -> BigUint {
        match self.state().accounts.get(&vma(a)) {
            Some(acc) => acc.esdt.get_esdt_balance(token, nonce),
            None => BigUint::zero(),
        }
    }
    /// all (nonce, balance) instances of `token` held by `a`
    pub fn nfts(&self, a: &Address, token: &[u8]) -> Vec<(u64, BigUint)> {
        let mut v = vec![];
        if let Some(acc) = self.state().accounts.get(&vma(a)) {
            if let Some(d) = acc.esdt.get_by_identifier(token) {
                for (n, i) in d.instances.get_instances().iter() {
                    if !i.balance.is_zero() {
                        v.push((*n, i.balance.clone()));
                    }
                }
            }
        }
        v
    }
    pub fn nft_attrs(&self, a: &Address, token: &[u8], nonce: u64) -> Vec<u8> {
        self.state().accounts.get(&vma(a)).and_then(|acc| acc.esdt.get_by_identifier(token))
            .and_then(|d| d.instances.get_by_nonce(nonce)).map(|i| i.metadata.attributes.clone()).unwrap_or_default()
    }
    pub fn set_roles(&mut self, a: &Address, token: &[u8], roles: &[&str]) {
        let acc = self.state_mut().accounts.get_mut(&vma(a)).unwrap();
        acc.esdt.set_roles(token.to_vec(), roles.iter().map(|r| r.as_bytes().to_vec()).collect());
    }
    /// move tokens between two accounts outside any transaction (setup only)
    pub fn move_esdt(&mut self, from: &Address, to: &Address, token: &[u8], nonce: u64, v: &BigUint) {
        let attrs = self.nft_attrs(from, token, nonce);
        let have = self.bal(from, token, nonce);
        assert!(&have >= v, "move_esdt: insufficient balance");
        let left = &have - v;
        let md = EsdtInstanceMetadata { attributes: attrs.clone(), ..Default::default() };
        let facc = self.state_mut().accounts.get_mut(&vma(from)).unwrap();
        facc.esdt.set_esdt_balance(token.to_vec(), nonce, &left, md.clone());
        let tacc = self.state_mut().accounts.get_mut(&vma(to)).unwrap();
        tacc.esdt.increase_balance(token.to_vec(), nonce, v, md);
    }
    pub fn set_epoch(&mut self, e: u64) {
        self.state_mut().current_block_info.block_epoch = e;
    }
    pub fn set_nonce(&mut self, n: u64) {
        self.state_mut().current_block_info.block_nonce = n;
    }
    pub fn set_round(&mut self, n: u64) {
        self.state_mut().current_block_info.block_round = n;
    }
    pub fn set_timestamp(&mut self, n: u64) {
        self.state_mut().current_block_info.block_timestamp = n;
    }
    fn input(from: &Address, to: &Address, func: TxFunctionName, args: Vec<Vec<u8>>, pay: &[TxTokenTransfer], egld: &BigUint) -> TxInput {
        TxInput {
            from: vma(from),
            to: vma(to),
            egld_value: egld.clone(),
            esdt_values: pay.to_vec(),
            func_name: func,
            args,
            gas_limit: 100_000_000,
            gas_price: 0,
            ..Default::default()
        }
    }
    /// a transaction dispatched BY NAME through the contract's generated endpoint wrapper
    pub fn call(&mut self, from: &Address, to: &Address, func: &str, args: Vec<Vec<u8>>, pay: &[TxTokenTransfer], egld: &BigUint) -> TxResult {
        let inp = Self::input(from, to, TxFunctionName::from(func), args, pay, egld);
        let st = &mut self.r.blockchain_mock.state;
        st.increase_account_nonce(&inp.from);
        self.r.blockchain_mock.vm.sc_call_with_async_and_callback(inp, st, execute_current_tx_context_input)
    }
    /// white-box transaction (setup, observation): `f` runs inside the contract's context
    pub fn tx<CB, F>(&mut self, from: &Address, to: &Address, builder: fn() -> CB, pay: &[TxTokenTransfer], f: F) -> TxResult
    where
        CB: ContractBase<Api = DebugApi> + CallableContract + 'static,
        F: FnOnce(CB),
    {
        let inp = Self::input(from, to, TxFunctionName::WHITEBOX_CALL, vec![], pay, &BigUint::zero());
        let sc = builder();
        let st = &mut self.r.blockchain_mock.state;
        self.r.blockchain_mock.vm.sc_call_with_async_and_callback(inp, st, || {
            contract_instance_wrapped_execution(false, || {
                f(sc);
                Ok(())
            });
        })
    }
    pub fn tx_ok<CB, F>(&mut self, from: &Address, to: &Address, builder: fn() -> CB, pay: &[TxTokenTransfer], f: F)
    where
        CB: ContractBase<Api = DebugApi> + CallableContract + 'static,
        F: FnOnce(CB),
    {
        let r = self.tx(from, to, builder, pay, f);
        assert!(r.result_status == 0, "setup tx failed: {} {}", r.result_status, r.result_message);
    }
}

/// canonical rendering of the WHOLE chain state except account nonces: every account's EGLD,
/// every ESDT instance (balance + attributes), roles, every raw storage cell.
pub fn digest(s: &BlockchainState) -> String {
    let mut accs: Vec<&AccountData> = s.accounts.values().collect();
    accs.sort_by(|a, b| a.address.as_bytes().cmp(b.address.as_bytes()));
    let mut out = String::new();
    for a in accs {
        out += &format!("A{} e={} o={:?} c={:?}\n", hex::encode(a.address.as_bytes()), a.egld_balance,
            a.contract_owner.as_ref().map(|o| hex::encode(o.as_bytes())), a.contract_path.as_ref().map(|p| String::from_utf8_lossy(p).to_string()));
        let mut toks: Vec<(&Vec<u8>, _)> = a.esdt.iter().collect();
        toks.sort_by(|x, y| x.0.cmp(y.0));
        for (t, d) in toks {
            let mut roles = d.roles.get();
            roles.sort();
            out += &format!(" T{} ln={} r={:?}", String::from_utf8_lossy(t), d.last_nonce,
                roles.iter().map(|r| String::from_utf8_lossy(r).to_string()).collect::<Vec<_>>());
            for (n, i) in d.instances.get_instances().iter() {
                if !i.balance.is_zero() {
                    out += &format!(" {}:{}:{}", n, i.balance, hex::encode(&i.metadata.attributes));
                }
            }
            out += "\n";
        }
        let mut keys: Vec<&Vec<u8>> = a.storage.keys().collect();
        keys.sort();
        for k in keys {
            let v = &a.storage[k];
            if !v.is_empty() {
                out += &format!(" S{}={}\n", hex::encode(k), hex::encode(v));
            }
        }
    }
    out += &format!("B{} {} {}\n", s.current_block_info.block_epoch, s.current_block_info.block_nonce, s.current_block_info.block_round);
    out
}

/// token balance changes of one account between two states: "TOKEN:nonce:+delta …"
pub fn deltas(pre: &BlockchainState, post: &BlockchainState, a: &Address) -> String {
    let mut m: BTreeMap<(Vec<u8>, u64), (BigUint, BigUint)> = BTreeMap::new();
    for (st, first) in [(pre, true), (post, false)] {
        if let Some(acc) = st.accounts.get(&vma(a)) {
            for (t, d) in acc.esdt.iter() {
                for (n, i) in d.instances.get_instances().iter() {
                    let e = m.entry((t.clone(), *n)).or_default();
                    if first { e.0 = i.balance.clone() } else { e.1 = i.balance.clone() }
                }
            }
        }
    }
    let mut out = vec![];
    for ((t, n), (x, y)) in m {
        if x < y {
            out.push(format!("{}:{}:+{}", String::from_utf8_lossy(&t), n, &y - &x));
        } else if x > y {
            out.push(format!("{}:{}:-{}", String::from_utf8_lossy(&t), n, &x - &y));
        }
    }
    if out.is_empty() { "no balance change".into() } else { out.join(",") }
}

// =======================================================================================
// argument encoding (top-level encoding of endpoint arguments, as a transaction carries them)
// =======================================================================================
pub fn a_u64(x: u64) -> Vec<u8> {
    let b = x.to_be_bytes();
    let i = b.iter().position(|v| *v != 0).unwrap_or(8);
    b[i..].to_vec()
}
pub fn a_big(x: &BigUint) -> Vec<u8> {
    if x.is_zero() { vec![] } else { x.to_bytes_be() }
}
pub fn a_addr(a: &Address) -> Vec<u8> {
    a.as_bytes().to_vec()
}
pub fn a_bool(b: bool) -> Vec<u8> {
    if b { vec![1] } else { vec![] }
}
pub fn n_bytes(b: &[u8]) -> Vec<u8> {
    let mut v = (b.len() as u32).to_be_bytes().to_vec();
    v.extend_from_slice(b);
    v
}
pub fn n_big(x: &BigUint) -> Vec<u8> {
    n_bytes(&a_big(x))
}
/// top-encoded EsdtTokenPayment struct
pub fn a_payment(token: &[u8], nonce: u64, amount: &BigUint) -> Vec<u8> {
    let mut v = n_bytes(token);
    v.extend_from_slice(&nonce.to_be_bytes());
    v.extend_from_slice(&n_big(amount));
    v
}

// =======================================================================================
// ABI inventory
// =======================================================================================
pub const CONTRACTS: [&str; 10] = ["pair", "router", "farm", "fwlr", "staking", "energy", "fees", "hub", "unstake", "lkmex"];

fn abi_of(c: &str) -> ContractAbi {
    match c {
        "pair" => pair::AbiProvider::abi(),
        "router" => router::AbiProvider::abi(),
        "farm" => farm::AbiProvider::abi(),
        "fwlr" => farm_with_locked_rewards::AbiProvider::abi(),
        "staking" => farm_staking::AbiProvider::abi(),
        "energy" => energy_factory::AbiProvider::abi(),
        "fees" => fees_collector::AbiProvider::abi(),
        "hub" => permissions_hub::AbiProvider::abi(),
        "unstake" => token_unstake::AbiProvider::abi(),
        "lkmex" => lkmex_transfer::AbiProvider::abi(),
        _ => panic!("unknown contract {c}"),
    }
}

fn is_readonly(e: &EndpointAbi) -> bool {
    !matches!(e.mutability, EndpointMutabilityAbi::Mutable)
}

fn lean_contract(c: &str) -> &'static str {
    match c {
        "pair" => ".pair", "router" => ".router", "farm" => ".farm", "fwlr" => ".fwlr", "staking" => ".staking",
        "energy" => ".energy", "fees" => ".fees", "hub" => ".hub", "unstake" => ".unstake", "lkmex" => ".lkmex",
        _ => panic!(),
    }
}

fn endpoints_lean() -> String {
    let mut s = String::new();
    s += "/-\n  GENERATED by `w_access abi-dump` from the contracts' own ABI providers\n";
    s += "  (`<crate>::AbiProvider::abi().endpoints`).  Do not edit: it is rewritten (only when its\n";
    s += "  content changes) on every run of the `access` world.\n";
    s += "  Entry = (contract, endpoint name, only_owner, readonly (view), payable).\n-/\n";
    s += "import MxModel.Core.Access\n\nnamespace Mx.Gen\nopen Mx.Access\n\n";
    s += "def endpoints : List (Contract × String × Bool × Bool × Bool) := [\n";
    let mut first = true;
    for c in CONTRACTS {
        let abi = abi_of(c);
        for e in abi.endpoints.iter() {
            if !first {
                s += ",\n";
            }
            first = false;
            s += &format!("  ({}, \"{}\", {}, {}, {})", lean_contract(c), e.name, e.only_owner, is_readonly(e), !e.payable_in_tokens.is_empty());
        }
    }
    s += "\n]\n\nend Mx.Gen\n";
    s
}

fn abi_dump() -> bool {
    let path = std::path::Path::new(env!("CARGO_MANIFEST_DIR")).join("../lean/MxModel/Gen/Endpoints.lean");
    let new = endpoints_lean();
    let old = std::fs::read_to_string(&path).unwrap_or_default();
    if old != new {
        std::fs::create_dir_all(path.parent().unwrap()).unwrap();
        std::fs::write(&path, new).unwrap();
        true
    } else {
        false
    }
}

// =======================================================================================
// universes: deterministic deployed worlds, one per (contract, variant, state)
// =======================================================================================
pub const ROLES: [&str; 9] = ["owner", "admin", "pauser", "wsc", "user", "agent", "revoked", "blacklisted", "router"];

fn roles_of(c: &str) -> &'static [&'static str] {
    if c == "pair" { &ROLES[..] } else { &ROLES[..8] }
}
fn states_of(c: &str) -> &'static [&'static str] {
    match c {
        "pair" | "farm" | "fwlr" | "staking" => &["inactive", "partial", "active"],
        "router" | "energy" | "fees" => &["inactive", "active"],
        _ => &["active"],
    }
}

#[derive(Clone)]
pub struct Uni {
    snap: BlockchainState,
    sc: Address,
    a: BTreeMap<String, Address>,
    n: BTreeMap<String, u64>,
}
impl Uni {
    fn addr(&self, k: &str) -> &Address {
        self.a.get(k).unwrap_or_else(|| panic!("no address {k}"))
    }
    fn num(&self, k: &str) -> u64 {
        *self.n.get(k).unwrap_or_else(|| panic!("no number {k}"))
    }
}

pub struct Call {
    args: Vec<Vec<u8>>,
    pay: Vec<TxTokenTransfer>,
    egld: BigUint,
}
fn call(args: Vec<Vec<u8>>) -> Option<Call> {
    Some(Call { args, pay: vec![], egld: BigUint::zero() })
}
fn callp(args: Vec<Vec<u8>>, pay: Vec<TxTokenTransfer>) -> Option<Call> {
    Some(Call { args, pay, egld: BigUint::zero() })
}

const FIRST: &[u8] = b"FIRST-abcdef";
const SECOND: &[u8] = b"SECOND-abcdef";
const THIRD: &[u8] = b"THIRD-abcdef";
const LP: &[u8] = b"LPTOK-abcdef";
const REW: &[u8] = b"REW-abcdef";
const FARMING: &[u8] = b"FARMING-abcdef";
const FARMTOK: &[u8] = b"FARM-abcdef";
const LOCKED: &[u8] = b"LOCKED-abcdef";
const LEGACY: &[u8] = b"LEGACY-abcdef";

fn b(x: u64) -> BigUint {
    BigUint::from(x)
}

struct Builder<'a> {
    vm: &'a mut Vm,
    a: BTreeMap<String, Address>,
    n: BTreeMap<String, u64>,
}
impl<'a> Builder<'a> {
    fn new(vm: &'a mut Vm) -> Self {
        *vm.state_mut() = BlockchainState::default();
        let mut bd = Builder { vm, a: BTreeMap::new(), n: BTreeMap::new() };
        for r in ["owner", "admin", "pauser", "user", "agent", "revoked", "blacklisted", "fresh", "fresh2"] {
            let x = bd.vm.user();
            bd.a.insert(r.to_string(), x);
        }
        for r in ["wsc", "router", "fresh_sc"] {
            let x = bd.vm.sc_account(None, None);
            bd.a.insert(r.to_string(), x);
        }
        let egld = BigUint::from(10u64).pow(20);
        for r in ROLES {
            let x = bd.ad(r);
            bd.vm.set_egld(&x, &egld);
        }
        bd
    }
    fn ad(&self, k: &str) -> Address {
        self.a.get(k).unwrap_or_else(|| panic!("no address {k}")).clone()
    }
    fn deploy(&mut self, name: &str, owner: &str, code: &str) -> Address {
        let o = self.ad(owner);
        let x = self.vm.sc_account(Some(&o), Some(code));
        self.a.insert(name.to_string(), x.clone());
        x
    }
    /// by-name call that must succeed (setup)
    fn ok(&mut self, from: &str, to: &str, func: &str, args: Vec<Vec<u8>>, pay: &[TxTokenTransfer]) -> TxResult {
        let (f, t) = (self.ad(from), self.ad(to));
        let r = self.vm.call(&f, &t, func, args, pay, &BigUint::zero());
        assert!(r.result_status == 0, "setup call {to}.{func} by {from} failed: {} {}", r.result_status, r.result_message);
        r
    }
    fn store(&mut self, sc: &str, key: &[u8], val: Vec<u8>) {
        let a = self.ad(sc);
        self.vm.state_mut().accounts.get_mut(&vma(&a)).unwrap().storage.insert(key.to_vec(), val);
    }
    fn fund_all(&mut self, token: &[u8], v: &BigUint) {
        for r in ROLES.iter().chain(["fresh"].iter()) {
            let a = self.ad(r);
            self.vm.set_esdt(&a, token, v);
        }
    }
    fn finish(self, sc: &str) -> Uni {
        Uni { snap: self.vm.snapshot(), sc: self.ad(sc), a: self.a, n: self.n }
    }
}

fn register_all(vm: &mut Vm) {
    vm.register("pair", pair::contract_obj::<DebugApi>());
    vm.register("router", router::contract_obj::<DebugApi>());
    vm.register("farm", farm::contract_obj::<DebugApi>());
    vm.register("fwlr", farm_with_locked_rewards::contract_obj::<DebugApi>());
    vm.register("staking", farm_staking::contract_obj::<DebugApi>());
    vm.register("energy", energy_factory::contract_obj::<DebugApi>());
    vm.register("fees", fees_collector::contract_obj::<DebugApi>());
    vm.register("hub", permissions_hub::contract_obj::<DebugApi>());
    vm.register("unstake", token_unstake::contract_obj::<DebugApi>());
    vm.register("lkmex", lkmex_transfer::contract_obj::<DebugApi>());
    vm.register("efmock", energy_factory_mock::contract_obj::<DebugApi>());
    vm.register("simplelock", simple_lock::contract_obj::<DebugApi>());
}

// ---------------------------------------------------------------------------------------
// pair
// ---------------------------------------------------------------------------------------
fn build_pair(vm: &mut Vm, variant: &str, amt: u64) -> Uni {
    let mut bd = Builder::new(vm);
    bd.deploy("pair", "router", "pair");
    bd.deploy("lock", "owner", "simplelock");
    let adder = if variant == "adder" { bd.ad("user") } else { Address::zero() };
    // the router deploys the pair: router + router owner get OWNER|PAUSE, `admin` gets ADMIN
    let _ = bd.ok("router", "pair", "init", vec![FIRST.to_vec(), SECOND.to_vec(), a_addr(&bd.ad("router")), a_addr(&bd.ad("owner")),
        a_u64(300), a_u64(50), a_addr(&adder), a_addr(&bd.ad("admin"))], &[]);
    let pair = bd.ad("pair");
    bd.vm.set_roles(&pair, LP, &["ESDTRoleLocalMint", "ESDTRoleLocalBurn"]);
    bd.vm.set_roles(&pair, FIRST, &["ESDTRoleLocalBurn"]);
    bd.vm.set_roles(&pair, SECOND, &["ESDTRoleLocalBurn"]);
    let big = BigUint::from(10u64).pow(15);
    bd.fund_all(FIRST, &big);
    bd.fund_all(SECOND, &big);
    let _ = bd.ok("owner", "pair", "addToPauseWhitelist", vec![a_addr(&bd.ad("pauser"))], &[]);
    let _ = bd.ok("owner", "pair", "whitelist", vec![a_addr(&bd.ad("wsc"))], &[]);
    let _ = bd.ok("owner", "pair", "addTrustedSwapPair", vec![a_addr(&bd.ad("fresh_sc")), THIRD.to_vec(), FIRST.to_vec()], &[]);
    let _ = bd.ok("owner", "pair", "setLockingScAddress", vec![a_addr(&bd.ad("lock"))], &[]);
    let _ = bd.ok("owner", "pair", "setupFeesCollector", vec![a_addr(&bd.ad("fresh_sc")), a_u64(50_000)], &[]);
    if variant != "nolp" {
        let _ = bd.ok("owner", "pair", "setLpTokenIdentifier", vec![LP.to_vec()], &[]);
    }
    if variant == "std" {
        let _ = bd.ok("pauser", "pair", "resume", vec![], &[]);
        bd.vm.set_round(10);
        let base = b(1_000_000 + amt);
        let _ = bd.ok("user", "pair", "addLiquidity", vec![a_u64(1), a_u64(1)], &[esdt(FIRST, 0, &base), esdt(SECOND, 0, &(&base * 2u32))]);
        bd.vm.set_round(20);
        for r in ROLES {
            let _ = bd.ok(r, "pair", "addLiquidity", vec![a_u64(1), a_u64(1)], &[esdt(FIRST, 0, &b(100_000)), esdt(SECOND, 0, &b(200_000))]);
        }
        bd.vm.set_round(30);
        let _ = bd.ok("user", "pair", "swapTokensFixedInput", vec![SECOND.to_vec(), a_u64(1)], &[esdt(FIRST, 0, &b(1000))]);
        bd.vm.set_round(40);
        let _ = bd.ok("user", "pair", "swapTokensFixedInput", vec![FIRST.to_vec(), a_u64(1)], &[esdt(SECOND, 0, &b(1000))]);
        bd.vm.set_round(50);
    }
    bd.n.insert("amt".into(), 1000 + amt % 1000);
    bd.finish("pair")
}

fn pair_call(u: &Uni, e: &str, role: &str) -> Option<Call> {
    let amt = b(u.num("amt"));
    let me = u.addr(role);
    match e {
        "setLpTokenIdentifier" => call(vec![LP.to_vec()]),
        "whitelist" => call(vec![a_addr(u.addr("fresh"))]),
        "removeWhitelist" => call(vec![a_addr(u.addr("wsc"))]),
        "addTrustedSwapPair" => call(vec![a_addr(u.addr("fresh_sc")), THIRD.to_vec(), SECOND.to_vec()]),
        "removeTrustedSwapPair" => call(vec![THIRD.to_vec(), FIRST.to_vec()]),
        "setupFeesCollector" => call(vec![a_addr(u.addr("fresh_sc")), a_u64(50_000)]),
        "setFeeOn" => call(vec![a_bool(true), a_addr(u.addr("fresh")), FIRST.to_vec()]),
        "setStateActiveNoSwaps" => call(vec![]),
        "setFeePercents" => call(vec![a_u64(400), a_u64(100)]),
        "updateAndGetTokensForGivenPositionWithSafePrice" => call(vec![a_u64(1000)]),
        "updateAndGetSafePrice" => call(vec![a_payment(FIRST, 0, &b(1000))]),
        "setLockingDeadlineEpoch" | "setUnlockEpoch" => call(vec![a_u64(5)]),
        "setLockingScAddress" => call(vec![a_addr(u.addr("lock"))]),
        "addAdmin" => call(vec![a_addr(u.addr("fresh"))]),
        "removeAdmin" => call(vec![a_addr(u.addr("admin"))]),
        "updateOwnerOrAdmin" => call(vec![a_addr(u.addr("owner"))]),
        "addToPauseWhitelist" => call(vec![a_addr(u.addr("fresh"))]),
        "removeFromPauseWhitelist" => call(vec![a_addr(u.addr("pauser"))]),
        "pause" | "resume" => call(vec![]),
        "addInitialLiquidity" | "addInitialLiquidity@adder" => callp(vec![], vec![esdt(FIRST, 0, &(&amt * 100u32)), esdt(SECOND, 0, &(&amt * 200u32))]),
        "addLiquidity" => callp(vec![a_u64(1), a_u64(1)], vec![esdt(FIRST, 0, &amt), esdt(SECOND, 0, &(&amt * 2u32))]),
        "removeLiquidity" => callp(vec![a_u64(1), a_u64(1)], vec![esdt(LP, 0, &amt)]),
        "removeLiquidityAndBuyBackAndBurnToken" => callp(vec![FIRST.to_vec()], vec![esdt(LP, 0, &amt)]),
        "swapNoFeeAndForward" => callp(vec![SECOND.to_vec(), a_addr(me)], vec![esdt(FIRST, 0, &amt)]),
        "swapTokensFixedInput" => callp(vec![SECOND.to_vec(), a_u64(1)], vec![esdt(FIRST, 0, &amt)]),
        "swapTokensFixedOutput" => callp(vec![SECOND.to_vec(), a_u64(10)], vec![esdt(FIRST, 0, &amt)]),
        // views with arguments
        "getReserve" => call(vec![FIRST.to_vec()]),
        "getLpTokensSafePriceByDefaultOffset" => call(vec![a_addr(&u.sc), a_u64(1000)]),
        "getLpTokensSafePriceByRoundOffset" | "getLpTokensSafePriceByTimestampOffset" => call(vec![a_addr(&u.sc), a_u64(10), a_u64(1000)]),
        "getLpTokensSafePrice" => call(vec![a_addr(&u.sc), a_u64(30), a_u64(45), a_u64(1000)]),
        "getSafePriceByDefaultOffset" => call(vec![a_addr(&u.sc), a_payment(FIRST, 0, &b(1000))]),
        "getSafePriceByRoundOffset" | "getSafePriceByTimestampOffset" => call(vec![a_addr(&u.sc), a_u64(10), a_payment(FIRST, 0, &b(1000))]),
        "getSafePrice" => call(vec![a_addr(&u.sc), a_u64(30), a_u64(45), a_payment(FIRST, 0, &b(1000))]),
        "getPriceObservation" => call(vec![a_addr(&u.sc), a_u64(35)]),
        "getPermissions" => call(vec![a_addr(me)]),
        "getTokensForGivenPosition" => call(vec![a_u64(1000)]),
        "getAmountOut" | "getEquivalent" => call(vec![FIRST.to_vec(), a_u64(1000)]),
        "getAmountIn" => call(vec![SECOND.to_vec(), a_u64(1000)]),
        _ => None,
    }
}

// ---------------------------------------------------------------------------------------
// farm / farm-with-locked-rewards  (deployment follows dex/farm/tests/farm_setup and
// dex/farm-with-locked-rewards/tests/farm_with_locked_rewards_setup, by-name where possible)
// ---------------------------------------------------------------------------------------
const FARM_ROLES: [&str; 3] = ["ESDTRoleNFTCreate", "ESDTRoleNFTAddQuantity", "ESDTRoleNFTBurn"];

fn hub_setup(bd: &mut Builder) {
    bd.deploy("hub", "owner", "hub");
    let _ = bd.ok("owner", "hub", "init", vec![], &[]);
    let _ = bd.ok("user", "hub", "whitelist", vec![a_addr(&bd.ad("agent")), a_addr(&bd.ad("revoked")), a_addr(&bd.ad("blacklisted"))], &[]);
    let _ = bd.ok("user", "hub", "removeWhitelist", vec![a_addr(&bd.ad("revoked"))], &[]);
    let _ = bd.ok("owner", "hub", "blacklist", vec![a_addr(&bd.ad("blacklisted"))], &[]);
}

fn lock_options() -> Vec<Vec<u8>> {
    vec![a_u64(360), a_u64(4000), a_u64(720), a_u64(6000), a_u64(1440), a_u64(8000)]
}

/// a real energy factory (used by fwlr, staking, and the `energy` group)
fn energy_setup(bd: &mut Builder, base: &[u8]) {
    bd.deploy("energy", "owner", "energy");
    let mut args = vec![base.to_vec(), LEGACY.to_vec(), a_addr(&bd.ad("fresh_sc")), a_u64(0)];
    args.extend(lock_options());
    let _ = bd.ok("owner", "energy", "init", args, &[]);
    bd.store("energy", b"lockedTokenId", LOCKED.to_vec());
    let e = bd.ad("energy");
    bd.vm.set_roles(&e, LOCKED, &["ESDTRoleNFTCreate", "ESDTRoleNFTAddQuantity", "ESDTRoleNFTBurn", "ESDTTransferRole"]);
    bd.vm.set_roles(&e, base, &["ESDTRoleLocalMint", "ESDTRoleLocalBurn"]);
    let _ = bd.ok("owner", "energy", "unpause", vec![], &[]);
}

fn last_nonce(bd: &Builder, who: &str, token: &[u8]) -> u64 {
    bd.vm.nfts(&bd.ad(who), token).iter().map(|x| x.0).max().unwrap_or(0)
}

fn build_farm(vm: &mut Vm, c: &str, variant: &str, amt: u64) -> Uni {
    let mut bd = Builder::new(vm);
    let farming: &[u8] = if variant == "same" { REW } else { FARMING };
    hub_setup(&mut bd);
    if c == "farm" {
        bd.deploy("energy", "owner", "efmock");
        let _ = bd.ok("owner", "energy", "init", vec![], &[]);
    } else {
        energy_setup(&mut bd, REW);
    }
    bd.deploy("farm", "owner", c);
    let _ = bd.ok("owner", "farm", "init", vec![REW.to_vec(), farming.to_vec(), a_u64(1_000_000_000_000), a_addr(&Address::zero()),
        a_addr(&bd.ad("owner")), a_addr(&bd.ad("admin"))], &[]);
    let farm = bd.ad("farm");
    if variant != "notoken" {
        bd.store("farm", b"farm_token_id", FARMTOK.to_vec());
    }
    bd.vm.set_roles(&farm, FARMTOK, &FARM_ROLES);
    bd.vm.set_roles(&farm, farming, &["ESDTRoleLocalBurn", "ESDTRoleLocalMint"]);
    bd.vm.set_roles(&farm, REW, &["ESDTRoleLocalMint", "ESDTRoleLocalBurn"]);
    let big = BigUint::from(10u64).pow(15);
    bd.fund_all(farming, &big);
    bd.fund_all(REW, &big);
    let _ = bd.ok("owner", "farm", "setEnergyFactoryAddress", vec![a_addr(&bd.ad("energy"))], &[]);
    let _ = bd.ok("owner", "farm", "setPermissionsHubAddress", vec![a_addr(&bd.ad("hub"))], &[]);
    let _ = bd.ok("owner", "farm", "addToPauseWhitelist", vec![a_addr(&bd.ad("pauser"))], &[]);
    let _ = bd.ok("owner", "farm", "addSCAddressToWhitelist", vec![a_addr(&bd.ad("wsc"))], &[]);
    if c == "fwlr" {
        let _ = bd.ok("owner", "farm", "setLockingScAddress", vec![a_addr(&bd.ad("energy"))], &[]);
        let _ = bd.ok("owner", "farm", "setLockEpochs", vec![a_u64(360)], &[]);
        let _ = bd.ok("owner", "energy", "addSCAddressToWhitelist", vec![a_addr(&farm)], &[]);
    }
    if variant != "notoken" {
        let _ = bd.ok("admin", "farm", "setPerBlockRewardAmount", vec![a_u64(1000)], &[]);
        let _ = bd.ok("admin", "farm", "setBoostedYieldsRewardsPercentage", vec![a_u64(2500)], &[]);
        let _ = bd.ok("admin", "farm", "setBoostedYieldsFactors", vec![a_u64(10), a_u64(3), a_u64(2), a_u64(1), a_u64(1)], &[]);
        let _ = bd.ok("pauser", "farm", "resume", vec![], &[]);
        bd.vm.set_nonce(10);
        let _ = bd.ok("admin", "farm", "startProduceRewards", vec![], &[]);
        if c == "farm" {
            // `user` (and only `user`) has energy: boosted rewards become pending for it
            let _ = bd.ok("owner", "energy", "setUserEnergy", vec![a_addr(&bd.ad("user")), a_u64(1_000_000), a_u64(10_000)], &[]);
        } else {
            let _ = bd.ok("user", "energy", "lockTokens", vec![a_u64(1440)], &[esdt(REW, 0, &b(1_000_000))]);
        }
        let pos = b(1_000_000 + amt);
        for r in ROLES {
            for k in ["pos1", "pos2"] {
                let _ = bd.ok(r, "farm", "enterFarm", vec![], &[esdt(farming, 0, &pos)]);
                let n = last_nonce(&bd, r, FARMTOK);
                bd.n.insert(format!("{k}.{r}"), n);
            }
        }
        // positions OWNED by `user` but held by each role (for the on-behalf endpoints)
        for r in ROLES {
            let _ = bd.ok("user", "farm", "enterFarm", vec![], &[esdt(farming, 0, &pos)]);
            let n = last_nonce(&bd, "user", FARMTOK);
            if r != "user" {
                let (f, t) = (bd.ad("user"), bd.ad(r));
                bd.vm.move_esdt(&f, &t, FARMTOK, n, &pos);
            }
            bd.n.insert(format!("upos.{r}"), n);
        }
        bd.vm.set_nonce(20);
        let _ = bd.ok("admin", "farm", "endProduceRewards", vec![], &[]);
        bd.vm.set_nonce(25);
        // week 2 (boosted rewards of week 1 are pending for `user`); "late" = week 8
        bd.vm.set_epoch(if variant == "late" { 50 } else { 8 });
        bd.n.insert("pos".into(), 1_000_000 + amt);
    }
    bd.n.insert("amt".into(), 1000 + amt % 1000);
    bd.finish("farm")
}

fn farm_call(u: &Uni, c: &str, e: &str, role: &str, same: bool) -> Option<Call> {
    let amt = b(u.num("amt"));
    let me = u.addr(role);
    let farming: &[u8] = if same { REW } else { FARMING };
    let pos = |k: &str| -> TxTokenTransfer { esdt(FARMTOK, u.num(&format!("{k}.{role}")), &b(u.num("pos"))) };
    match e {
        "enterFarm" => callp(vec![], vec![esdt(farming, 0, &amt)]),
        "enterFarm@orig" => callp(vec![a_addr(u.addr("user"))], vec![esdt(farming, 0, &amt)]),
        "claimRewards" | "compoundRewards" | "exitFarm" => callp(vec![], vec![pos("pos1")]),
        "claimRewards@orig" | "compoundRewards@orig" | "exitFarm@orig" => callp(vec![a_addr(u.addr("user"))], vec![pos("upos")]),
        "mergeFarmTokens" => callp(vec![], vec![pos("pos1"), pos("pos2")]),
        "mergeFarmTokens@orig" => callp(vec![a_addr(me)], vec![pos("pos1"), pos("pos2")]),
        "claimBoostedRewards" => call(vec![]),
        "claimBoostedRewards@other" => call(vec![a_addr(u.addr(if role == "user" { "agent" } else { "user" }))]),
        "startProduceRewards" | "endProduceRewards" | "collectUndistributedBoostedRewards" => call(vec![]),
        "setPerBlockRewardAmount" => call(vec![a_u64(2000)]),
        "setBoostedYieldsRewardsPercentage" => call(vec![a_u64(3000)]),
        "registerFarmToken" => Some(Call { args: vec![b"FarmToken".to_vec(), b"FARM".to_vec(), a_u64(18)], pay: vec![], egld: b(50_000_000) }),
        "addToPauseWhitelist" | "addAdmin" | "addSCAddressToWhitelist" => call(vec![a_addr(u.addr("fresh"))]),
        "removeFromPauseWhitelist" => call(vec![a_addr(u.addr("pauser"))]),
        "removeAdmin" => call(vec![a_addr(u.addr("admin"))]),
        "removeSCAddressFromWhitelist" => call(vec![a_addr(u.addr("wsc"))]),
        "updateOwnerOrAdmin" => call(vec![a_addr(u.addr("admin"))]),
        "pause" | "resume" => call(vec![]),
        "setPermissionsHubAddress" => call(vec![a_addr(u.addr("hub"))]),
        "set_penalty_percent" => call(vec![a_u64(100)]),
        "set_minimum_farming_epochs" => call(vec![a_u64(3)]),
        "set_burn_gas_limit" => call(vec![a_u64(100)]),
        "enterFarmOnBehalf" => callp(vec![a_addr(u.addr("user"))], vec![esdt(farming, 0, &amt)]),
        "claimRewardsOnBehalf" => callp(vec![], vec![pos("upos")]),
        "setBoostedYieldsFactors" => call(vec![a_u64(10), a_u64(3), a_u64(2), a_u64(1), a_u64(1)]),
        "updateEnergyForUser" => call(vec![a_addr(u.addr("fresh"))]),
        "setEnergyFactoryAddress" | "setLockingScAddress" => call(vec![a_addr(u.addr("energy"))]),
        "setLockEpochs" => call(vec![a_u64(720)]),
        "calculateRewardsForGivenPosition" => {
            let n = u.num(&format!("pos1.{role}"));
            let attrs = u.snap.accounts.get(&vma(me)).and_then(|a| a.esdt.get_by_identifier(FARMTOK))
                .and_then(|d| d.instances.get_by_nonce(n)).map(|i| i.metadata.attributes.clone()).unwrap_or_default();
            if c == "staking" { call(vec![a_u64(1000), attrs]) } else { call(vec![a_addr(me), a_u64(1000), attrs]) }
        }
        _ => None,
    }
}

// ---------------------------------------------------------------------------------------
// farm-staking (deployment follows farm-staking/tests/farm_staking_setup)
// ---------------------------------------------------------------------------------------
fn build_staking(vm: &mut Vm, variant: &str, amt: u64) -> Uni {
    let mut bd = Builder::new(vm);
    hub_setup(&mut bd);
    energy_setup(&mut bd, REW);
    bd.deploy("farm", "owner", "staking");
    let _ = bd.ok("owner", "farm", "init", vec![FARMING.to_vec(), a_u64(1_000_000_000_000), a_u64(2_500), a_u64(1),
        a_addr(&bd.ad("owner")), a_addr(&bd.ad("admin"))], &[]);
    let farm = bd.ad("farm");
    if variant != "notoken" {
        bd.store("farm", b"farm_token_id", FARMTOK.to_vec());
    }
    bd.vm.set_roles(&farm, FARMTOK, &FARM_ROLES);
    bd.vm.set_roles(&farm, FARMING, &["ESDTRoleLocalBurn"]);
    let big = BigUint::from(10u64).pow(15);
    bd.fund_all(FARMING, &big);
    bd.fund_all(REW, &big);
    let _ = bd.ok("owner", "farm", "setEnergyFactoryAddress", vec![a_addr(&bd.ad("energy"))], &[]);
    let _ = bd.ok("owner", "farm", "setPermissionsHubAddress", vec![a_addr(&bd.ad("hub"))], &[]);
    let _ = bd.ok("owner", "farm", "addToPauseWhitelist", vec![a_addr(&bd.ad("pauser"))], &[]);
    let _ = bd.ok("owner", "farm", "addSCAddressToWhitelist", vec![a_addr(&bd.ad("wsc"))], &[]);
    if variant != "notoken" {
        let _ = bd.ok("admin", "farm", "setPerBlockRewardAmount", vec![a_u64(1000)], &[]);
        let _ = bd.ok("admin", "farm", "topUpRewards", vec![], &[esdt(FARMING, 0, &b(1_000_000_000_000))]);
        let _ = bd.ok("admin", "farm", "setBoostedYieldsRewardsPercentage", vec![a_u64(2500)], &[]);
        let _ = bd.ok("admin", "farm", "setBoostedYieldsFactors", vec![a_u64(10), a_u64(3), a_u64(2), a_u64(1), a_u64(1)], &[]);
        let _ = bd.ok("pauser", "farm", "resume", vec![], &[]);
        bd.vm.set_nonce(10);
        let _ = bd.ok("admin", "farm", "startProduceRewards", vec![], &[]);
        let _ = bd.ok("user", "energy", "lockTokens", vec![a_u64(1440)], &[esdt(REW, 0, &b(1_000_000))]);
        let pos = b(1_000_000 + amt);
        for r in ROLES {
            for k in ["pos1", "pos2", "pos3"] {
                let _ = bd.ok(r, "farm", "stakeFarm", vec![], &[esdt(FARMING, 0, &pos)]);
                let n = last_nonce(&bd, r, FARMTOK);
                bd.n.insert(format!("{k}.{r}"), n);
            }
        }
        for r in ROLES {
            let _ = bd.ok("user", "farm", "stakeFarm", vec![], &[esdt(FARMING, 0, &pos)]);
            let n = last_nonce(&bd, "user", FARMTOK);
            if r != "user" {
                let (f, t) = (bd.ad("user"), bd.ad(r));
                bd.vm.move_esdt(&f, &t, FARMTOK, n, &pos);
            }
            bd.n.insert(format!("upos.{r}"), n);
        }
        bd.vm.set_nonce(15);
        for r in ROLES {
            let n3 = bd.n[&format!("pos3.{r}")];
            let _ = bd.ok(r, "farm", "unstakeFarm", vec![], &[esdt(FARMTOK, n3, &pos)]);
            let n = last_nonce(&bd, r, FARMTOK);
            bd.n.insert(format!("unbond.{r}"), n);
        }
        bd.vm.set_nonce(20);
        let _ = bd.ok("admin", "farm", "endProduceRewards", vec![], &[]);
        bd.vm.set_nonce(25);
        bd.vm.set_epoch(if variant == "late" { 50 } else { 8 });
        bd.n.insert("pos".into(), 1_000_000 + amt);
    }
    bd.n.insert("amt".into(), 1000 + amt % 1000);
    bd.finish("farm")
}

fn staking_call(u: &Uni, e: &str, role: &str) -> Option<Call> {
    let amt = b(u.num("amt"));
    let me = u.addr(role);
    let pos = |k: &str| -> TxTokenTransfer { esdt(FARMTOK, u.num(&format!("{k}.{role}")), &b(u.num("pos"))) };
    match e {
        "stakeFarm" => callp(vec![], vec![esdt(FARMING, 0, &amt)]),
        "stakeFarm@orig" => callp(vec![a_addr(u.addr("user"))], vec![esdt(FARMING, 0, &amt)]),
        "stakeFarmThroughProxy" => call(vec![a_big(&amt), a_addr(u.addr("user"))]),
        "claimRewardsWithNewValue" => callp(vec![a_u64(u.num("pos")), a_addr(me)], vec![pos("pos1")]),
        "unstakeFarm" => callp(vec![], vec![pos("pos1")]),
        "unstakeFarm@orig" => callp(vec![a_addr(u.addr("user"))], vec![pos("upos")]),
        "unstakeFarmThroughProxy" => callp(vec![a_addr(me)], vec![esdt(FARMING, 0, &amt), pos("pos1")]),
        "unbondFarm" => callp(vec![], vec![pos("unbond")]),
        "stakeFarmOnBehalf" => callp(vec![a_addr(u.addr("user"))], vec![esdt(FARMING, 0, &amt)]),
        "topUpRewards" => callp(vec![], vec![esdt(FARMING, 0, &amt)]),
        "withdrawRewards" => call(vec![a_u64(1000)]),
        "setMaxApr" => call(vec![a_u64(3000)]),
        "setMinUnbondEpochs" => call(vec![a_u64(2)]),
        "setBurnRoleForAddress" => call(vec![a_addr(u.addr("fresh_sc"))]),
        "mergeFarmTokens@orig" | "compoundRewards@orig" | "exitFarm" | "enterFarm" => None,
        _ => farm_call(u, "staking", e, role, false),
    }
}

// ---------------------------------------------------------------------------------------
// energy-factory + token-unstake + fees-collector + lkmex-transfer: one deployment, four
// contracts under test (follows locked-asset/token-unstake/tests/token_unstake_setup,
// energy-integration/fees-collector/tests/fees_collector_test_setup, lkmex_transfer_tests)
// ---------------------------------------------------------------------------------------
const BASE: &[u8] = b"MEX-abcdef";
const LEGACY_NONCE: u64 = 2_286_815; // first nonce with the updated legacy attribute layout

fn n_energy(amount: u64, epoch: u64, tokens: u64) -> Vec<u8> {
    let mut v = n_big(&b(amount));
    // BigInt nested encoding is signed: keep the sign bit clear
    if amount > 0 && v[4] & 0x80 != 0 {
        let mut w = ((v.len() - 4 + 1) as u32).to_be_bytes().to_vec();
        w.push(0);
        w.extend_from_slice(&v[4..]);
        v = w;
    }
    v.extend_from_slice(&epoch.to_be_bytes());
    v.extend_from_slice(&n_big(&b(tokens)));
    v
}

fn build_locked(vm: &mut Vm, c: &str, variant: &str, amt: u64) -> Uni {
    let mut bd = Builder::new(vm);
    let plain_wsc = bd.ad("wsc");
    bd.a.insert("wsc_plain".into(), plain_wsc.clone());
    bd.deploy("energy", "owner", "energy");
    bd.deploy("unstake", "owner", "unstake");
    bd.deploy("fees", "owner", "fees");
    bd.deploy("lkmex", "owner", "lkmex");
    let (energy, unstake, fees, lkmex) = (bd.ad("energy"), bd.ad("unstake"), bd.ad("fees"), bd.ad("lkmex"));
    // the "whitelisted contract" role is the contract each target really trusts
    match c {
        "energy" => { bd.a.insert("wsc".into(), unstake.clone()); }
        "unstake" => { bd.a.insert("wsc".into(), energy.clone()); }
        _ => {}
    }
    // energy factory: old factory address := token-unstake (as in the repo's unstake tests)
    let mut args = vec![BASE.to_vec(), LEGACY.to_vec(), a_addr(&unstake), a_u64(0)];
    args.extend(lock_options());
    let _ = bd.ok("owner", "energy", "init", args, &[]);
    if variant != "notoken" {
        bd.store("energy", b"lockedTokenId", LOCKED.to_vec());
    }
    bd.vm.set_roles(&energy, LOCKED, &["ESDTRoleNFTCreate", "ESDTRoleNFTAddQuantity", "ESDTRoleNFTBurn", "ESDTTransferRole"]);
    bd.vm.set_roles(&energy, BASE, &["ESDTRoleLocalMint", "ESDTRoleLocalBurn"]);
    bd.vm.set_roles(&energy, LEGACY, &["ESDTRoleNFTBurn"]);
    bd.vm.set_roles(&unstake, BASE, &["ESDTRoleLocalBurn"]);
    bd.vm.set_roles(&unstake, LOCKED, &["ESDTRoleNFTBurn"]);
    bd.vm.set_roles(&fees, LOCKED, &["ESDTRoleNFTBurn"]);
    // while still paused: every role gets a legacy (old factory) locked position — 40 % unlocking at
    // epoch 1000, 60 % at epoch 1500 — and the matching energy entry (locked-asset/energy-factory/tests/old_tokens_test.rs)
    let mut legacy_attrs = 2u32.to_be_bytes().to_vec();
    for (ep, pct) in [(1000u64, 40_000u64), (1500, 60_000)] {
        legacy_attrs.extend_from_slice(&ep.to_be_bytes());
        legacy_attrs.extend_from_slice(&pct.to_be_bytes());
    }
    legacy_attrs.push(0); // is_merged = false
    let mut old_args = vec![];
    for r in ROLES {
        let x = bd.ad(r);
        bd.vm.set_nft(&x, LEGACY, LEGACY_NONCE, &b(1_000_000), legacy_attrs.clone());
        if !vma(&x).is_smart_contract_address() {
            old_args.extend(vec![a_addr(&x), a_u64(1_000_000), a_u64(1_300_000_000)]);
        }
    }
    let _ = bd.ok("owner", "energy", "setEnergyForOldTokens", old_args, &[]);
    let _ = bd.ok("owner", "energy", "unpause", vec![], &[]);
    let _ = bd.ok("owner", "energy", "setTokenUnstakeAddress", vec![a_addr(&unstake)], &[]);
    let _ = bd.ok("owner", "unstake", "init", vec![a_u64(10), a_addr(&energy), a_u64(5000), a_addr(&fees)], &[]);
    let _ = bd.ok("owner", "fees", "init", vec![LOCKED.to_vec(), a_addr(&energy)], &[]);
    let _ = bd.ok("owner", "fees", "addKnownContracts", vec![a_addr(&unstake), a_addr(&plain_wsc)], &[]);
    let _ = bd.ok("owner", "fees", "addKnownTokens", vec![BASE.to_vec(), FIRST.to_vec()], &[]);
    let _ = bd.ok("owner", "fees", "setLockingScAddress", vec![a_addr(&energy)], &[]);
    let _ = bd.ok("owner", "fees", "setLockEpochs", vec![a_u64(1440)], &[]);
    let _ = bd.ok("owner", "fees", "addSCAddressToWhitelist", vec![a_addr(&plain_wsc)], &[]);
    let _ = bd.ok("owner", "lkmex", "init", vec![a_addr(&energy), LOCKED.to_vec(), a_u64(4), a_u64(6)], &[]);
    let _ = bd.ok("owner", "lkmex", "addAdmin", vec![a_addr(&bd.ad("admin"))], &[]);
    for a in [&fees, &plain_wsc, &unstake] {
        let _ = bd.ok("owner", "energy", "addSCAddressToWhitelist", vec![a_addr(a)], &[]);
    }
    let _ = bd.ok("owner", "energy", "addToTokenTransferWhitelist", vec![a_addr(&lkmex), a_addr(&plain_wsc), a_addr(&unstake)], &[]);
    let big = BigUint::from(10u64).pow(15);
    bd.fund_all(BASE, &big);
    bd.fund_all(FIRST, &big);
    bd.vm.set_esdt(&unstake, BASE, &big);
    bd.vm.set_esdt(&energy, BASE, &big);
    bd.vm.set_esdt(&plain_wsc, BASE, &big);
    bd.vm.set_esdt(&plain_wsc, FIRST, &big);
    if variant != "notoken" {
        bd.vm.set_epoch(1);
        let unit = b(1_000_000 + amt);
        let mut lockers: Vec<String> = ROLES.iter().map(|r| r.to_string()).collect();
        lockers.push("wsc_plain".into());
        lockers.push("unstake".into());
        lockers.dedup();
        for r in lockers.iter() {
            for (k, ep, mult) in [("lk360", 360u64, 1u32), ("lk720", 720, 3), ("lk1440", 1440, 4)] {
                let before = bd.vm.nfts(&bd.ad(r), LOCKED);
                let _ = bd.ok(r, "energy", "lockTokens", vec![a_u64(ep)], &[esdt(BASE, 0, &(&unit * mult))]);
                let after = bd.vm.nfts(&bd.ad(r), LOCKED);
                let n = after.iter().find(|x| !before.contains(x)).map(|x| x.0).expect("no locked token received");
                bd.n.insert(k.to_string(), n);
            }
            let _ = bd.ok(r, "fees", "claimRewards", vec![], &[]);
        }
        let _ = bd.ok("wsc_plain", "fees", "depositSwapFees", vec![], &[esdt(BASE, 0, &b(7_000_000))]);
        bd.vm.set_epoch(2);
        let n1440 = bd.n["lk1440"];
        for r in ROLES {
            let _ = bd.ok(r, "energy", "unlockEarly", vec![], &[esdt(LOCKED, n1440, &unit)]);
        }
        bd.vm.set_epoch(400);
        let n720 = bd.n["lk720"];
        for r in ROLES {
            let me = bd.ad(r);
            let _ = bd.ok(r, "lkmex", "lockFunds", vec![a_addr(&me)], &[esdt(LOCKED, n720, &unit)]);
        }
        // the energy factory itself holds tokens it can "deposit" when it plays the caller role
        let (f, t) = (bd.ad("user"), energy.clone());
        bd.vm.move_esdt(&f, &t, LOCKED, n1440, &unit);
        bd.vm.set_epoch(420);
        bd.n.insert("unit".into(), 1_000_000 + amt);
    }
    bd.n.insert("amt".into(), 1000 + amt % 1000);
    bd.finish(c)
}

fn locked_call(u: &Uni, c: &str, e: &str, role: &str) -> Option<Call> {
    let amt = b(u.num("amt"));
    let me = u.addr(role);
    let lk = |k: &str| -> TxTokenTransfer { esdt(LOCKED, u.num(k), &amt) };
    let energy0 = || n_energy(0, 420, 0);
    match (c, e) {
        ("energy", "lockTokens") => callp(vec![a_u64(360)], vec![esdt(BASE, 0, &amt)]),
        ("energy", "unlockTokens") => callp(vec![], vec![lk("lk360")]),
        ("energy", "migrateOldTokens") => callp(vec![], vec![esdt(LEGACY, LEGACY_NONCE, &amt)]),
        ("energy", "extendLockPeriod") => callp(vec![a_u64(1440), a_addr(me)], vec![lk("lk720")]),
        ("energy", "adjustUserEnergy") => call(vec![a_addr(u.addr("user")), vec![], vec![]]),
        ("energy", "issueLockedToken") => Some(Call { args: vec![b"Locked".to_vec(), b"LOCKED".to_vec(), a_u64(18)], pay: vec![], egld: b(50_000_000) }),
        ("energy", "addLockOptions") => call(vec![a_u64(2880), a_u64(9000)]),
        ("energy", "unlockEarly") => callp(vec![], vec![lk("lk1440")]),
        ("energy", "reduceLockPeriod") => callp(vec![a_u64(720)], vec![lk("lk1440")]),
        ("energy", "setTokenUnstakeAddress") => call(vec![a_addr(u.addr("unstake"))]),
        ("energy", "revertUnstake") => call(vec![a_addr(u.addr("user")), energy0()]),
        ("energy", "setEnergyForOldTokens") => call(vec![a_addr(u.addr("fresh")), vec![], vec![]]),
        ("energy", "updateEnergyAfterOldTokenUnlock") => call(vec![a_addr(u.addr("user")), vec![0, 0, 0, 0], vec![0, 0, 0, 0]]),
        ("energy", "updateEnergyAfterOldTokenUnlock@sc") => call(vec![a_addr(u.addr("fresh_sc")), vec![0, 0, 0, 0], vec![0, 0, 0, 0]]),
        ("energy" | "fees", "pause" | "unpause") => call(vec![]),
        ("energy", "setTransferRoleLockedToken") => call(vec![]),
        ("energy", "setBurnRoleLockedToken") => call(vec![a_addr(u.addr("fresh_sc"))]),
        ("energy", "mergeTokens") => callp(vec![], vec![lk("lk720"), lk("lk1440")]),
        ("energy", "mergeTokens@orig") => callp(vec![a_addr(me)], vec![lk("lk720"), lk("lk1440")]),
        ("energy", "lockVirtual") => call(vec![BASE.to_vec(), a_big(&amt), a_u64(360), a_addr(me), a_addr(me)]),
        ("energy" | "fees", "addSCAddressToWhitelist") => call(vec![a_addr(u.addr("fresh_sc"))]),
        ("energy" | "fees", "removeSCAddressFromWhitelist") => call(vec![a_addr(u.addr("wsc_plain"))]),
        ("energy", "addToTokenTransferWhitelist") => call(vec![a_addr(u.addr("fresh_sc"))]),
        ("energy", "removeFromTokenTransferWhitelist") => call(vec![a_addr(u.addr("wsc_plain"))]),
        ("energy", "setUserEnergyAfterLockedTokenTransfer") => call(vec![a_addr(u.addr("user")), energy0()]),
        ("energy", "getPenaltyAmount") => call(vec![a_u64(1000), a_u64(720), a_u64(360)]),
        ("unstake", "claimUnlockedTokens" | "cancelUnbond") => call(vec![]),
        ("unstake", "depositUserTokens") => callp(vec![a_addr(u.addr("user"))], vec![lk("lk1440"), esdt(BASE, 0, &amt)]),
        ("unstake", "depositFees") => callp(vec![], vec![lk("lk1440")]),
        ("unstake", "setFeesBurnPercentage") => call(vec![a_u64(4000)]),
        ("unstake" | "fees" | "lkmex", "setEnergyFactoryAddress") | ("fees", "setLockingScAddress") => call(vec![a_addr(u.addr("energy"))]),
        ("fees", "claimRewards" | "claimBoostedRewards") => call(vec![]),
        ("fees", "claimRewards@orig") => call(vec![a_addr(u.addr("user"))]),
        ("fees", "claimBoostedRewards@other") => call(vec![a_addr(u.addr(if role == "user" { "agent" } else { "user" }))]),
        ("fees", "addKnownContracts") => call(vec![a_addr(u.addr("fresh_sc"))]),
        ("fees", "removeKnownContracts") => call(vec![a_addr(u.addr("wsc_plain"))]),
        ("fees", "addKnownTokens") => call(vec![THIRD.to_vec()]),
        ("fees", "removeKnownTokens") => call(vec![FIRST.to_vec()]),
        ("fees", "updateEnergyForUser") => call(vec![a_addr(u.addr("fresh"))]),
        ("fees", "depositSwapFees") => callp(vec![], vec![esdt(BASE, 0, &amt)]),
        ("fees", "setLockedTokensPerBlock") => call(vec![a_u64(1)]),
        ("fees", "setLockEpochs") => call(vec![a_u64(720)]),
        ("fees", "getAccumulatedFees") => call(vec![a_u64(1), BASE.to_vec()]),
        ("lkmex", "withdraw") => call(vec![a_addr(me)]),
        ("lkmex", "cancelTransfer") => call(vec![a_addr(u.addr("user")), a_addr(u.addr("user"))]),
        ("lkmex", "lockFunds") => callp(vec![a_addr(u.addr("fresh"))], vec![lk("lk720")]),
        ("lkmex", "addAdmin") => call(vec![a_addr(u.addr("fresh"))]),
        ("lkmex", "removeAdmin") => call(vec![a_addr(u.addr("admin"))]),
        ("lkmex", "updateOwnerOrAdmin") => call(vec![a_addr(u.addr("admin"))]),
        _ => None,
    }
}

// ---------------------------------------------------------------------------------------
// permissions hub (contract under test)
// ---------------------------------------------------------------------------------------
fn build_hub(vm: &mut Vm) -> Uni {
    let mut bd = Builder::new(vm);
    hub_setup(&mut bd);
    for r in ROLES {
        let _ = bd.ok(r, "hub", "whitelist", vec![a_addr(&bd.ad("fresh2"))], &[]);
    }
    bd.finish("hub")
}

fn hub_call(u: &Uni, e: &str, role: &str) -> Option<Call> {
    match e {
        "whitelist" => call(vec![a_addr(u.addr("fresh"))]),
        "removeWhitelist" => call(vec![a_addr(u.addr("fresh2"))]),
        "blacklist" => call(vec![a_addr(u.addr("fresh"))]),
        "removeBlacklist" => call(vec![a_addr(u.addr("blacklisted"))]),
        "isWhitelisted" => call(vec![a_addr(u.addr("user")), a_addr(u.addr(role))]),
        _ => None,
    }
}

// ---------------------------------------------------------------------------------------
// router (+ pair template, three pairs created through the real `createPair`, simple-lock)
// ---------------------------------------------------------------------------------------
const FOURTH: &[u8] = b"FOURTH-abcdef";
const LP3: &[u8] = b"LPTHREE-abcdef";
const LKLP: &[u8] = b"LKLP-abcdef";

fn addr_from_result(r: &TxResult) -> Address {
    let v = r.result_values.first().expect("no result value");
    Address::from_slice(v.as_slice())
}

fn build_router(vm: &mut Vm, variant: &str, amt: u64) -> Uni {
    let mut bd = Builder::new(vm);
    bd.vm.set_epoch(5);
    bd.deploy("router", "owner", "router");
    bd.deploy("template", "owner", "pair");
    bd.deploy("lock", "owner", "simplelock");
    let (router, lock) = (bd.ad("router"), bd.ad("lock"));
    let _ = bd.ok("owner", "lock", "init", vec![], &[]);
    bd.store("lock", b"lockedTokenId", LKLP.to_vec());
    bd.vm.set_roles(&lock, LKLP, &["ESDTRoleNFTCreate", "ESDTRoleNFTAddQuantity", "ESDTRoleNFTBurn"]);
    let _ = bd.ok("owner", "router", "init", vec![a_addr(&bd.ad("template"))], &[]);
    let big = BigUint::from(10u64).pow(15);
    for t in [FIRST, SECOND, THIRD, FOURTH] {
        bd.fund_all(t, &big);
    }
    let zero = Address::zero();
    // pair1: FIRST/SECOND, active, with liquidity
    let r = bd.ok("owner", "router", "createPair", vec![FIRST.to_vec(), SECOND.to_vec(), a_addr(&zero), a_u64(300), a_u64(50)], &[]);
    let pair1 = addr_from_result(&r);
    bd.a.insert("pair1".into(), pair1.clone());
    let _ = bd.ok("owner", "pair1", "setLpTokenIdentifier", vec![LP.to_vec()], &[]);
    bd.vm.set_roles(&pair1, LP, &["ESDTRoleLocalMint", "ESDTRoleLocalBurn"]);
    let _ = bd.ok("owner", "router", "resume", vec![a_addr(&pair1)], &[]);
    let _ = bd.ok("user", "pair1", "addLiquidity", vec![a_u64(1), a_u64(1)], &[esdt(FIRST, 0, &b(1_000_000 + amt)), esdt(SECOND, 0, &b(2_000_000))]);
    let _ = bd.ok("owner", "router", "setFeeOn", vec![a_addr(&pair1), a_addr(&bd.ad("fresh2")), FIRST.to_vec()], &[]);
    // pair2: FIRST/THIRD, no LP token yet
    let r = bd.ok("owner", "router", "createPair", vec![FIRST.to_vec(), THIRD.to_vec(), a_addr(&zero), a_u64(300), a_u64(50)], &[]);
    bd.a.insert("pair2".into(), addr_from_result(&r));
    // pair3: THIRD/SECOND with `user` as initial liquidity adder, left PartialActive
    let r = bd.ok("owner", "router", "createPair", vec![THIRD.to_vec(), SECOND.to_vec(), a_addr(&bd.ad("user")), a_u64(300), a_u64(50)], &[]);
    let pair3 = addr_from_result(&r);
    bd.a.insert("pair3".into(), pair3.clone());
    let _ = bd.ok("owner", "pair3", "setLpTokenIdentifier", vec![LP3.to_vec()], &[]);
    bd.vm.set_roles(&pair3, LP3, &["ESDTRoleLocalMint", "ESDTRoleLocalBurn"]);
    let _ = bd.ok("user", "pair3", "addInitialLiquidity", vec![], &[esdt(THIRD, 0, &b(50_000_000)), esdt(SECOND, 0, &b(50_000_000))]);
    let lp3 = bd.vm.bal(&bd.ad("user"), LP3, 0);
    let _ = bd.ok("user", "lock", "lockTokens", vec![a_u64(105)], &[esdt(LP3, 0, &lp3)]);
    let n = last_nonce(&bd, "user", LKLP);
    bd.n.insert("lklp".into(), n);
    let share = &lp3 / 20u32;
    for r in ROLES {
        if r != "user" {
            let (f, t) = (bd.ad("user"), bd.ad(r));
            bd.vm.move_esdt(&f, &t, LKLP, n, &share);
        }
    }
    bd.n.insert("lklp_amt".into(), share.to_u64_digits().first().copied().unwrap_or(0));
    let _ = bd.ok("owner", "router", "addCommonTokensForUserPairs", vec![SECOND.to_vec()], &[]);
    let _ = bd.ok("owner", "router", "configEnableByUserParameters", vec![SECOND.to_vec(), LKLP.to_vec(), a_u64(1), a_u64(10)], &[]);
    if variant == "enabled" {
        let _ = bd.ok("owner", "router", "setPairCreationEnabled", vec![a_bool(true)], &[]);
        let _ = bd.ok("owner", "router", "clearPairTemporaryOwnerStorage", vec![], &[]);
    }
    bd.vm.set_nonce(10);
    let _ = router;
    bd.n.insert("amt".into(), 1000 + amt % 1000);
    bd.finish("router")
}

fn router_call(u: &Uni, e: &str, _role: &str) -> Option<Call> {
    let amt = b(u.num("amt"));
    let p1 = a_addr(u.addr("pair1"));
    match e {
        "pause" | "resume" | "setLocalRoles" => call(vec![p1]),
        "createPair" | "createPair@enabled" => call(vec![FIRST.to_vec(), FOURTH.to_vec(), a_addr(&Address::zero()), a_u64(300), a_u64(50)]),
        "upgradePair" => call(vec![FIRST.to_vec(), SECOND.to_vec()]),
        "issueLpToken" | "issueLpToken@enabled" => Some(Call { args: vec![a_addr(u.addr("pair2")), b"LpToken".to_vec(), b"LPT".to_vec()], pay: vec![], egld: b(50_000_000) }),
        "removePair" => call(vec![FIRST.to_vec(), THIRD.to_vec()]),
        "setFeeOn" => call(vec![p1, a_addr(u.addr("fresh")), SECOND.to_vec()]),
        "setFeeOff" => call(vec![p1, a_addr(u.addr("fresh2")), FIRST.to_vec()]),
        "setPairCreationEnabled" => call(vec![a_bool(true)]),
        "setTemporaryOwnerPeriod" => call(vec![a_u64(10)]),
        "setPairTemplateAddress" => call(vec![a_addr(u.addr("template"))]),
        "clearPairTemporaryOwnerStorage" => call(vec![]),
        "multiPairSwap" => callp(vec![p1, b"swapTokensFixedInput".to_vec(), SECOND.to_vec(), a_u64(1)], vec![esdt(FIRST, 0, &amt)]),
        "configEnableByUserParameters" => call(vec![SECOND.to_vec(), LKLP.to_vec(), a_u64(2), a_u64(10)]),
        "addCommonTokensForUserPairs" => call(vec![THIRD.to_vec()]),
        "removeCommonTokensForUserPairs" => call(vec![SECOND.to_vec()]),
        "setSwapEnabledByUser" => callp(vec![a_addr(u.addr("pair3"))], vec![esdt(LKLP, u.num("lklp"), &b(u.num("lklp_amt")))]),
        "getPair" => call(vec![FIRST.to_vec(), SECOND.to_vec()]),
        "getEnableSwapByUserConfig" => call(vec![SECOND.to_vec()]),
        _ => None,
    }
}

// =======================================================================================
// the world
// =======================================================================================
#[derive(Clone, Copy, PartialEq, Eq, Debug)]
enum Class {
    Config,       // configuration / admin: needs a privileged role
    UserFunds,    // user operation moving funds: Active only
    PairLiquidity,// pair add/remove liquidity: Active or PartialActive
    OnBehalfHub,  // hub authorisation of the caller by the position owner
    OnBehalfSc,   // original caller supplied: whitelisted SC only
    ContractOnly, // contract-to-contract trust list
    Bootstrap,    // addInitialLiquidity
    View,
    Open,         // callable by anyone, moves no user funds (energy refresh, safe price update)
    Never,        // not callable by any external role (self / other contract only)
}

/// pair endpoints that trade against the pool (as opposed to adding / removing liquidity)
fn bn_is_swap(bn: &str) -> bool {
    matches!(bn, "swapTokensFixedInput" | "swapTokensFixedOutput" | "swapNoFeeAndForward")
}

fn base_name(e: &str) -> &str {
    e.split('@').next().unwrap()
}

/// Rust-side classification used ONLY by the oracle (independent of the Lean table):
/// default from the ABI flags, explicit list for the rest.
fn class_of(abi: &ContractAbi, c: &str, e: &str) -> Class {
    use Class::*;
    if e.contains("@orig") {
        return OnBehalfSc;
    }
    let bn = base_name(e);
    let ep = abi.endpoints.iter().find(|x| x.name == bn);
    let explicit = match (c, bn) {
        (_, "calculateRewardsForGivenPosition") => Some(Never),
        ("pair", "addInitialLiquidity") => Some(Bootstrap),
        ("pair", "addLiquidity" | "removeLiquidity") => Some(PairLiquidity),
        ("pair", "swapTokensFixedInput" | "swapTokensFixedOutput") => Some(UserFunds),
        ("pair", "removeLiquidityAndBuyBackAndBurnToken" | "swapNoFeeAndForward") => Some(ContractOnly),
        ("pair", "updateAndGetTokensForGivenPositionWithSafePrice" | "updateAndGetSafePrice") => Some(View),
        (_, "claimBoostedRewards") if e.contains("@other") => Some(Never),
        ("farm" | "fwlr" | "staking", "enterFarm" | "claimRewards" | "compoundRewards" | "exitFarm" | "mergeFarmTokens" | "claimBoostedRewards"
            | "stakeFarm" | "unstakeFarm" | "unbondFarm") => Some(UserFunds),
        ("farm" | "fwlr" | "staking", "enterFarmOnBehalf" | "claimRewardsOnBehalf" | "stakeFarmOnBehalf") => Some(OnBehalfHub),
        ("staking", "stakeFarmThroughProxy" | "claimRewardsWithNewValue" | "unstakeFarmThroughProxy") => Some(ContractOnly),
        ("farm" | "fwlr" | "staking" | "fees", "updateEnergyForUser") => Some(Open),
        ("energy", "updateEnergyAfterOldTokenUnlock") if e.contains("@sc") => Some(Open),
        ("energy", "lockTokens" | "unlockTokens" | "unlockEarly" | "reduceLockPeriod" | "mergeTokens" | "migrateOldTokens") => Some(UserFunds),
        ("energy", "extendLockPeriod" | "revertUnstake" | "updateEnergyAfterOldTokenUnlock" | "lockVirtual" | "setUserEnergyAfterLockedTokenTransfer") => Some(ContractOnly),
        ("fees", "claimRewards" | "claimBoostedRewards") => Some(UserFunds),
        ("fees", "depositSwapFees") => Some(ContractOnly),
        ("unstake", "depositUserTokens" | "depositFees") => Some(ContractOnly),
        ("unstake", "claimUnlockedTokens" | "cancelUnbond") => Some(Open),
        ("lkmex", "withdraw" | "lockFunds") => Some(Open),
        ("hub", "whitelist" | "removeWhitelist") => Some(Open),
        ("router", "createPair" | "issueLpToken") if e.contains("@enabled") => Some(Open),
        ("router", "setLocalRoles") => Some(Open),
        ("router", "multiPairSwap") => Some(UserFunds),
        ("router", "setSwapEnabledByUser") => Some(Bootstrap),
        _ => None,
    };
    if let Some(k) = explicit {
        return k;
    }
    match ep {
        Some(x) if is_readonly(x) => View,
        _ => Config,
    }
}

fn variant_of(c: &str, e: &str) -> &'static str {
    match (c, e) {
        ("pair", "addInitialLiquidity") => "fresh",
        ("pair", "addInitialLiquidity@adder") => "adder",
        ("pair", "setLpTokenIdentifier") => "nolp",
        ("farm", "compoundRewards" | "compoundRewards@orig") => "same",
        ("farm" | "fwlr" | "staking", "registerFarmToken") => "notoken",
        ("energy", "issueLockedToken") => "notoken",
        ("router", "createPair@enabled" | "issueLpToken@enabled") => "enabled",
        ("farm" | "fwlr" | "staking", "collectUndistributedBoostedRewards") => "late",
        _ => "std",
    }
}

/// endpoint variants exercised in addition to the plain ABI endpoints
const VARIANTS: [(&str, &str); 22] = [
    ("pair", "addInitialLiquidity@adder"),
    ("farm", "enterFarm@orig"), ("farm", "claimRewards@orig"), ("farm", "compoundRewards@orig"), ("farm", "exitFarm@orig"),
    ("farm", "mergeFarmTokens@orig"), ("farm", "claimBoostedRewards@other"),
    ("fwlr", "enterFarm@orig"), ("fwlr", "claimRewards@orig"), ("fwlr", "exitFarm@orig"), ("fwlr", "mergeFarmTokens@orig"),
    ("fwlr", "claimBoostedRewards@other"),
    ("router", "createPair@enabled"), ("router", "issueLpToken@enabled"),
    ("energy", "mergeTokens@orig"), ("energy", "updateEnergyAfterOldTokenUnlock@sc"),
    ("fees", "claimRewards@orig"), ("fees", "claimBoostedRewards@other"),
    ("staking", "stakeFarm@orig"), ("staking", "claimRewards@orig"), ("staking", "unstakeFarm@orig"), ("staking", "claimBoostedRewards@other"),
];

struct World {
    vm: Vm,
    amt: u64,
    live: Option<Uni>, // state-machine histories run on ONE evolving deployment
    bases: HashMap<String, Uni>,
    unis: HashMap<String, Uni>,
    abis: BTreeMap<&'static str, ContractAbi>,
}

impl World {
    fn new(header: &str) -> Self {
        let mut vm = Vm::new();
        register_all(&mut vm);
        let mut abis = BTreeMap::new();
        for c in CONTRACTS {
            abis.insert(c, abi_of(c));
        }
        World { vm, amt: kv_u64(header, "amt", 0), live: None, bases: HashMap::new(), unis: HashMap::new(), abis }
    }

    fn base(&mut self, c: &str, variant: &str) -> Uni {
        let key = format!("{c}/{variant}");
        if let Some(u) = self.bases.get(&key) {
            return u.clone();
        }
        let u = match c {
            "pair" => build_pair(&mut self.vm, variant, self.amt),
            "farm" | "fwlr" => build_farm(&mut self.vm, c, variant, self.amt),
            "staking" => build_staking(&mut self.vm, variant, self.amt),
            "energy" | "unstake" | "fees" | "lkmex" => build_locked(&mut self.vm, c, variant, self.amt),
            "hub" => build_hub(&mut self.vm),
            "router" => build_router(&mut self.vm, variant, self.amt),
            _ => panic!("no universe for {c}"),
        };
        self.bases.insert(key, u.clone());
        u
    }

    fn uni(&mut self, c: &str, variant: &str, state: &str) -> Uni {
        let key = format!("{c}/{variant}/{state}");
        if let Some(u) = self.unis.get(&key) {
            return u.clone();
        }
        let mut u = self.base(c, variant);
        // the kill switch is written directly into the contract's storage
        let (k, v): (&[u8], Vec<u8>) = match (c, state) {
            ("pair" | "farm" | "fwlr" | "staking", "inactive") => (b"state", vec![]),
            ("pair" | "farm" | "fwlr" | "staking", "active") => (b"state", vec![1]),
            ("pair" | "farm" | "fwlr" | "staking", "partial") => (b"state", vec![2]),
            ("router", "inactive") => (b"state", vec![]),
            ("router", "active") => (b"state", vec![1]),
            ("energy" | "fees", "inactive") => (b"pause_module:paused", vec![1]),
            ("energy" | "fees", "active") => (b"pause_module:paused", vec![]),
            _ => (b"", vec![]),
        };
        if !k.is_empty() {
            let acc = u.snap.accounts.get_mut(&vma(&u.sc)).unwrap();
            if v.is_empty() {
                acc.storage.remove(k);
            } else {
                acc.storage.insert(k.to_vec(), v);
            }
        }
        self.unis.insert(key, u.clone());
        u
    }

    fn build_call(&self, u: &Uni, c: &str, e: &str, role: &str) -> Option<Call> {
        let specific = match c {
            "pair" => pair_call(u, e, role),
            "farm" | "fwlr" => farm_call(u, c, e, role, variant_of(c, e) == "same"),
            "staking" => staking_call(u, e, role),
            "energy" | "unstake" | "fees" | "lkmex" => locked_call(u, c, e, role),
            "hub" => hub_call(u, e, role),
            "router" => router_call(u, e, role),
            _ => None,
        };
        if specific.is_some() {
            return specific;
        }
        if let Some(x) = self.typed_args(u, c, e, role) {
            return call(x);
        }
        // endpoints without inputs need nothing
        let ep = self.abis[c].endpoints.iter().find(|x| x.name == base_name(e))?;
        if ep.inputs.is_empty() && ep.payable_in_tokens.is_empty() {
            return call(vec![]);
        }
        None
    }

    /// arguments of a non-payable endpoint whose inputs are all of simple types (mostly views)
    fn typed_args(&self, u: &Uni, c: &str, e: &str, role: &str) -> Option<Vec<Vec<u8>>> {
        let ep = self.abis[c].endpoints.iter().find(|x| x.name == base_name(e))?;
        if !is_readonly(ep) {
            return None;
        }
        let mut args = vec![];
        for i in ep.inputs.iter() {
            args.push(match i.type_names.abi.as_str() {
                "Address" => a_addr(u.addr(if c == "hub" || c == "lkmex" { role } else { "user" })),
                "u32" | "u64" | "usize" => a_u64(1),
                "BigUint" => a_u64(1000),
                _ => return None,
            });
        }
        Some(args)
    }

    /// best-effort arguments for a call that must be REJECTED before they matter
    fn default_call(&self, u: &Uni, c: &str, e: &str) -> Call {
        let ep = self.abis[c].endpoints.iter().find(|x| x.name == base_name(e)).unwrap();
        let mut args = vec![];
        for i in ep.inputs.iter() {
            let t = i.type_names.abi.as_str();
            if t.starts_with("optional<") || t.starts_with("variadic<") {
                continue;
            }
            args.push(match t {
                "Address" => a_addr(u.addr("fresh")),
                "TokenIdentifier" => FIRST.to_vec(),
                "bool" => vec![1],
                "bytes" => b"x".to_vec(),
                _ => vec![1],
            });
        }
        Call { args, pay: vec![], egld: BigUint::zero() }
    }

    fn exec(&mut self, tr: &mut Trace, text: &str) {
        let n = tr.op(text);
        let w: Vec<&str> = text.split_whitespace().collect();
        if w[0] == "sm" {
            self.exec_sm(tr, n, &w);
            return;
        }
        if w[0] == "abi" {
            // inventory line: what the freshly compiled contract exports (flags from its ABI);
            // the model must have the endpoint classified with matching flags
            let (c, e) = (w[1], w[2]);
            let ep = self.abis[c].endpoints.iter().find(|x| x.name == e);
            tr.count("abi.endpoint");
            match ep {
                Some(x) if w[3] == format!("owner={}", x.only_owner as u8) && w[4] == format!("ro={}", is_readonly(x) as u8) => {
                    tr.res_ok(n, &format!("abi {c}.{e}"), &format!("{} {}", w[3], w[4]))
                }
                _ => tr.res_err(n), // the ops file no longer matches the compiled contract
            }
            return;
        }
        let (kind, c, e, role, state) = (w[0], w[1], w[2], w[3], w[4]);
        let key = format!("{c}.{e}.{role}.{state}");
        let class = class_of(&self.abis[c], c, e);
        tr.count(&format!("class.{:?}", class));
        if kind == "nocall" {
            tr.count("cell.unconstructible");
            tr.count(&format!("unconstructible.{c}.{e}"));
            tr.res_ok(n, "nocall", "-");
            return;
        }
        let u = self.uni(c, variant_of(c, e), state);
        self.vm.restore(&u.snap);
        let cl = match self.build_call(&u, c, e, role) {
            Some(cl) if kind == "cell" => cl,
            _ => self.default_call(&u, c, e),
        };
        let pre = digest(self.vm.state());
        let from = u.addr(role).clone();
        let res = self.vm.call(&from, &u.sc, base_name(e), cl.args.clone(), &cl.pay, &cl.egld);
        let ok = res.result_status == 0;
        let post = digest(self.vm.state());
        tr.count(&format!("cell.{}", if ok { "ok" } else { "err" }));
        tr.count(&format!("{c}.{}", if ok { "ok" } else { "err" }));
        if std::env::var("VERIF_VERBOSE").is_ok() && ok && class == Class::UserFunds {
            eprintln!("{key}: ok {}", deltas(&u.snap, self.vm.state(), &from));
        }
        if std::env::var("VERIF_VERBOSE").is_ok() && !ok {
            eprintln!("{key}: {} {}", res.result_status, res.result_message);
        }
        // ---------------- oracles: C19's rules evaluated directly on the real outcome ----
        let privileged = matches!(role, "owner" | "admin" | "pauser" | "router");
        if !ok && pre != post {
            tr.fail("C19", "rejected_call_changes_state", e, &format!("{key}: chain state differs after a failed call"));
        }
        if ok {
            match class {
                Class::Config if !privileged => {
                    tr.fail("C19", "admin_needs_role", e, &format!("{key}: configuration endpoint succeeded for an unprivileged caller"))
                }
                Class::UserFunds if state != "active" => {
                    let d = deltas(&u.snap, self.vm.state(), &from);
                    tr.fail("C19", "paused_blocks_funds", base_name(e), &format!("{key}: fund-moving user endpoint succeeded while the contract is {state}; caller balances: {d}"))
                }
                Class::PairLiquidity if state == "inactive" => {
                    tr.fail("C19", "paused_blocks_funds", e, &format!("{key}: liquidity operation succeeded on an inactive pair"))
                }
                Class::Bootstrap if c == "pair" && state != "inactive" => {
                    tr.fail("C19", "bootstrap_only_inactive", e, &format!("{key}: initial liquidity accepted on a non-inactive pair"))
                }
                Class::OnBehalfHub | Class::OnBehalfSc if state != "active" => {
                    let d = deltas(&u.snap, self.vm.state(), &from);
                    tr.fail("C19", "paused_blocks_funds", base_name(e), &format!("{key}: on-behalf endpoint succeeded while the contract is {state}; caller balances: {d}"))
                }
                Class::OnBehalfHub if role != "agent" => {
                    tr.fail("C19", "on_behalf_rules", e, &format!("{key}: on-behalf call accepted without a valid hub authorisation"))
                }
                Class::OnBehalfSc | Class::ContractOnly if role != "wsc" => {
                    tr.fail("C19", "on_behalf_rules", e, &format!("{key}: contract-only call accepted from a non-whitelisted caller"))
                }
                Class::View if pre != post => {
                    tr.fail("C19", "view_changes_state", e, &format!("{key}: a view changed the chain state"))
                }
                Class::Never => tr.fail("C19", "never_callable", e, &format!("{key}: endpoint reserved to the contract itself succeeded")),
                _ => {}
            }
            if c == "pair" && state == "partial" && class == Class::UserFunds {
                tr.fail("C19", "partial_pair_liquidity_only", e, &format!("{key}: swap succeeded on a partially active pair"));
            }
            // the contract-to-contract swap (fee forwarding by a whitelisted pair) is still a swap: it moves the pool's
            // reserves, so a partially active pair must refuse it and a paused pair must refuse it
            if c == "pair" && bn_is_swap(base_name(e)) && class == Class::ContractOnly && state != "active" {
                let clause = if state == "partial" { "partial_pair_liquidity_only" } else { "paused_blocks_funds" };
                tr.fail("C19", clause, e, &format!("{key}: whitelisted-contract swap succeeded while the pair is {state}"));
            }
        }
        if ok {
            // who received the rewards of an on-behalf claim?
            let mut payee = "-".to_string();
            if class == Class::OnBehalfHub && base_name(e) == "claimRewardsOnBehalf" {
                let rew: &[u8] = if c == "staking" { FARMING } else if c == "fwlr" { LOCKED } else { REW };
                let total = |st: &BlockchainState, a: &Address| -> BigUint {
                    st.accounts.get(&vma(a)).and_then(|x| x.esdt.get_by_identifier(rew))
                        .map(|d| d.instances.get_instances().values().map(|i| i.balance.clone()).sum()).unwrap_or_default()
                };
                let (caller, owner) = (u.addr(role).clone(), u.addr("user").clone());
                let d_caller = total(self.vm.state(), &caller) > total(&u.snap, &caller);
                let d_owner = total(self.vm.state(), &owner) > total(&u.snap, &owner);
                payee = match (d_caller, d_owner) {
                    (false, true) => "rew=owner".into(),
                    (true, false) => "rew=caller".into(),
                    (true, true) => "rew=both".into(),
                    (false, false) => "rew=none".into(),
                };
                if payee != "rew=owner" {
                    tr.fail("C19", "on_behalf_rules", e, &format!("{key}: rewards of an on-behalf claim went to {payee}, not to the position owner"));
                }
                tr.count("branch.on_behalf_rewards_to_owner");
            }
            tr.res_ok(n, &key, &payee);
        } else {
            tr.res_err(n);
        }
    }
}

// ---------------------------------------------------------------------------------------
// state-machine histories: the permission bit-set / pausable / sc-whitelist / hub endpoints
// applied in random order by random callers on ONE evolving deployment; after every op the
// complete observable access state is printed (model: PermSt / PauseSt / WlSt / HubSt .step)
// ---------------------------------------------------------------------------------------
impl World {
    fn view_bytes(&mut self, to: &Address, func: &str, args: Vec<Vec<u8>>) -> Vec<u8> {
        let from = self.live.as_ref().unwrap().addr("fresh").clone();
        let r = self.vm.call(&from, to, func, args, &[], &BigUint::zero());
        assert!(r.result_status == 0, "view {func} failed: {}", r.result_message);
        r.result_values.first().cloned().unwrap_or_default()
    }

    fn exec_sm(&mut self, tr: &mut Trace, n: u64, w: &[&str]) {
        // sm perm <c> <op> <caller> [<target>] | sm wl <c> <op> <caller> <target> | sm hub <op> <caller> <target>
        let kind = w[1];
        let c = if kind == "hub" { "hub" } else { w[2] };
        if self.live.is_none() {
            let u = self.uni(c, "std", "active");
            self.vm.restore(&u.snap);
            self.live = Some(u);
        }
        let u = self.live.clone().unwrap();
        let rest: Vec<&str> = if kind == "hub" { w[2..].to_vec() } else { w[3..].to_vec() };
        let (opn, caller) = (rest[0], rest[1]);
        let target = rest.get(2).copied().unwrap_or("user");
        tr.count(&format!("sm.{kind}.{opn}"));
        let from = u.addr(caller).clone();
        let t = a_addr(u.addr(target));
        let (func, args): (&str, Vec<Vec<u8>>) = match (kind, opn) {
            ("perm", "addAdmin") => ("addAdmin", vec![t]),
            ("perm", "removeAdmin") => ("removeAdmin", vec![t]),
            ("perm", "addPause") => ("addToPauseWhitelist", vec![t]),
            ("perm", "removePause") => ("removeFromPauseWhitelist", vec![t]),
            ("perm", "updateOwnerOrAdmin") => ("updateOwnerOrAdmin", vec![t]),
            ("perm", "pause") => ("pause", vec![]),
            ("perm", "resume") => ("resume", vec![]),
            ("perm", "noswaps") => ("setStateActiveNoSwaps", vec![]),
            ("wl", "add") => ("addSCAddressToWhitelist", vec![t]),
            ("wl", "remove") => ("removeSCAddressFromWhitelist", vec![t]),
            ("hub", "whitelist") => ("whitelist", vec![t]),
            ("hub", "removeWhitelist") => ("removeWhitelist", vec![t]),
            ("hub", "blacklist") => ("blacklist", vec![t]),
            ("hub", "removeBlacklist") => ("removeBlacklist", vec![t]),
            _ => panic!("unknown sm op {kind} {opn}"),
        };
        let pre = digest(self.vm.state());
        let res = self.vm.call(&from, &u.sc, func, args, &[], &BigUint::zero());
        let ok = res.result_status == 0;
        if !ok {
            if pre != digest(self.vm.state()) {
                tr.fail("C19", "rejected_call_changes_state", func, "chain state differs after a failed call");
            }
            tr.count("sm.err");
            tr.res_err(n);
            return;
        }
        tr.count("sm.ok");
        tr.count(&format!("sm.ok.{kind}.{opn}"));
        let sc = u.sc.clone();
        let line = match kind {
            "perm" => {
                let mut parts = vec![];
                for r in ROLES {
                    let v = self.view_bytes(&sc, "getPermissions", vec![a_addr(u.addr(r))]);
                    let bits = v.iter().fold(0u64, |a, x| a * 256 + *x as u64);
                    parts.push(format!("{}{}{}", bits & 1, (bits >> 1) & 1, (bits >> 2) & 1));
                }
                let stn = if c == "lkmex" {
                    "active" // no pausable module
                } else {
                    let st = self.view_bytes(&sc, "getState", vec![]);
                    match st.first().copied().unwrap_or(0) { 0 => "inactive", 1 => "active", _ => "partial" }
                };
                format!("perms={} st={}", parts.join(","), stn)
            }
            "wl" => {
                let mut parts = vec![];
                for r in ROLES {
                    let v = self.view_bytes(&sc, "isSCAddressWhitelisted", vec![a_addr(u.addr(r))]);
                    parts.push(if v.is_empty() { "0" } else { "1" });
                }
                format!("wl={}", parts.join(""))
            }
            _ => {
                let mut rows = vec![];
                for usr in ["user", "agent", "owner"] {
                    let mut row = String::new();
                    for r in ROLES {
                        let v = self.view_bytes(&sc, "isWhitelisted", vec![a_addr(u.addr(usr)), a_addr(u.addr(r))]);
                        row += if v.is_empty() { "0" } else { "1" };
                    }
                    rows.push(row);
                }
                format!("auth={}", rows.join(","))
            }
        };
        // oracle: C19's own reading of these modules, on the real outcome
        let callers_ok = match (kind, opn) {
            ("perm", "pause" | "resume") | ("hub", "whitelist" | "removeWhitelist") => true,
            _ => matches!(caller, "owner" | "router" | "admin" | "pauser"),
        };
        if !callers_ok {
            tr.fail("C19", "admin_needs_role", func, &format!("{func} succeeded for unprivileged caller {caller}"));
        }
        // the EFFECT of a successful grant / revocation, read back from the real contract: a role that was taken away is
        // gone (a revoked pauser / admin / whitelisted contract / hub agent can no longer act), a role that was given is there
        match (kind, opn) {
            ("perm", "addAdmin" | "removeAdmin" | "addPause" | "removePause") => {
                let v = self.view_bytes(&sc, "getPermissions", vec![a_addr(u.addr(target))]);
                let bits = v.iter().fold(0u64, |a, x| a * 256 + *x as u64);
                let (mask, want) = match opn { "addAdmin" => (2, true), "removeAdmin" => (2, false), "addPause" => (4, true), _ => (4, false) };
                if ((bits & mask) != 0) != want {
                    tr.fail("C19", "role_change_effective", func, &format!("after a successful {func}({target}) the permission bits of {target} are {bits:03b}"));
                }
            }
            ("wl", "add" | "remove") => {
                let v = self.view_bytes(&sc, "isSCAddressWhitelisted", vec![a_addr(u.addr(target))]);
                if v.is_empty() == (opn == "add") {
                    tr.fail("C19", "role_change_effective", func, &format!("after a successful {func}({target}) isSCAddressWhitelisted = {}", !v.is_empty()));
                }
            }
            ("hub", "removeWhitelist" | "blacklist") => {
                let owner_of_list = if opn == "removeWhitelist" { caller } else { "user" };
                let v = self.view_bytes(&sc, "isWhitelisted", vec![a_addr(u.addr(owner_of_list)), a_addr(u.addr(target))]);
                if !v.is_empty() {
                    tr.fail("C19", "role_change_effective", func, &format!("after a successful {func}({target}) the hub still reports {target} as authorised by {owner_of_list}"));
                }
            }
            _ => {}
        }
        tr.res_ok(n, "sm", &line);
    }
}

fn gen_sm(a: &Args, tr: &mut Trace, rng: &mut Rng) {
    for h in 0..a.hist {
        let kinds = ["perm", "perm", "hub", "wl"];
        let kind = kinds[(h % 4) as usize];
        let c = match kind {
            "perm" => *rng.pick(&["pair", "farm", "fwlr", "staking", "lkmex"]),
            "wl" => *rng.pick(&["farm", "fwlr", "staking", "energy", "fees"]),
            _ => "hub",
        };
        let header = format!("contract={c} sm={kind} amt=0");
        tr.world(&format!("access {header}"));
        let mut w = World::new(&header);
        let roles = roles_of(if kind == "perm" && c == "pair" { "pair" } else { "farm" });
        for _ in 0..a.len {
            // callers: mostly somebody who can succeed, often somebody who cannot
            let sc_owner = if c == "pair" { "router" } else { "owner" };
            let caller = if rng.chance(13, 20) { *rng.pick(&["owner", "owner", sc_owner, "pauser"]) } else { *rng.pick(roles) };
            let target = *rng.pick(roles);
            let text = match kind {
                "perm" => {
                    let ops: &[&str] = if c == "pair" {
                        &["addAdmin", "removeAdmin", "addPause", "removePause", "updateOwnerOrAdmin", "pause", "resume", "noswaps"]
                    } else if c == "lkmex" {
                        &["addAdmin", "removeAdmin", "updateOwnerOrAdmin"]
                    } else {
                        &["addAdmin", "removeAdmin", "addPause", "removePause", "updateOwnerOrAdmin", "pause", "resume"]
                    };
                    let mut o = *rng.pick(ops);
                    if o == "updateOwnerOrAdmin" && !rng.chance(1, 4) {
                        o = *rng.pick(&["addAdmin", "removeAdmin"]); // it usually wipes the OWNER bit: keep it rare
                    }
                    if matches!(o, "pause" | "resume" | "noswaps") { format!("sm perm {c} {o} {caller}") } else { format!("sm perm {c} {o} {caller} {target}") }
                }
                "wl" => format!("sm wl {c} {} {caller} {target}", rng.pick(&["add", "remove"])),
                _ => {
                    let o = *rng.pick(&["whitelist", "whitelist", "removeWhitelist", "blacklist", "removeBlacklist"]);
                    let caller = if matches!(o, "whitelist" | "removeWhitelist") { *rng.pick(&["user", "user", "agent", "owner"]) } else { caller };
                    format!("sm hub {o} {caller} {target}")
                }
            };
            w.exec(tr, &text);
        }
    }
}

fn shuffle<T>(rng: &mut Rng, v: &mut [T]) {
    for i in (1..v.len()).rev() {
        let j = rng.below(i as u64 + 1) as usize;
        v.swap(i, j);
    }
}

fn gen(a: &Args, tr: &mut Trace) {
    let mut rng = Rng::new(a.seed);
    let only = a.extra.get("contract").cloned();
    for c in CONTRACTS {
        if let Some(o) = &only {
            if o != c {
                continue;
            }
        }
        let amt = rng.below(100_000);
        let header = format!("contract={c} amt={amt}");
        tr.world(&format!("access {header}"));
        let mut w = World::new(&header);
        let mut eps: Vec<String> = w.abis[c].endpoints.iter().map(|e| e.name.clone()).collect();
        for (vc, ve) in VARIANTS {
            if vc == c {
                eps.push(ve.to_string());
            }
        }
        let mut cells: Vec<String> = vec![];
        // the inventory lines come first: the model learns from them the ABI-default classification of endpoints its
        // table does not list (a new getter, a new #[only_owner] setter) before it has to answer their cells
        let inventory: Vec<String> = w.abis[c].endpoints.iter()
            .map(|x| format!("abi {c} {} owner={} ro={}", x.name, x.only_owner as u8, is_readonly(x) as u8)).collect();
        for line in inventory {
            w.exec(tr, &line);
        }
        for e in eps.iter() {
            let class = class_of(&w.abis[c], c, e);
            // can a valid call be constructed at all? (probe on the active universe with the owner)
            let u = w.uni(c, variant_of(c, e), "active");
            let constructible = w.build_call(&u, c, e, "owner").is_some();
            for role in roles_of(c) {
                for st in states_of(c) {
                    let privileged = matches!(*role, "owner" | "admin" | "pauser" | "router");
                    let kind = if constructible {
                        "cell"
                    } else if (class == Class::Config && !privileged) || class == Class::Never
                        || (class == Class::UserFunds && *st != "active")
                    {
                        "cellx" // must be rejected whatever the arguments
                    } else {
                        "nocall"
                    };
                    cells.push(format!("{kind} {c} {e} {role} {st}"));
                }
            }
        }
        shuffle(&mut rng, &mut cells);
        for cell in cells {
            w.exec(tr, &cell);
        }
    }
    if only.is_none() {
        gen_sm(a, tr, &mut rng);
    }
}

fn replay(a: &Args, tr: &mut Trace) {
    let hs = read_ops(a.file.as_ref().expect("--file"));
    for h in hs {
        let header = h.header.strip_prefix("access").unwrap_or(&h.header).trim().to_string();
        tr.world(&format!("access {header}"));
        let mut w = World::new(&header);
        for (_k, text) in h.lines {
            w.exec(tr, &text);
        }
    }
}

fn main() {
    let a = parse_args();
    if a.mode == "abi-dump" {
        let changed = abi_dump();
        println!("Gen/Endpoints.lean {}", if changed { "rewritten" } else { "unchanged" });
        return;
    }
    if std::env::var("VERIF_VERBOSE").is_err() {
        std::panic::set_hook(Box::new(|_| {}));
    }
    let mut tr = Trace::create(&a.out);
    let t0 = std::time::Instant::now();
    match a.mode.as_str() {
        "gen" => {
            let changed = abi_dump();
            if changed {
                tr.count("inventory.rewritten");
            }
            gen(&a, &mut tr)
        }
        "replay" => replay(&a, &mut tr),
        m => panic!("unknown mode {m}"),
    }
    let el = t0.elapsed().as_secs_f64();
    tr.finish(&[("wall_s", format!("{el:.3}"))]);
}
