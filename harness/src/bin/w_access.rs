//! World `access` (bootstrap version: abi-dump only).
use multiversx_sc::abi::{ContractAbi, EndpointMutabilityAbi};
use multiversx_sc::contract_base::ContractAbiProvider;

fn abis() -> Vec<(&'static str, ContractAbi)> {
    vec![
        ("pair", pair::AbiProvider::abi()),
        ("router", router::AbiProvider::abi()),
        ("farm", farm::AbiProvider::abi()),
        ("fwlr", farm_with_locked_rewards::AbiProvider::abi()),
        ("staking", farm_staking::AbiProvider::abi()),
        ("energy", energy_factory::AbiProvider::abi()),
        ("fees", fees_collector::AbiProvider::abi()),
        ("hub", permissions_hub::AbiProvider::abi()),
        ("unstake", token_unstake::AbiProvider::abi()),
        ("lkmex", lkmex_transfer::AbiProvider::abi()),
    ]
}

fn main() {
    for (c, abi) in abis() {
        for e in abi.endpoints.iter() {
            let ro = !matches!(e.mutability, EndpointMutabilityAbi::Mutable);
            println!("{c} {} owner={} ro={} payable={:?} inputs={:?}", e.name, e.only_owner, ro, e.payable_in_tokens,
                e.inputs.iter().map(|i| format!("{}:{}", i.arg_name, i.type_names.abi)).collect::<Vec<_>>());
        }
    }
}
