//! World `access`: the exhaustive authorisation / pause matrix of property C19 on the REAL
//! contracts pair, router, farm, farm-with-locked-rewards, farm-staking, energy-factory,
//! fees-collector, permissions-hub, token-unstake, lkmex-transfer.
//!
//! Shape of this world (different from the random-history worlds): every op line is one
//! matrix cell `cell <contract> <endpoint[@variant]> <role> <state>`; the harness restores a
//! deterministic, fully deployed "universe" for (contract, variant, state), calls the real
//! endpoint **by name through the contract's generated dispatcher** (so `#[only_owner]`,
//! `#[payable]` and argument decoding are exercised exactly as on chain) with a minimal
//! valid payment/arguments as the given caller role, records ok/err, and evaluates C19's
//! rules directly.  The Lean driver (`drv_access`) answers the same cell from the
//! hand-written access table (lean/MxModel/Core/Access.lean).
//!
//! Sub-commands: `abi-dump` (writes lean/MxModel/Gen/Endpoints.lean from the contracts' ABI
//! providers), `gen` (abi-dump, then the whole matrix), `replay --file f.ops`.
//!
//! The VM is the same `multiversx-chain-vm` the repository's tests run on; it is driven
//! through `ScenarioVMRunner` (public API of multiversx-sc-scenario) instead of
//! `BlockchainStateWrapper` because (a) endpoints must be dispatched by name, (b) the whole
//! chain state must be snapshotted / compared (raw storage of every account).

#![allow(clippy::too_many_arguments, clippy::type_complexity)]

use mxharness::*;
use num_bigint::BigUint;
use num_traits::Zero;
use std::collections::{BTreeMap, HashMap};

use multiversx_sc::abi::{ContractAbi, EndpointAbi, EndpointMutabilityAbi};
use multiversx_sc::contract_base::{CallableContract, ContractAbiProvider, ContractBase};
use multiversx_sc::types::{Address, ManagedAddress, MultiValueEncoded};
use multiversx_sc_scenario::debug_executor::{contract_instance_wrapped_execution, ContractContainer};
use multiversx_sc_scenario::multiversx_chain_vm::{
    tx_execution::execute_current_tx_context_input,
    tx_mock::{TxFunctionName, TxInput, TxResult, TxTokenTransfer},
    types::VMAddress,
    world_mock::{AccountData, BlockchainState, EsdtInstanceMetadata},
};
use multiversx_sc_scenario::scenario::run_vm::ScenarioVMRunner;
use multiversx_sc_scenario::{managed_address, managed_biguint, managed_token_id, DebugApi};

// =======================================================================================
// VM wrapper
// =======================================================================================
pub struct Vm {
    r: ScenarioVMRunner,
    next_user: u64,
    next_sc: u64,
}

fn vma(a: &Address) -> VMAddress {
    VMAddress::from_slice(a.as_bytes())
}

pub fn esdt(token: &[u8], nonce: u64, value: &BigUint) -> TxTokenTransfer {
    TxTokenTransfer { token_identifier: token.to_vec(), nonce, value: value.clone() }
}

impl Vm {
    pub fn new() -> Self {
        Vm { r: ScenarioVMRunner::new(), next_user: 0, next_sc: 0 }
    }
    pub fn state(&self) -> &BlockchainState {
        &self.r.blockchain_mock.state
    }
    pub fn state_mut(&mut self) -> &mut BlockchainState {
        &mut self.r.blockchain_mock.state
    }
    pub fn snapshot(&self) -> BlockchainState {
        self.state().clone()
    }
    pub fn restore(&mut self, s: &BlockchainState) {
        *self.state_mut() = s.clone();
    }
    pub fn user(&mut self) -> Address {
        self.next_user += 1;
        let mut b = [0xAAu8; 32];
        b[0] = 1;
        b[24..32].copy_from_slice(&self.next_user.to_be_bytes());
        let a = Address::from(&b);
        self.state_mut().accounts.insert(vma(&a), AccountData::new_empty(vma(&a)));
        a
    }
    /// an account with a smart-contract address; `code` = registered contract identifier
    pub fn sc_account(&mut self, owner: Option<&Address>, code: Option<&str>) -> Address {
        self.next_sc += 1;
        let mut b = [0x11u8; 32];
        for x in b.iter_mut().take(8) {
            *x = 0;
        }
        b[8] = 5;
        b[9] = 0;
        b[24..32].copy_from_slice(&self.next_sc.to_be_bytes());
        let a = Address::from(&b);
        let mut acc = AccountData::new_empty(vma(&a));
        acc.contract_path = code.map(|c| c.as_bytes().to_vec());
        acc.contract_owner = owner.map(vma);
        self.state_mut().accounts.insert(vma(&a), acc);
        a
    }
    pub fn register<CB: CallableContract + 'static>(&mut self, code: &str, obj: CB) {
        let mut m = self.r.contract_map_ref.lock();
        if !m.contains_contract(code.as_bytes()) {
            m.register_contract(code.as_bytes().to_vec(), ContractContainer::new(Box::new(obj), None, false));
        }
    }
    pub fn set_code(&mut self, a: &Address, code: &str) {
        self.state_mut().accounts.get_mut(&vma(a)).unwrap().contract_path = Some(code.as_bytes().to_vec());
    }
    pub fn set_esdt(&mut self, a: &Address, token: &[u8], v: &BigUint) {
        let acc = self.state_mut().accounts.get_mut(&vma(a)).unwrap();
        acc.esdt.set_esdt_balance(token.to_vec(), 0, v, EsdtInstanceMetadata::default());
    }
    pub fn set_nft(&mut self, a: &Address, token: &[u8], nonce: u64, v: &BigUint, attrs: Vec<u8>) {
        let acc = self.state_mut().accounts.get_mut(&vma(a)).unwrap();
        let md = EsdtInstanceMetadata { attributes: attrs, ..Default::default() };
        acc.esdt.set_esdt_balance(token.to_vec(), nonce, v, md);
    }
    pub fn set_egld(&mut self, a: &Address, v: &BigUint) {
        self.state_mut().accounts.get_mut(&vma(a)).unwrap().egld_balance = v.clone();
    }
    pub fn bal(&self, a: &Address, token: &[u8], nonce: u64) -> BigUint {
        match self.state().accounts.get(&vma(a)) {
            Some(acc) => acc.esdt.get_esdt_balance(token, nonce),
            None => BigUint::zero(),
        }
    }
    /// all (nonce, balance) instances of `token` held by `a`
    pub fn nfts(&self, a: &Address, token: &[u8]) -> Vec<(u64, BigUint)> {
        let mut v = vec![];
        if let Some(acc) = self.state().accounts.get(&vma(a)) {
            if let Some(d) = acc.esdt.get_by_identifier(token) {
                for (n, i) in d.instances.get_instances().iter() {
                    if !i.balance.is_zero() {
                        v.push((*n, i.balance.clone()));
                    }
                }
            }
        }
        v
    }
    pub fn nft_attrs(&self, a: &Address, token: &[u8], nonce: u64) -> Vec<u8> {
        self.state().accounts.get(&vma(a)).and_then(|acc| acc.esdt.get_by_identifier(token))
            .and_then(|d| d.instances.get_by_nonce(nonce)).map(|i| i.metadata.attributes.clone()).unwrap_or_default()
    }
    pub fn set_roles(&mut self, a: &Address, token: &[u8], roles: &[&str]) {
        let acc = self.state_mut().accounts.get_mut(&vma(a)).unwrap();
        acc.esdt.set_roles(token.to_vec(), roles.iter().map(|r| r.as_bytes().to_vec()).collect());
    }
    /// move tokens between two accounts outside any transaction (setup only)
    pub fn move_esdt(&mut self, from: &Address, to: &Address, token: &[u8], nonce: u64, v: &BigUint) {
        let attrs = self.nft_attrs(from, token, nonce);
        let have = self.bal(from, token, nonce);
        assert!(&have >= v, "move_esdt: insufficient balance");
        let left = &have - v;
        let md = EsdtInstanceMetadata { attributes: attrs.clone(), ..Default::default() };
        let facc = self.state_mut().accounts.get_mut(&vma(from)).unwrap();
        facc.esdt.set_esdt_balance(token.to_vec(), nonce, &left, md.clone());
        let tacc = self.state_mut().accounts.get_mut(&vma(to)).unwrap();
        tacc.esdt.increase_balance(token.to_vec(), nonce, v, md);
    }
    pub fn set_epoch(&mut self, e: u64) {
        self.state_mut().current_block_info.block_epoch = e;
    }
    pub fn set_nonce(&mut self, n: u64) {
        self.state_mut().current_block_info.block_nonce = n;
    }
    pub fn set_round(&mut self, n: u64) {
        self.state_mut().current_block_info.block_round = n;
    }
    pub fn set_timestamp(&mut self, n: u64) {
        self.state_mut().current_block_info.block_timestamp = n;
    }
    fn input(from: &Address, to: &Address, func: TxFunctionName, args: Vec<Vec<u8>>, pay: &[TxTokenTransfer], egld: &BigUint) -> TxInput {
        TxInput {
            from: vma(from),
            to: vma(to),
            egld_value: egld.clone(),
            esdt_values: pay.to_vec(),
            func_name: func,
            args,
            gas_limit: 100_000_000,
            gas_price: 0,
            ..Default::default()
        }
    }
    /// a transaction dispatched BY NAME through the contract's generated endpoint wrapper
    pub fn call(&mut self, from: &Address, to: &Address, func: &str, args: Vec<Vec<u8>>, pay: &[TxTokenTransfer], egld: &BigUint) -> TxResult {
        let inp = Self::input(from, to, TxFunctionName::from(func), args, pay, egld);
        let st = &mut self.r.blockchain_mock.state;
        st.increase_account_nonce(&inp.from);
        self.r.blockchain_mock.vm.sc_call_with_async_and_callback(inp, st, execute_current_tx_context_input)
    }
    /// white-box transaction (setup, observation): `f` runs inside the contract's context
    pub fn tx<CB, F>(&mut self, from: &Address, to: &Address, builder: fn() -> CB, pay: &[TxTokenTransfer], f: F) -> TxResult
    where
        CB: ContractBase<Api = DebugApi> + CallableContract + 'static,
        F: FnOnce(CB),
    {
        let inp = Self::input(from, to, TxFunctionName::WHITEBOX_CALL, vec![], pay, &BigUint::zero());
        let sc = builder();
        let st = &mut self.r.blockchain_mock.state;
        self.r.blockchain_mock.vm.sc_call_with_async_and_callback(inp, st, || {
            contract_instance_wrapped_execution(false, || {
                f(sc);
                Ok(())
            });
        })
    }
    pub fn tx_ok<CB, F>(&mut self, from: &Address, to: &Address, builder: fn() -> CB, pay: &[TxTokenTransfer], f: F)
    where
        CB: ContractBase<Api = DebugApi> + CallableContract + 'static,
        F: FnOnce(CB),
    {
        let r = self.tx(from, to, builder, pay, f);
        assert!(r.result_status == 0, "setup tx failed: {} {}", r.result_status, r.result_message);
    }
}

/// canonical rendering of the WHOLE chain state except account nonces: every account's EGLD,
/// every ESDT instance (balance + attributes), roles, every raw storage cell.
pub fn digest(s: &BlockchainState) -> String {
    let mut accs: Vec<&AccountData> = s.accounts.values().collect();
    accs.sort_by(|a, b| a.address.as_bytes().cmp(b.address.as_bytes()));
    let mut out = String::new();
    for a in accs {
        out += &format!("A{} e={} o={:?} c={:?}\n", hex::encode(a.address.as_bytes()), a.egld_balance,
            a.contract_owner.as_ref().map(|o| hex::encode(o.as_bytes())), a.contract_path.as_ref().map(|p| String::from_utf8_lossy(p).to_string()));
        let mut toks: Vec<(&Vec<u8>, _)> = a.esdt.iter().collect();
        toks.sort_by(|x, y| x.0.cmp(y.0));
        for (t, d) in toks {
            let mut roles = d.roles.get();
            roles.sort();
            out += &format!(" T{} ln={} r={:?}", String::from_utf8_lossy(t), d.last_nonce,
                roles.iter().map(|r| String::from_utf8_lossy(r).to_string()).collect::<Vec<_>>());
            for (n, i) in d.instances.get_instances().iter() {
                if !i.balance.is_zero() {
                    out += &format!(" {}:{}:{}", n, i.balance, hex::encode(&i.metadata.attributes));
                }
            }
            out += "\n";
        }
        let mut keys: Vec<&Vec<u8>> = a.storage.keys().collect();
        keys.sort();
        for k in keys {
            let v = &a.storage[k];
            if !v.is_empty() {
                out += &format!(" S{}={}\n", hex::encode(k), hex::encode(v));
            }
        }
    }
    out += &format!("B{} {} {}\n", s.current_block_info.block_epoch, s.current_block_info.block_nonce, s.current_block_info.block_round);
    out
}

// =======================================================================================
// argument encoding (top-level encoding of endpoint arguments, as a transaction carries them)
// =======================================================================================
pub fn a_u64(x: u64) -> Vec<u8> {
    let b = x.to_be_bytes();
    let i = b.iter().position(|v| *v != 0).unwrap_or(8);
    b[i..].to_vec()
}
pub fn a_big(x: &BigUint) -> Vec<u8> {
    if x.is_zero() { vec![] } else { x.to_bytes_be() }
}
pub fn a_addr(a: &Address) -> Vec<u8> {
    a.as_bytes().to_vec()
}
pub fn a_bool(b: bool) -> Vec<u8> {
    if b { vec![1] } else { vec![] }
}
pub fn n_bytes(b: &[u8]) -> Vec<u8> {
    let mut v = (b.len() as u32).to_be_bytes().to_vec();
    v.extend_from_slice(b);
    v
}
pub fn n_big(x: &BigUint) -> Vec<u8> {
    n_bytes(&a_big(x))
}
/// top-encoded EsdtTokenPayment struct
pub fn a_payment(token: &[u8], nonce: u64, amount: &BigUint) -> Vec<u8> {
    let mut v = n_bytes(token);
    v.extend_from_slice(&nonce.to_be_bytes());
    v.extend_from_slice(&n_big(amount));
    v
}

// =======================================================================================
// ABI inventory
// =======================================================================================
pub const CONTRACTS: [&str; 10] = ["pair", "router", "farm", "fwlr", "staking", "energy", "fees", "hub", "unstake", "lkmex"];

fn abi_of(c: &str) -> ContractAbi {
    match c {
        "pair" => pair::AbiProvider::abi(),
        "router" => router::AbiProvider::abi(),
        "farm" => farm::AbiProvider::abi(),
        "fwlr" => farm_with_locked_rewards::AbiProvider::abi(),
        "staking" => farm_staking::AbiProvider::abi(),
        "energy" => energy_factory::AbiProvider::abi(),
        "fees" => fees_collector::AbiProvider::abi(),
        "hub" => permissions_hub::AbiProvider::abi(),
        "unstake" => token_unstake::AbiProvider::abi(),
        "lkmex" => lkmex_transfer::AbiProvider::abi(),
        _ => panic!("unknown contract {c}"),
    }
}

fn is_readonly(e: &EndpointAbi) -> bool {
    !matches!(e.mutability, EndpointMutabilityAbi::Mutable)
}

fn lean_contract(c: &str) -> &'static str {
    match c {
        "pair" => ".pair", "router" => ".router", "farm" => ".farm", "fwlr" => ".fwlr", "staking" => ".staking",
        "energy" => ".energy", "fees" => ".fees", "hub" => ".hub", "unstake" => ".unstake", "lkmex" => ".lkmex",
        _ => panic!(),
    }
}

fn endpoints_lean() -> String {
    let mut s = String::new();
    s += "/-\n  GENERATED by `w_access abi-dump` from the contracts' own ABI providers\n";
    s += "  (`<crate>::AbiProvider::abi().endpoints`).  Do not edit: it is rewritten (only when its\n";
    s += "  content changes) on every run of the `access` world.\n";
    s += "  Entry = (contract, endpoint name, only_owner, readonly (view), payable).\n-/\n";
    s += "import MxModel.Core.Access\n\nnamespace Mx.Gen\nopen Mx.Access\n\n";
    s += "def endpoints : List (Contract × String × Bool × Bool × Bool) := [\n";
    let mut first = true;
    for c in CONTRACTS {
        let abi = abi_of(c);
        for e in abi.endpoints.iter() {
            if !first {
                s += ",\n";
            }
            first = false;
            s += &format!("  ({}, \"{}\", {}, {}, {})", lean_contract(c), e.name, e.only_owner, is_readonly(e), !e.payable_in_tokens.is_empty());
        }
    }
    s += "\n]\n\nend Mx.Gen\n";
    s
}

fn abi_dump() -> bool {
    let path = std::path::Path::new(env!("CARGO_MANIFEST_DIR")).join("../lean/MxModel/Gen/Endpoints.lean");
    let new = endpoints_lean();
    let old = std::fs::read_to_string(&path).unwrap_or_default();
    if old != new {
        std::fs::create_dir_all(path.parent().unwrap()).unwrap();
        std::fs::write(&path, new).unwrap();
        true
    } else {
        false
    }
}

fn main() {
    let a = parse_args();
    match a.mode.as_str() {
        "abi-dump" => {
            let changed = abi_dump();
            println!("Gen/Endpoints.lean {}", if changed { "rewritten" } else { "unchanged" });
        }
        _ => panic!("not yet"),
    }
    let _ = (BTreeMap::<u8, u8>::new(), HashMap::<u8, u8>::new());
}
