//! World `pair`: the real `dex/pair` contract + a real fees-collector + two real trusted
//! pairs (FIRST,C) and (SECOND,C) + the real simple-lock contract (swap output locking),
//! driven through the white-box VM.
//! Serves C01–C04 (and the pair part of C20).  Model: lean/MxModel/Core/Pair.lean.

use mxharness::*;
use num_bigint::BigUint;
use num_traits::{One, Zero};

use multiversx_sc::imports::StorageTokenWrapper;
use multiversx_sc::types::{Address, EsdtLocalRole, ManagedAddress, MultiValueEncoded};
use multiversx_sc_scenario::{
    managed_address, managed_biguint, managed_token_id, rust_biguint, whitebox_legacy::*, DebugApi,
};

use fees_collector::config::ConfigModule as _;
use fees_collector::FeesCollector;
use pair::config::ConfigModule as _;
use pair::fee::FeeModule as _;
use pair::locking_wrapper::LockingWrapperModule as _;
use pair::pair_actions::add_liq::AddLiquidityModule as _;
use pair::pair_actions::initial_liq::InitialLiquidityModule as _;
use pair::pair_actions::remove_liq::RemoveLiquidityModule as _;
use pair::pair_actions::swap::SwapModule as _;
use pair::pair_actions::views::ViewsModule as _;
use pair::safe_price::SafePriceModule as _;
use pair::Pair as _;
use pausable::{PausableModule as _, State};
use simple_lock::locked_token::{LockedTokenAttributes, LockedTokenModule as _};
use simple_lock::SimpleLock as _;

const FIRST: &[u8] = b"FIRST-abcdef";
const SECOND: &[u8] = b"SECOND-abcdef";
const CTOK: &[u8] = b"CTOK-abcdef";
const LP: &[u8] = b"LPTOK-abcdef";
const LPX1: &[u8] = b"LPXF-abcdef";
const LPX2: &[u8] = b"LPXS-abcdef";
const LOCKED: &[u8] = b"LOCKED-abcdef";
/// the meta-ESDT simple-lock mints for locked swap outputs
const SLK: &[u8] = b"SLKTOK-abcdef";
const M: u64 = 100_000;

type PairObj = pair::ContractObj<DebugApi>;
type PairW = ContractObjWrapper<PairObj, fn() -> PairObj>;
type CollObj = fees_collector::ContractObj<DebugApi>;
type CollW = ContractObjWrapper<CollObj, fn() -> CollObj>;
type LockObj = simple_lock::ContractObj<DebugApi>;
type LockW = ContractObjWrapper<LockObj, fn() -> LockObj>;

fn to_big(x: &multiversx_sc::types::BigUint<DebugApi>) -> BigUint {
    BigUint::from_bytes_be(x.to_bytes_be().as_slice())
}

#[derive(Clone, Default, Debug)]
struct Snap {
    r1: BigUint,
    r2: BigUint,
    s: BigUint,
    bal1: BigUint,
    bal2: BigUint,
    lpc: BigUint,
    own: BigUint,
    coll1: BigUint,
    coll2: BigUint,
    burn1: BigUint,
    burn2: BigUint,
    ext1: BigUint,
    ext2: BigUint,
    state: u8,
    total: u64,
    special: u64,
    fee_on: bool,
    user1: Vec<BigUint>,
    user2: Vec<BigUint>,
    userlp: Vec<BigUint>,
    // output locking: configuration read from the pair, block epoch, simple-lock's holdings of
    // the pool tokens, LOCKED tokens (by original pool token) held by every user and by the pair
    lock_deadline: u64,
    lock_unlock: u64,
    lock_sc: u8, // 0 unset, 1 simple-lock, 2 another contract
    epoch: u64,
    slk1: BigUint,
    slk2: BigUint,
    userlk1: Vec<BigUint>,
    userlk2: Vec<BigUint>,
    pairlk: BigUint,
    /// the owner's wallet: FIRST, SECOND, LP, LOCKED wrapping FIRST, LOCKED wrapping SECOND
    owner_w: [BigUint; 5],
}

struct PairWorld {
    b: BlockchainStateWrapper,
    owner: Address,
    users: Vec<Address>,
    pair: PairW,
    xf: PairW,
    xs: PairW,
    coll: CollW,
    lock: LockW,
    epoch: u64,
    /// LOCKED nonces created so far: nonce i+1 wraps pool token `lk_tok[i]` (1 = FIRST, 2 = SECOND, 0 = other)
    lk_tok: Vec<u8>,
    lk_unlock: Vec<u64>,
    init1: BigUint, // initial total supply of FIRST / SECOND over all tracked accounts
    init2: BigUint,
    xf_init: BigUint, // initial FIRST held by XF / SECOND held by XS
    xs_init: BigUint,
    trusted_first: bool,
    trusted_second: bool,
    dest_addrs: Vec<Address>, // fee destination addresses in insertion order
    next_dest: u64,
    round: u64,
    had_liquidity: bool,
    last_quote: Option<(String, BigUint)>, // (query text, value) of the latest successful Q
    user_funds: BigUint,
    pending: Vec<String>,
    adder: Option<u64>,
}

fn pair_builder() -> PairObj {
    pair::contract_obj()
}
fn coll_builder() -> CollObj {
    fees_collector::contract_obj()
}
fn lock_builder() -> LockObj {
    simple_lock::contract_obj()
}

impl PairWorld {
    fn user(&self, id: u64) -> Address {
        if id == 100 {
            self.owner.clone()
        } else if id >= 1 && (id as usize) <= self.users.len() {
            self.users[(id - 1) as usize].clone()
        } else {
            self.users[0].clone()
        }
    }

    fn bal(&self, a: &Address, t: &[u8]) -> BigUint {
        self.b.get_esdt_balance(a, t, 0)
    }

    /// make sure `who` can pay `amount` of pool token `t` (top-ups enter the supply ledger), so
    /// that every op text is executable whatever prefix of the history was dropped by shrinking
    fn ensure(&mut self, who: u64, t: &[u8], amount: &BigUint) {
        let a = self.user(who);
        let have = self.bal(&a, t);
        if &have < amount {
            self.b.set_esdt_balance(&a, t, amount);
            let d = amount - &have;
            if t == FIRST { self.init1 += &d } else if t == SECOND { self.init2 += &d }
        }
    }

    fn setup_pair(
        b: &mut BlockchainStateWrapper,
        owner: &Address,
        t1: &[u8],
        t2: &[u8],
        lp: &[u8],
        total: u64,
        special: u64,
        adder: Option<&Address>,
        activate: bool,
    ) -> PairW {
        let zero = rust_biguint!(0);
        let w: PairW = b.create_sc_account(&zero, Some(owner), pair_builder as fn() -> PairObj, "pair.wasm");
        let adder_addr = adder.cloned();
        b.execute_tx(owner, &w, &zero, |sc| {
            let adder_m = match &adder_addr {
                Some(a) => managed_address!(a),
                None => ManagedAddress::<DebugApi>::zero(),
            };
            sc.init(
                managed_token_id!(t1),
                managed_token_id!(t2),
                managed_address!(owner),
                managed_address!(owner),
                total,
                special,
                adder_m,
                MultiValueEncoded::<DebugApi, ManagedAddress<DebugApi>>::new(),
            );
            sc.lp_token_identifier().set(&managed_token_id!(lp));
            if activate {
                sc.state().set(State::Active);
            }
        })
        .assert_ok();
        b.set_esdt_local_roles(w.address_ref(), lp, &[EsdtLocalRole::Mint, EsdtLocalRole::Burn]);
        b.set_esdt_local_roles(w.address_ref(), t1, &[EsdtLocalRole::Burn]);
        b.set_esdt_local_roles(w.address_ref(), t2, &[EsdtLocalRole::Burn]);
        w
    }

    fn snap(&mut self) -> Snap {
        let mut s = Snap::default();
        let (mut r1, mut r2, mut sup, mut st, mut tot, mut sp, mut fee_on) =
            (BigUint::zero(), BigUint::zero(), BigUint::zero(), 0u8, 0u64, 0u64, false);
        let (mut lk_dl, mut lk_ul, mut lk_sc) = (0u64, 0u64, 0u8);
        let la = self.lock.address_ref().clone();
        self.b
            .execute_query(&self.pair, |sc| {
                let (a, b, c) = sc.get_reserves_and_total_supply().into_tuple();
                r1 = to_big(&a);
                r2 = to_big(&b);
                sup = to_big(&c);
                st = match sc.state().get() {
                    State::Inactive => 0,
                    State::Active => 1,
                    State::PartialActive => 2,
                };
                tot = sc.total_fee_percent().get();
                sp = sc.special_fee_percent().get();
                fee_on = sc.is_fee_enabled();
                lk_dl = sc.locking_deadline_epoch().get();
                lk_ul = sc.unlock_epoch().get();
                lk_sc = if sc.locking_sc_address().is_empty() {
                    0
                } else if sc.locking_sc_address().get() == managed_address!(&la) {
                    1
                } else {
                    2
                };
            })
            .assert_ok();
        s.lock_deadline = lk_dl;
        s.lock_unlock = lk_ul;
        s.lock_sc = lk_sc;
        s.epoch = self.epoch;
        s.slk1 = self.bal(&la, FIRST);
        s.slk2 = self.bal(&la, SECOND);
        self.discover_locked_nonces();
        s.r1 = r1;
        s.r2 = r2;
        s.s = sup;
        s.state = st;
        s.total = tot;
        s.special = sp;
        s.fee_on = fee_on;
        let pa = self.pair.address_ref().clone();
        s.bal1 = self.bal(&pa, FIRST);
        s.bal2 = self.bal(&pa, SECOND);
        s.own = self.bal(&pa, LP);
        let ca = self.coll.address_ref().clone();
        s.coll1 = self.bal(&ca, FIRST);
        s.coll2 = self.bal(&ca, SECOND);
        let xfa = self.xf.address_ref().clone();
        let xsa = self.xs.address_ref().clone();
        let xf1 = self.bal(&xfa, FIRST);
        let xs2 = self.bal(&xsa, SECOND);
        s.ext1 = &xf1 - &self.xf_init;
        s.ext2 = &xs2 - &self.xs_init;
        let mut tot1 = &s.bal1 + &s.coll1 + &xf1 + self.bal(&self.owner.clone(), FIRST) + &s.slk1;
        let mut tot2 = &s.bal2 + &s.coll2 + &xs2 + self.bal(&self.owner.clone(), SECOND) + &s.slk2;
        s.pairlk = self.locked_of(&pa, 1) + self.locked_of(&pa, 2) + self.locked_of(&pa, 0);
        let mut lpc = s.own.clone() + self.bal(&self.owner.clone(), LP);
        for u in self.users.clone().iter() {
            let a = self.bal(u, FIRST);
            let b2 = self.bal(u, SECOND);
            let l = self.bal(u, LP);
            tot1 += &a;
            tot2 += &b2;
            lpc += &l;
            s.user1.push(a);
            s.user2.push(b2);
            s.userlp.push(l);
            s.userlk1.push(self.locked_of(u, 1));
            s.userlk2.push(self.locked_of(u, 2));
        }
        s.lpc = lpc;
        let oa = self.owner.clone();
        s.owner_w = [self.bal(&oa, FIRST), self.bal(&oa, SECOND), self.bal(&oa, LP), self.locked_of(&oa, 1), self.locked_of(&oa, 2)];
        s.burn1 = &self.init1 - &tot1;
        s.burn2 = &self.init2 - &tot2;
        s
    }

    /// simple-lock keeps the initial unit of every LOCKED nonce it creates, so the nonces in
    /// existence are found by probing its own balance; the wrapped token and the unlock epoch
    /// are read from the attributes stored with the token.
    fn discover_locked_nonces(&mut self) {
        let la = self.lock.address_ref().clone();
        loop {
            let n = self.lk_tok.len() as u64 + 1;
            if self.b.get_esdt_balance(&la, SLK, n).is_zero() {
                break;
            }
            // (managed types can only be decoded inside a VM context: read through simple-lock itself)
            let (mut id, mut ue): (Vec<u8>, u64) = (vec![], 0);
            self.b
                .execute_query(&self.lock, |sc| {
                    let attr: LockedTokenAttributes<DebugApi> = sc.locked_token().get_token_attributes(n);
                    id = attr.original_token_id.clone().unwrap_esdt().to_boxed_bytes().into_vec();
                    ue = attr.unlock_epoch;
                })
                .assert_ok();
            let t = if id.as_slice() == FIRST { 1 } else if id.as_slice() == SECOND { 2 } else { 0 };
            self.lk_tok.push(t);
            self.lk_unlock.push(ue);
        }
    }

    /// LOCKED tokens wrapping pool token `t` (1 FIRST, 2 SECOND, 0 anything else) held by `a`
    fn locked_of(&self, a: &Address, t: u8) -> BigUint {
        let mut x = BigUint::zero();
        for (i, tt) in self.lk_tok.iter().enumerate() {
            if *tt == t {
                x += self.b.get_esdt_balance(a, SLK, i as u64 + 1);
            }
        }
        x
    }

    fn x_reserves(&mut self, first: bool) -> (BigUint, BigUint) {
        let w = if first { &self.xf } else { &self.xs };
        let (mut a, mut b2) = (BigUint::zero(), BigUint::zero());
        self.b
            .execute_query(w, |sc| {
                let (x, y, _) = sc.get_reserves_and_total_supply().into_tuple();
                a = to_big(&x);
                b2 = to_big(&y);
            })
            .assert_ok();
        (a, b2)
    }

    fn sp_line(&mut self) -> String {
        let mut out = String::new();
        self.b
            .execute_query(&self.pair, |sc| {
                let cur = sc.safe_price_current_index().get();
                let len = sc.price_observations().len();
                if len == 0 || cur == 0 {
                    out = format!("{},{},0,0,0,0,0", cur, len);
                } else {
                    let o = sc.price_observations().get(cur);
                    out = format!(
                        "{},{},{},{},{},{},{}",
                        cur,
                        len,
                        to_big(&o.first_token_reserve_accumulated),
                        to_big(&o.second_token_reserve_accumulated),
                        to_big(&o.lp_supply_accumulated),
                        o.weight_accumulated,
                        o.recording_round
                    );
                }
            })
            .assert_ok();
        out
    }

    fn state_line(&mut self, s: &Snap) -> String {
        let st = match s.state {
            0 => "inactive",
            1 => "active",
            _ => "partial",
        };
        let x1 = if self.trusted_first {
            let (a, b) = self.x_reserves(true);
            format!("{},{}", a, b)
        } else {
            "none".into()
        };
        let x2 = if self.trusted_second {
            let (a, b) = self.x_reserves(false);
            format!("{},{}", a, b)
        } else {
            "none".into()
        };
        let sp = self.sp_line();
        let lsc = match s.lock_sc {
            0 => "none",
            1 => "sl",
            _ => "other",
        };
        // per-account ledger (model: Core/PairLedger.lean): the real ESDT balances of every user
        // account and of the owner — FIRST, SECOND, LP, LOCKED wrapping FIRST, LOCKED wrapping SECOND
        let mut accts: Vec<String> = (0..s.user1.len())
            .map(|i| format!("{},{},{},{},{}", s.user1[i], s.user2[i], s.userlp[i], s.userlk1[i], s.userlk2[i]))
            .collect();
        accts.push(format!("{},{},{},{},{}", s.owner_w[0], s.owner_w[1], s.owner_w[2], s.owner_w[3], s.owner_w[4]));
        format!(
            "r={},{} S={} bal={},{} lpc={} own={} coll={},{} burn={},{} ext={},{} st={} x1={} x2={} sp={} lock={},{},{} ep={} slk={},{} acct={}",
            s.r1, s.r2, s.s, s.bal1, s.bal2, s.lpc, s.own, s.coll1, s.coll2, s.burn1, s.burn2,
            s.ext1, s.ext2, st, x1, x2, sp, s.lock_deadline, s.lock_unlock, lsc, s.epoch, s.slk1, s.slk2,
            accts.join(";")
        )
    }

    // ---------------- independent formulas (written from the README / property text) ----
    fn f_amount_out(total: u64, a: &BigUint, rin: &BigUint, rout: &BigUint) -> BigUint {
        let af = a * BigUint::from(M - total);
        let den = rin * BigUint::from(M) + &af;
        if den.is_zero() {
            return BigUint::zero();
        }
        af * rout / den
    }
    fn f_amount_in(total: u64, out: &BigUint, rin: &BigUint, rout: &BigUint) -> BigUint {
        rin * out * BigUint::from(M) / ((rout - out) * BigUint::from(M - total)) + BigUint::one()
    }

    /// C01 + C02 oracle after every transaction (successful or not)
    /// the result of add / remove liquidity names the tokens it paid: LP, first, second — in that order, as documented
    fn check_result_tokens(&self, tr: &mut Trace, site: &str, got: &Option<Vec<Vec<u8>>>, want: &[&[u8]]) {
        if let Some(g) = got {
            let w: Vec<Vec<u8>> = want.iter().map(|x| x.to_vec()).collect();
            if *g != w {
                tr.fail("C04", "result_names_tokens", site, &format!("the endpoint's result names the tokens {:?}, expected {:?}",
                    g.iter().map(|x| String::from_utf8_lossy(x).to_string()).collect::<Vec<_>>(),
                    w.iter().map(|x| String::from_utf8_lossy(x).to_string()).collect::<Vec<_>>()));
            }
        }
    }

    fn oracle_common(&mut self, tr: &mut Trace, site: &str, pre: &Snap, post: &Snap, ok: bool) {
        // C01: backing, LP supply, positivity
        if post.bal1 < post.r1 || post.bal2 < post.r2 {
            tr.fail("C01", "balance_ge_reserve", site,
                &format!("bal=({},{}) reserve=({},{})", post.bal1, post.bal2, post.r1, post.r2));
        }
        if post.s != post.lpc {
            tr.fail("C01", "lp_supply_eq_circulating", site,
                &format!("reported S={} circulating={}", post.s, post.lpc));
        }
        if !post.s.is_zero() {
            self.had_liquidity = true;
        }
        if self.had_liquidity && (post.r1.is_zero() || post.r2.is_zero() || post.s.is_zero()) {
            tr.fail("C01", "reserves_positive_forever", site,
                &format!("r=({},{}) S={}", post.r1, post.r2, post.s));
        }
        if self.had_liquidity && post.own < BigUint::from(1000u32) {
            tr.fail("C04", "min_liquidity_locked", site, &format!("pair's own LP = {}", post.own));
        }
        if !ok {
            // failed tx must leave everything unchanged
            if pre.r1 != post.r1 || pre.r2 != post.r2 || pre.s != post.s || pre.bal1 != post.bal1
                || pre.bal2 != post.bal2 || pre.lpc != post.lpc || pre.user1 != post.user1
                || pre.user2 != post.user2 || pre.userlp != post.userlp
                || pre.slk1 != post.slk1 || pre.slk2 != post.slk2 || pre.userlk1 != post.userlk1
                || pre.userlk2 != post.userlk2 || pre.lock_deadline != post.lock_deadline
                || pre.lock_unlock != post.lock_unlock || pre.lock_sc != post.lock_sc
            {
                tr.fail("C01", "failed_tx_changes_state", site, "state differs after failed tx");
            }
            return;
        }
        // C02: K/S^2 monotone (cross-multiplied), when liquidity existed before
        if !pre.s.is_zero() && !post.s.is_zero() {
            let lhs = &pre.r1 * &pre.r2 * &post.s * &post.s;
            let rhs = &post.r1 * &post.r2 * &pre.s * &pre.s;
            if lhs > rhs {
                tr.fail("C02", "k_over_s2_monotone", site,
                    &format!("pre r=({},{}) S={} post r=({},{}) S={}", pre.r1, pre.r2, pre.s, post.r1, post.r2, post.s));
            }
        }
    }

    fn others_unchanged(&self, tr: &mut Trace, site: &str, who: u64, pre: &Snap, post: &Snap) {
        for i in 0..self.users.len() {
            if (i as u64 + 1) == who {
                continue;
            }
            if pre.user1[i] != post.user1[i] || pre.user2[i] != post.user2[i] || pre.userlp[i] != post.userlp[i]
                || pre.userlk1[i] != post.userlk1[i] || pre.userlk2[i] != post.userlk2[i]
            {
                tr.fail("C03", "no_credit_to_other_user", site, &format!("user u{} balance changed", i + 1));
            }
        }
    }
}

fn dir_tokens(d: &str) -> (&'static [u8], &'static [u8]) {
    if d == "ab" {
        (FIRST, SECOND)
    } else {
        (SECOND, FIRST)
    }
}

impl World for PairWorld {
    const NAME: &'static str = "pair";

    fn gen_header(rng: &mut Rng, _h: u64, _tier: &str) -> String {
        let totals = [0u64, 1, 30, 300, 1000, 4999, 5000];
        let total = if rng.chance(1, 3) { rng.range(0, 5000) } else { *rng.pick(&totals) };
        let special = match rng.below(4) {
            0 => 0,
            1 => total,
            2 => total / 6,
            _ => rng.range(0, total),
        };
        let users = rng.range(2, 4);
        let adder = if rng.chance(1, 4) { rng.range(1, users) } else { 0 };
        let xr = |rng: &mut Rng| -> String {
            let a = rng.magnitude(20) + BigUint::from(1001u32);
            let b = rng.magnitude(20) + BigUint::from(1001u32);
            format!("{},{},{}", a, b, if rng.chance(5, 6) { 1 } else { 0 })
        };
        let xf = xr(rng);
        let xs = xr(rng);
        format!("total={total} special={special} adder={adder} users={users} cap=65536 xf={xf} xs={xs}")
    }

    fn new(header: &str) -> Self {
        let total = kv_u64(header, "total", 300);
        let special = kv_u64(header, "special", 50);
        let adder = kv_u64(header, "adder", 0);
        let nusers = kv_u64(header, "users", 3);
        let zero = rust_biguint!(0);
        let mut b = BlockchainStateWrapper::new();
        let owner = b.create_user_account(&zero);
        let mut users = vec![];
        let funds = pow10(45);
        for _ in 0..nusers {
            let u = b.create_user_account(&zero);
            b.set_esdt_balance(&u, FIRST, &funds);
            b.set_esdt_balance(&u, SECOND, &funds);
            users.push(u);
        }
        b.set_esdt_balance(&owner, FIRST, &funds);
        b.set_esdt_balance(&owner, SECOND, &funds);
        b.set_esdt_balance(&owner, CTOK, &funds);
        let adder_addr = if adder >= 1 && adder <= nusers { Some(users[(adder - 1) as usize].clone()) } else { None };
        let pair = Self::setup_pair(&mut b, &owner, FIRST, SECOND, LP, total, special, adder_addr.as_ref(), false);
        let xf = Self::setup_pair(&mut b, &owner, FIRST, CTOK, LPX1, 300, 50, None, true);
        let xs = Self::setup_pair(&mut b, &owner, SECOND, CTOK, LPX2, 300, 50, None, true);
        b.set_esdt_local_roles(xf.address_ref(), CTOK, &[EsdtLocalRole::Burn]);
        b.set_esdt_local_roles(xs.address_ref(), CTOK, &[EsdtLocalRole::Burn]);
        // fees collector
        let coll: CollW = b.create_sc_account(&zero, Some(&owner), coll_builder as fn() -> CollObj, "fc.wasm");
        let pair_addr = pair.address_ref().clone();
        b.execute_tx(&owner, &coll, &zero, |sc| {
            sc.init(managed_token_id!(LOCKED), managed_address!(&pair_addr));
            let _ = sc.known_contracts().insert(managed_address!(&pair_addr));
            let mut tokens = MultiValueEncoded::new();
            tokens.push(managed_token_id!(FIRST));
            tokens.push(managed_token_id!(SECOND));
            sc.add_known_tokens(tokens);
        })
        .assert_ok();
        // the real simple-lock contract (deployed as the pd world / the repo's own tests do)
        b.set_block_epoch(0);
        let lock: LockW = b.create_sc_account(&zero, Some(&owner), lock_builder as fn() -> LockObj, "lock.wasm");
        b.execute_tx(&owner, &lock, &zero, |sc| {
            sc.init();
            sc.locked_token().set_token_id(managed_token_id!(SLK));
        })
        .assert_ok();
        b.set_esdt_local_roles(
            lock.address_ref(),
            SLK,
            &[EsdtLocalRole::NftCreate, EsdtLocalRole::NftAddQuantity, EsdtLocalRole::NftBurn],
        );
        // liquidity + whitelist of the external pairs
        let parse_x = |s: &str| -> (BigUint, BigUint, bool) {
            let p: Vec<&str> = s.split(',').collect();
            (big(p[0]), big(p[1]), p[2] == "1")
        };
        let (xf_a, xf_c, xf_live) = parse_x(kv(header, "xf").unwrap_or("1000000,1000000,1"));
        let (xs_a, xs_c, xs_live) = parse_x(kv(header, "xs").unwrap_or("1000000,1000000,1"));
        for (w, t, a, c, live) in [(&xf, FIRST, &xf_a, &xf_c, xf_live), (&xs, SECOND, &xs_a, &xs_c, xs_live)] {
            let transfers = vec![
                TxTokenTransfer { token_identifier: t.to_vec(), nonce: 0, value: a.clone() },
                TxTokenTransfer { token_identifier: CTOK.to_vec(), nonce: 0, value: c.clone() },
            ];
            b.execute_esdt_multi_transfer(&owner, w, &transfers, |sc| {
                sc.add_liquidity(managed_biguint!(1u64), managed_biguint!(1u64));
            })
            .assert_ok();
            if live {
                b.execute_tx(&owner, w, &zero, |sc| {
                    sc.whitelist_endpoint(managed_address!(&pair_addr));
                })
                .assert_ok();
            }
        }
        let xf_init = b.get_esdt_balance(xf.address_ref(), FIRST, 0);
        let xs_init = b.get_esdt_balance(xs.address_ref(), SECOND, 0);
        let mut w = PairWorld {
            b, owner, users, pair, xf, xs, coll, lock, epoch: 0, lk_tok: vec![], lk_unlock: vec![],
            init1: BigUint::zero(), init2: BigUint::zero(), xf_init, xs_init,
            trusted_first: false, trusted_second: false, dest_addrs: vec![], next_dest: 0,
            round: 0, had_liquidity: false, last_quote: None, user_funds: funds, pending: vec![], adder: if adder >= 1 && adder <= nusers { Some(adder) } else { None },
        };
        // initial totals for the burn ledger
        let s0 = {
            w.init1 = BigUint::zero();
            w.init2 = BigUint::zero();
            let pa = w.pair.address_ref().clone();
            let mut t1 = w.bal(&pa, FIRST) + w.bal(&w.coll.address_ref().clone(), FIRST)
                + w.bal(&w.xf.address_ref().clone(), FIRST) + w.bal(&w.owner.clone(), FIRST);
            let mut t2 = w.bal(&pa, SECOND) + w.bal(&w.coll.address_ref().clone(), SECOND)
                + w.bal(&w.xs.address_ref().clone(), SECOND) + w.bal(&w.owner.clone(), SECOND);
            for u in w.users.clone().iter() {
                t1 += w.bal(u, FIRST);
                t2 += w.bal(u, SECOND);
            }
            (t1, t2)
        };
        w.init1 = s0.0;
        w.init2 = s0.1;
        w
    }

    fn gen_line(&mut self, rng: &mut Rng, step: u64, _tier: &str) -> (char, String) {
        if let Some(p) = self.pending.pop() {
            return ('O', p);
        }
        let s = self.snap();
        let nu = self.users.len() as u64;
        let u = rng.range(1, nu);
        // output locking configured at the start of most histories: deadline a few epochs
        // ahead, unlock epoch before / at / after it (all three delivery branches get reached)
        if step == 0 && rng.chance(7, 10) {
            let dl = if rng.chance(1, 8) { 0 } else { rng.range(1, 6) };
            let ul = match rng.below(8) {
                0 => 0,
                1 | 2 => rng.range(1, dl.max(1)),
                3 => dl,
                _ => dl + rng.range(1, 6),
            };
            self.pending.push(format!("setLockUnlock 100 {}", ul));
            self.pending.push(format!("setLockDeadline 100 {}", dl));
            return ('O', "setLockSc 100 sl".to_string());
        }
        // a locking address without `lockTokens` blocks every swap while locking is on: repair it often
        if s.lock_sc != 1 && s.epoch < s.lock_deadline && rng.chance(1, 2) {
            return ('O', "setLockSc 100 sl".to_string());
        }
        // bootstrap: make the pool usable quickly in most histories
        let cap1 = s.user1[(u - 1) as usize].clone();
        let cap2 = s.user2[(u - 1) as usize].clone();
        if s.s.is_zero() {
            let amt = |rng: &mut Rng| -> BigUint {
                match rng.below(8) {
                    0 => BigUint::from(rng.range(1001, 5000)),
                    1 => pow10(30) + rng.magnitude(25),
                    2 => BigUint::from(rng.range(1, 1500)),
                    _ => rng.magnitude(24) + BigUint::from(1000u32),
                }
            };
            let a1 = amt(rng);
            let a2 = if rng.chance(1, 5) { &a1 * pow10(rng.range(0, 12) as u32) } else { amt(rng) };
            let inactive = s.state == 0;
            return match (inactive, rng.below(10)) {
                (true, 0..=4) => ('O', format!("addInitial {} {} {}", if rng.chance(1, 8) { rng.range(1, nu) } else { self.adder.unwrap_or(u) }, a1, a2)),
                (true, 5..=7) => ('O', format!("setState {}", rng.pick(&["active", "partial", "active"]))),
                (true, _) => ('O', format!("addLiq {} {} {} 1 1", u, a1, a2)),
                (false, 0) => ('O', format!("setState {}", rng.pick(&["active", "partial", "inactive"]))),
                (false, 1) => ('O', format!("addInitial {} {} {}", self.adder.unwrap_or(u), a1, a2)),
                (false, _) => if self.adder.is_some() && rng.chance(2, 3) { ('O', "setState inactive".to_string()) } else { ('O', format!("addLiq {} {} {} 1 1", u, a1, a2)) },
            };
        }
        // `addInitialLiquidity` must stay a one-off: attempt it with VALID payments in every state
        // of a pool that already has liquidity (Active, PartialActive, Inactive after a pause),
        // by the configured adder / by anyone when there is none (and sometimes by the wrong caller)
        let init_attempt = |rng: &mut Rng, me: &Self| -> String {
            let a = |rng: &mut Rng, r: &BigUint| -> BigUint {
                match rng.below(4) {
                    0 => BigUint::from(rng.range(1001, 5000)),
                    1 => r / 3u32 + BigUint::from(1001u32),
                    2 => r.clone() + BigUint::from(1001u32),
                    _ => rng.magnitude(20) + BigUint::from(1001u32),
                }
            };
            let c = if rng.chance(1, 6) { rng.range(1, nu) } else { me.adder.unwrap_or(u) };
            format!("addInitial {} {} {}", c, a(rng, &s.r1), a(rng, &s.r2))
        };
        if s.state != 1 {
            if rng.chance(1, 3) {
                return ('O', init_attempt(rng, self));
            }
            if rng.chance(1, 2) {
                return ('O', "setState active".to_string());
            }
        }
        let weights = [
            14, // 0 swapIn
            12, // 1 swapOut
            8,  // 2 addLiq
            8,  // 3 removeLiq
            6,  // 4 advance
            3,  // 5 setFee
            4,  // 6 addDest/removeDest
            2,  // 7 setCollector
            3,  // 8 setState
            3,  // 9 whitelist
            3,  // 10 swapNoFee
            3,  // 11 buyback
            3,  // 12 setTrusted
            6,  // 13 queries
            3,  // 14 malformed
            4,  // 15 locking setters
            5,  // 16 epoch
            3,  // 17 addInitialLiquidity on a pool that has liquidity (whatever the state)
            4,  // 18 pause episode: pause, addInitialLiquidity while paused with liquidity, resume
            3,  // 19 plain ESDT transfer of LP / pool tokens between accounts (no contract involved)
        ];
        let k = if step < 6 && rng.chance(1, 2) { *rng.pick(&[6usize, 7, 12, 9, 8]) } else { rng.weighted(&weights) };
        let d = if rng.chance(1, 2) { "ab" } else { "ba" };
        let (rin, rout) = if d == "ab" { (s.r1.clone(), s.r2.clone()) } else { (s.r2.clone(), s.r1.clone()) };
        let one = BigUint::one();
        match k {
            0 => {
                let a = match rng.below(8) {
                    0 => one.clone(),
                    1 => rng.big_range(&one, &BigUint::from(100u32)),
                    2 => &rin / BigUint::from(1000u32) + &one,
                    3 => rin.clone(),
                    4 => &rin * BigUint::from(rng.range(2, 1000)),
                    5 => pow10(30),
                    _ => rng.big_range(&one, &(&rin * 2u32 + &one)),
                };
                let a = a.min(if d == "ab" { cap1.clone() } else { cap2.clone() });
                let q = Self::f_amount_out(s.total, &a, &rin, &rout);
                let min = match rng.below(6) {
                    0 => q.clone() + &one,          // just above: must fail
                    1 => q.clone().max(one.clone()), // exactly
                    2 => BigUint::zero(),            // invalid arg
                    _ => one.clone(),
                };
                if rng.chance(1, 3) {
                    return self.quote_then(format!("amountOut {} {}", d, a), format!("swapIn {} {} {} {}", u, d, a, min));
                }
                ('O', format!("swapIn {} {} {} {}", u, d, a, min))
            }
            1 => {
                let out = match rng.below(8) {
                    0 => one.clone(),
                    1 => if rout > one { &rout - &one } else { one.clone() },
                    2 => rout.clone(),
                    3 => &rout / 2u32 + &one,
                    4 => &rout / BigUint::from(1000u32) + &one,
                    _ => rng.big_range(&one, &rout),
                };
                let need = if out < rout { Self::f_amount_in(s.total, &out, &rin, &rout) } else { pow10(20) };
                let mx = match rng.below(6) {
                    0 => if need > one { &need - &one } else { one.clone() }, // just below: must fail
                    1 => need.clone(),
                    2 => &need * 2u32,
                    _ => &need + rng.big_range(&one, &(&need + &one)),
                };
                let mx = mx.min(if d == "ab" { cap1.clone() } else { cap2.clone() });
                if rng.chance(1, 3) {
                    return self.quote_then(format!("amountIn {} {}", d, out), format!("swapOut {} {} {} {}", u, d, mx, out));
                }
                ('O', format!("swapOut {} {} {} {}", u, d, mx, out))
            }
            2 => {
                let a1 = match rng.below(6) {
                    0 => one.clone(),
                    1 => &s.r1 * rng.range(1, 5),
                    2 => pow10(30),
                    _ => rng.big_range(&one, &(&s.r1 * 2u32)),
                };
                let a2 = match rng.below(6) {
                    0 => one.clone(),
                    1 => &a1 * &s.r2 / &s.r1,
                    2 => &a1 * &s.r2 / &s.r1 + &one,
                    3 => pow10(30),
                    _ => rng.big_range(&one, &(&s.r2 * 2u32)),
                }
                .max(one.clone());
                let a1 = a1.min(cap1.clone());
                let a2 = a2.min(cap2.clone());
                // what the pool would use of this payment (both sides), to aim minimums at each guard
                let q2 = &a1 * &s.r2 / &s.r1;
                let (u1, u2) = if q2 <= a2 { (a1.clone(), q2) } else { (&a2 * &s.r1 / &s.r2, a2.clone()) };
                let (m1, m2) = match rng.below(12) {
                    0 => (a1.clone(), a2.clone()),
                    1 => (BigUint::zero(), one.clone()),
                    2 => (&a1 + &one, one.clone()),          // above the whole payment: must fail
                    3 => (one.clone(), &a2 + &one),
                    4 => (u1.clone().max(one.clone()), u2.clone().max(one.clone())), // exactly what is used
                    5 => (&u1 + &one, one.clone()),          // one above what is used: must fail
                    6 => (one.clone(), &u2 + &one),
                    _ => (one.clone(), one.clone()),
                };
                ('O', format!("addLiq {} {} {} {} {}", u, a1, a2, m1, m2))
            }
            3 => {
                let have = s.userlp[(u - 1) as usize].clone();
                if have.is_zero() {
                    return ('O', format!("addLiq {} {} {} 1 1", u, &s.r1 / 3u32 + &one, &s.r2 / 3u32 + &one));
                }
                let lp = match rng.below(6) {
                    0 => one.clone(),
                    1 => have.clone(),
                    2 => &have / 2u32 + &one,
                    _ => rng.big_range(&one, &have),
                }
                .min(have.clone());
                let e1 = &lp * &s.r1 / &s.s;
                let e2 = &lp * &s.r2 / &s.s;
                let (m1, m2) = match rng.below(7) {
                    0 => (e1.clone().max(one.clone()), e2.clone().max(one.clone())),
                    1 => (&e1 + &one, one.clone()),
                    2 => (one.clone(), &e2 + &one),
                    _ => (one.clone(), one.clone()),
                };
                if rng.chance(1, 4) {
                    return self.quote_then(format!("position {}", lp), format!("removeLiq {} {} {} {}", u, lp, m1, m2));
                }
                ('O', format!("removeLiq {} {} {} {}", u, lp, m1, m2))
            }
            4 => {
                let gap = match rng.below(5) { 0 => 0, 1 => 1, 2 => rng.range(2, 20), 3 => rng.range(100, 5000), _ => rng.range(1, 3) };
                ('O', format!("advance {}", self.round + gap))
            }
            5 => {
                let t = if rng.chance(1, 8) { rng.range(5001, 6000) } else { *rng.pick(&[0u64, 1, 50, 300, 1000, 5000]) };
                let sp = if rng.chance(1, 8) { t + 1 } else { rng.range(0, t) };
                ('O', format!("setFee {} {}", t, sp))
            }
            6 => {
                if !self.dest_addrs.is_empty() && rng.chance(1, 3) {
                    ('O', format!("removeDest {}", rng.below(self.dest_addrs.len() as u64)))
                } else {
                    ('O', format!("addDest {}", rng.pick(&["first", "second", "other", "first", "second"])))
                }
            }
            7 => ('O', format!("setCollector {}", *rng.pick(&[1u64, 10, 50_000, 100_000, 33_333, 0, 100_001]))),
            8 => ('O', format!("setState {}", rng.pick(&["active", "partial", "inactive", "inactive", "active"]))),
            9 => {
                if rng.chance(1, 4) { ('O', format!("removeWhitelist {}", u)) } else { ('O', format!("whitelist {}", u)) }
            }
            10 => {
                let a = match rng.below(4) { 0 => one.clone(), 1 => &rin / 100u32 + &one, _ => rng.big_range(&one, &(&rin + &one)) };
                let a = a.min(if d == "ab" { cap1.clone() } else { cap2.clone() });
                ('O', format!("swapNoFee {} {} {}", u, d, a))
            }
            11 => {
                let have = s.userlp[(u - 1) as usize].clone();
                if have.is_zero() {
                    return ('O', format!("whitelist {}", u));
                }
                let lp = rng.big_range(&one, &have);
                ('O', format!("buyback {} {} {}", u, lp, rng.pick(&["first", "second", "other"])))
            }
            12 => {
                let first = rng.chance(1, 2);
                let on = rng.chance(3, 4);
                let name = if first { "first" } else { "second" };
                if on {
                    let (a, c) = self.x_reserves(first);
                    let live = self.x_live(first);
                    ('O', format!("setTrusted {} {} {} {}", name, a, c, if live { 1 } else { 0 }))
                } else {
                    ('O', format!("setTrusted {} none", name))
                }
            }
            17 => ('O', init_attempt(rng, self)),
            18 => {
                // pending is a stack: pushed in reverse order of execution
                self.pending.push("setState active".to_string());
                if rng.chance(1, 2) {
                    self.pending.push(format!("addLiq {} {} {} 1 1", u, &s.r1 / 3u32 + &one, &s.r2 / 3u32 + &one)); // not while paused
                }
                let again = init_attempt(rng, self);
                if rng.chance(1, 3) {
                    self.pending.push(again);
                }
                let first = init_attempt(rng, self);
                self.pending.push(first);
                ('O', format!("setState {}", rng.pick(&["inactive", "inactive", "inactive", "partial"])))
            }
            19 => {
                // LP (mostly) or a pool token moves from one account to another; the receiver can
                // then redeem LP it never minted.  Boundary amounts: everything, one too many, zero.
                let tok = *rng.pick(&["LP", "LP", "LP", "A", "B"]);
                // prefer a sender that holds LP when LP is to move
                let holders: Vec<u64> = (1..=nu).filter(|i| !s.userlp[(*i - 1) as usize].is_zero()).collect();
                let src = if rng.chance(1, 10) { 100 } else if tok == "LP" && !holders.is_empty() && rng.chance(5, 6) { *rng.pick(&holders) } else { u };
                let dst = if rng.chance(1, 12) { src } else if rng.chance(1, 10) { 100 } else { rng.range(1, nu) };
                let have = if src == 100 {
                    match tok { "LP" => s.owner_w[2].clone(), "A" => s.owner_w[0].clone(), _ => s.owner_w[1].clone() }
                } else {
                    let i = (src - 1) as usize;
                    match tok { "LP" => s.userlp[i].clone(), "A" => s.user1[i].clone(), _ => s.user2[i].clone() }
                };
                let amt = match rng.below(8) {
                    0 => have.clone(),
                    1 => &have + &one,      // one more than the wallet holds: must fail
                    2 => BigUint::zero(),   // zero-value transfer: must fail
                    3 => one.clone(),
                    4 => &have / 2u32 + &one,
                    _ => rng.big_range(&one, &(&have + &one)),
                };
                ('O', format!("xfer {} {} {} {}", src, dst, tok, amt))
            }
            15 => {
                let who = if rng.chance(1, 8) { u } else { 100 };
                match rng.below(5) {
                    0 | 1 => {
                        let e = match rng.below(5) { 0 => 0, 1 => s.epoch, 2 => s.epoch + 1, 3 => s.epoch + rng.range(2, 5), _ => rng.range(0, 8) };
                        ('O', format!("setLockDeadline {} {}", who, e))
                    }
                    2 | 3 => {
                        let e = match rng.below(5) { 0 => 0, 1 => s.epoch, 2 => s.epoch + 1, 3 => s.epoch + rng.range(2, 10), _ => rng.range(0, 12) };
                        ('O', format!("setLockUnlock {} {}", who, e))
                    }
                    _ => ('O', format!("setLockSc {} {}", who, rng.pick(&["sl", "sl", "sl", "sl", "sl", "coll", "user", "sl"]))),
                }
            }
            16 => {
                if s.epoch > 0 && rng.chance(1, 10) {
                    ('O', format!("epoch {}", s.epoch - 1)) // time does not run backwards: must fail
                } else {
                    ('O', format!("epoch {}", s.epoch + *rng.pick(&[0u64, 1, 1, 1, 2, 3])))
                }
            }
            13 => {
                let a = rng.big_range(&one, &(&rin + &one));
                match rng.below(4) {
                    0 => ('Q', format!("amountOut {} {}", d, a)),
                    1 => ('Q', format!("amountIn {} {}", d, rng.big_range(&BigUint::zero(), &(&rout + &one)))),
                    2 => ('Q', format!("equivalent {} {}", d, a)),
                    _ => ('Q', format!("position {}", rng.big_range(&BigUint::zero(), &s.s))),
                }
            }
            _ => {
                // a swap sent as a multi-transfer (two or more ESDT payments): every swap endpoint takes ONE payment, the call must
                // fail and nothing may stay behind in the pair
                if rng.chance(1, 3) {
                    let kind = *rng.pick(&["swapIn", "swapOut", "swapNoFee"]);
                    let extra = *rng.pick(&["same", "other", "lp"]);
                    return ('O', format!("bad multiPay {} {} {} {}", u, kind, extra, rng.range(1, 1_000_000)));
                }
                match rng.below(5) {
                    0 => ('O', format!("bad wrongToken {} swapIn", u)),
                    1 => ('O', format!("bad sameToken {} swapIn", u)),
                    2 => ('O', format!("bad lpAsInput {} addLiq", u)),
                    3 => ('O', format!("swapNoFee {} {} {}", u, d, one)), // usually not whitelisted
                    _ => ('O', format!("bad wrongToken {} removeLiq", u)),
                }
            }
        }
    }

    fn exec(&mut self, tr: &mut Trace, text: &str) {
        let n = tr.op(text);
        let w: Vec<&str> = text.split_whitespace().collect();
        let site = w[0].to_string();
        let mut res_toks: Option<Vec<Vec<u8>>> = None; // token identifiers of the payments an endpoint REPORTS in its result
        tr.count(&format!("op.{}", site));
        // top up the caller first (before the pre-snapshot) so that op texts stay executable
        match w[0] {
            "addInitial" | "addLiq" => {
                let who: u64 = w[1].parse().unwrap();
                self.ensure(who, FIRST, &big(w[2]));
                self.ensure(who, SECOND, &big(w[3]));
            }
            "swapIn" | "swapOut" | "swapNoFee" => {
                let who: u64 = w[1].parse().unwrap();
                let (tin, _) = dir_tokens(w[2]);
                self.ensure(who, tin, &big(w[3]));
            }
            _ => {}
        }
        let pre = self.snap();
        let zero = rust_biguint!(0);
        let owner = self.owner.clone();
        let mut outs = String::from("0 0 0");
        let mut who: u64 = 0;
        // what the caller holds before / pays with the call (pool tokens), to measure what it receives
        let caller_id: u64 = match w[0] {
            "addInitial" | "addLiq" | "removeLiq" | "swapIn" | "swapOut" | "swapNoFee" | "buyback" => w[1].parse().unwrap(),
            _ => 0,
        };
        let paid: (BigUint, BigUint) = match w[0] {
            "addInitial" | "addLiq" => (big(w[2]), big(w[3])),
            "swapIn" | "swapOut" | "swapNoFee" => {
                if w[2] == "ab" { (big(w[3]), BigUint::zero()) } else { (BigUint::zero(), big(w[3])) }
            }
            _ => (BigUint::zero(), BigUint::zero()),
        };
        let cb_pre = if caller_id != 0 { Some(self.caller_bals(caller_id)) } else { None };
        let lkd_pre = if caller_id != 0 { self.locked_detail(caller_id) } else { vec![] };
        // While locking is on and `lockingScAddress` was never set, the swap endpoints abort with
        // "storage decode error (key: lockingScAddress): bad array length" — a failed transaction
        // on chain.  In this white-box VM that error is raised with the managed-types mutex held,
        // and `StorageCache::drop` (which writes the reserves back during unwinding) then panics on
        // the poisoned mutex and kills the process.  Such a swap is therefore not executed; it is
        // reported as the failed transaction it is.
        let unset_lock_abort = matches!(w[0], "swapIn" | "swapOut") && pre.epoch < pre.lock_deadline && pre.lock_sc == 0;
        let ok: bool = match w[0] {
            "swapIn" | "swapOut" if unset_lock_abort => {
                who = w[1].parse().unwrap();
                tr.count("branch.swap_not_executed_unset_locking_address");
                false
            }
            "addInitial" => {
                who = w[1].parse().unwrap();
                let c = self.user(who);
                let (a1, a2) = (big(w[2]), big(w[3]));
                let transfers = vec![
                    TxTokenTransfer { token_identifier: FIRST.to_vec(), nonce: 0, value: a1 },
                    TxTokenTransfer { token_identifier: SECOND.to_vec(), nonce: 0, value: a2 },
                ];
                let mut o = (BigUint::zero(), BigUint::zero(), BigUint::zero());
                let r = self.b.execute_esdt_multi_transfer(&c, &self.pair, &transfers, |sc| {
                    let (lp, f, s2) = sc.add_initial_liquidity().into_tuple();
                    o = (to_big(&lp.amount), to_big(&f.amount), to_big(&s2.amount));
                    res_toks = Some(vec![tid(&lp.token_identifier), tid(&f.token_identifier), tid(&s2.token_identifier)]);
                });
                self.check_result_tokens(tr, &site, &res_toks, &[LP, FIRST, SECOND]);
                outs = format!("{} {} {}", o.0, o.1, o.2);
                let ok = r.result_status == 0;
                tr.count(&format!(
                    "branch.addInitial_{}_{}.{}",
                    match pre.state { 0 => "inactive", 1 => "active", _ => "partial" },
                    if pre.s.is_zero() { "empty" } else { "with_liquidity" },
                    if ok { "ok" } else { "err" }
                ));
                if ok {
                    // C04: the initial deposit is a one-off on an empty, inactive pool; it mints
                    // min(a1,a2), locks 1000 of it in the pair and uses both payments in full
                    let post = self.snap();
                    let (a1, a2) = (big(w[2]), big(w[3]));
                    let l = a1.clone().min(a2.clone());
                    let k = BigUint::from(1000u32);
                    if !pre.s.is_zero() || pre.state != 0 {
                        tr.fail("C04", "initial_liquidity_only_once", &site,
                            &format!("addInitialLiquidity accepted with LP supply {} in state {}", pre.s, pre.state));
                    }
                    if l <= k || o.0 != &l - &k || post.s != &pre.s + &l || post.own != &pre.own + &k || o.1 != a1 || o.2 != a2 {
                        tr.fail("C04", "first_deposit_locks_1000", &site,
                            &format!("min={l} lp={} used=({},{}) S {} -> {} pair's own LP {} -> {}", o.0, o.1, o.2, pre.s, post.s, pre.own, post.own));
                    }
                    if who >= 1 && (who as usize) <= self.users.len() {
                        let i = (who - 1) as usize;
                        if post.userlp[i] != &pre.userlp[i] + &o.0 || post.user1[i] != &pre.user1[i] - &a1 || post.user2[i] != &pre.user2[i] - &a2 {
                            tr.fail("C04", "add_deltas_match_result", &site, "caller's LP / token deltas differ from the result");
                        }
                    }
                }
                ok
            }
            "addLiq" => {
                who = w[1].parse().unwrap();
                let c = self.user(who);
                let (a1, a2, m1, m2) = (big(w[2]), big(w[3]), big(w[4]), big(w[5]));
                let transfers = vec![
                    TxTokenTransfer { token_identifier: FIRST.to_vec(), nonce: 0, value: a1.clone() },
                    TxTokenTransfer { token_identifier: SECOND.to_vec(), nonce: 0, value: a2.clone() },
                ];
                let mut o = (BigUint::zero(), BigUint::zero(), BigUint::zero());
                let r = self.b.execute_esdt_multi_transfer(&c, &self.pair, &transfers, |sc| {
                    let (lp, f, s2) = sc
                        .add_liquidity(
                            multiversx_sc::types::BigUint::from_bytes_be(&m1.to_bytes_be()),
                            multiversx_sc::types::BigUint::from_bytes_be(&m2.to_bytes_be()),
                        )
                        .into_tuple();
                    o = (to_big(&lp.amount), to_big(&f.amount), to_big(&s2.amount));
                    res_toks = Some(vec![tid(&lp.token_identifier), tid(&f.token_identifier), tid(&s2.token_identifier)]);
                });
                self.check_result_tokens(tr, &site, &res_toks, &[LP, FIRST, SECOND]);
                outs = format!("{} {} {}", o.0, o.1, o.2);
                let ok = r.result_status == 0;
                if ok {
                    // C04 oracle: optimal amounts, mint, refunds
                    let post = self.snap();
                    let i = (who - 1) as usize;
                    if who != 100 {
                        let paid1 = &pre.user1[i] - &post.user1[i];
                        let paid2 = &pre.user2[i] - &post.user2[i];
                        let got = &post.userlp[i] - &pre.userlp[i];
                        if paid1 != o.1 || paid2 != o.2 || got != o.0 {
                            tr.fail("C04", "add_deltas_match_result", &site,
                                &format!("paid=({paid1},{paid2}) lp={got} result=({},{},{})", o.0, o.1, o.2));
                        }
                    }
                    if !pre.s.is_zero() {
                        let q2 = &a1 * &pre.r2 / &pre.r1;
                        let (e1, e2) = if q2 <= a2 { (a1.clone(), q2) } else { (&a2 * &pre.r1 / &pre.r2, a2.clone()) };
                        let elp = (&e1 * &pre.s / &pre.r1).min(&e2 * &pre.s / &pre.r2);
                        if o.1 != e1 || o.2 != e2 || o.0 != elp || elp.is_zero() || e1 < m1 || e2 < m2 || e1 > a1 || e2 > a2 {
                            tr.fail("C04", "add_pro_rata", &site,
                                &format!("expected used=({e1},{e2}) lp={elp}; got used=({},{}) lp={}", o.1, o.2, o.0));
                        }
                    } else {
                        let l = a1.clone().min(a2.clone());
                        if l <= BigUint::from(1000u32) || o.0 != &l - BigUint::from(1000u32) || post.s != l {
                            tr.fail("C04", "first_deposit_locks_1000", &site, &format!("min={l} lp={} S={}", o.0, post.s));
                        }
                    }
                }
                ok
            }
            "removeLiq" => {
                who = w[1].parse().unwrap();
                let c = self.user(who);
                let (lp, m1, m2) = (big(w[2]), big(w[3]), big(w[4]));
                let mut o = (BigUint::zero(), BigUint::zero());
                let r = self.b.execute_esdt_transfer(&c, &self.pair, LP, 0, &lp, |sc| {
                    let (f, s2) = sc
                        .remove_liquidity(
                            multiversx_sc::types::BigUint::from_bytes_be(&m1.to_bytes_be()),
                            multiversx_sc::types::BigUint::from_bytes_be(&m2.to_bytes_be()),
                        )
                        .into_tuple();
                    o = (to_big(&f.amount), to_big(&s2.amount));
                    res_toks = Some(vec![tid(&f.token_identifier), tid(&s2.token_identifier)]);
                });
                self.check_result_tokens(tr, &site, &res_toks, &[FIRST, SECOND]);
                outs = format!("{} {} 0", o.0, o.1);
                let ok = r.result_status == 0;
                if ok {
                    let post = self.snap();
                    let e1 = &lp * &pre.r1 / &pre.s;
                    let e2 = &lp * &pre.r2 / &pre.s;
                    let i = (who - 1) as usize;
                    let got1 = &post.user1[i] - &pre.user1[i];
                    let got2 = &post.user2[i] - &pre.user2[i];
                    if o.0 != e1 || o.1 != e2 || got1 != e1 || got2 != e2 || e1 < m1 || e2 < m2 {
                        tr.fail("C04", "remove_pro_rata", &site,
                            &format!("expected ({e1},{e2}) result ({},{}) received ({got1},{got2}) min ({m1},{m2})", o.0, o.1));
                    }
                    if let Some((q, v)) = self.last_quote.take() {
                        if q == format!("position {}", lp) {
                            // value encoded as a*2^200+b by query(); compare against result
                            let enc = (&o.0 << 200u32) + &o.1;
                            if v != enc {
                                tr.fail("C20", "quote_eq_exec.position", &site, "getTokensForGivenPosition != removeLiquidity");
                            }
                        }
                    }
                }
                ok
            }
            "swapIn" => {
                who = w[1].parse().unwrap();
                let c = self.user(who);
                let d = w[2];
                let (tin, tout) = dir_tokens(d);
                let (a, min) = (big(w[3]), big(w[4]));
                let mut o = BigUint::zero();
                let r = self.b.execute_esdt_transfer(&c, &self.pair, tin, 0, &a, |sc| {
                    let p = sc.swap_tokens_fixed_input(
                        managed_token_id!(tout),
                        multiversx_sc::types::BigUint::from_bytes_be(&min.to_bytes_be()),
                    );
                    o = to_big(&p.amount);
                });
                outs = format!("{} 0 0", o);
                let ok = r.result_status == 0;
                if ok {
                    let post = self.snap();
                    let (rin, rout) = if d == "ab" { (&pre.r1, &pre.r2) } else { (&pre.r2, &pre.r1) };
                    let e = Self::f_amount_out(pre.total, &a, rin, rout);
                    if o != e || o < min || o.is_zero() || &o >= rout {
                        tr.fail("C03", "fixed_input_formula", &site, &format!("expected {e} got {o} min {min}"));
                    }
                    self.check_swap_conservation(tr, &site, who, d, &a, &o, &pre, &post);
                    self.check_swap_lock(tr, &site, who, d, &o, &pre, &post, &lkd_pre);
                    if let Some((q, v)) = self.last_quote.take() {
                        if q == format!("amountOut {} {}", d, a) && v != o {
                            tr.fail("C20", "quote_eq_exec.amountOut", &site, &format!("quote {v} exec {o}"));
                        }
                    }
                }
                ok
            }
            "swapOut" => {
                who = w[1].parse().unwrap();
                let c = self.user(who);
                let d = w[2];
                let (tin, tout) = dir_tokens(d);
                let (mx, want) = (big(w[3]), big(w[4]));
                let mut o = (BigUint::zero(), BigUint::zero());
                let r = self.b.execute_esdt_transfer(&c, &self.pair, tin, 0, &mx, |sc| {
                    let (p, q) = sc
                        .swap_tokens_fixed_output(
                            managed_token_id!(tout),
                            multiversx_sc::types::BigUint::from_bytes_be(&want.to_bytes_be()),
                        )
                        .into_tuple();
                    o = (to_big(&p.amount), to_big(&q.amount));
                });
                let ok = r.result_status == 0;
                let charged = if ok { &mx - &o.1 } else { BigUint::zero() };
                outs = format!("{} {} {}", o.0, charged, o.1);
                if ok {
                    let post = self.snap();
                    let (rin, rout) = if d == "ab" { (&pre.r1, &pre.r2) } else { (&pre.r2, &pre.r1) };
                    let e = Self::f_amount_in(pre.total, &want, rin, rout);
                    if o.0 != want || charged != e || charged > mx {
                        tr.fail("C03", "fixed_output_formula", &site,
                            &format!("want {want} delivered {} expected charge {e} charged {charged} max {mx}", o.0));
                    }
                    let back = Self::f_amount_out(pre.total, &charged, rin, rout);
                    if back < want {
                        tr.fail("C03", "fixed_output_charge_sufficient", &site, &format!("charge {charged} buys {back} < {want}"));
                    }
                    self.check_swap_conservation(tr, &site, who, d, &charged, &o.0, &pre, &post);
                    self.check_swap_lock(tr, &site, who, d, &o.0, &pre, &post, &lkd_pre);
                    if let Some((q, v)) = self.last_quote.take() {
                        if q == format!("amountIn {} {}", d, want) && v != charged {
                            tr.fail("C20", "quote_eq_exec.amountIn", &site, &format!("quote {v} exec {charged}"));
                        }
                    }
                }
                ok
            }
            "swapNoFee" => {
                who = w[1].parse().unwrap();
                let c = self.user(who);
                let d = w[2];
                let (tin, tout) = dir_tokens(d);
                let a = big(w[3]);
                let r = self.b.execute_esdt_transfer(&c, &self.pair, tin, 0, &a, |sc| {
                    sc.swap_no_fee(managed_token_id!(tout), ManagedAddress::<DebugApi>::zero());
                });
                let ok = r.result_status == 0;
                if ok {
                    let post = self.snap();
                    let burned = if d == "ab" { &post.burn2 - &pre.burn2 } else { &post.burn1 - &pre.burn1 };
                    outs = format!("{} 0 0", burned);
                }
                ok
            }
            "buyback" => {
                who = w[1].parse().unwrap();
                let c = self.user(who);
                let lp = big(w[2]);
                let tok: &[u8] = match w[3] { "first" => FIRST, "second" => SECOND, _ => CTOK };
                let r = self.b.execute_esdt_transfer(&c, &self.pair, LP, 0, &lp, |sc| {
                    sc.remove_liquidity_and_burn_token(managed_token_id!(tok));
                });
                let ok = r.result_status == 0;
                if ok {
                    let e1 = &lp * &pre.r1 / &pre.s;
                    let e2 = &lp * &pre.r2 / &pre.s;
                    outs = format!("{} {} 0", e1, e2);
                }
                ok
            }
            "setFee" => {
                let (t, s) = (w[1].parse::<u64>().unwrap(), w[2].parse::<u64>().unwrap());
                self.b.execute_tx(&owner, &self.pair, &zero, |sc| sc.set_fee_percent(t, s)).result_status == 0
            }
            "addDest" => {
                self.next_dest += 1;
                let addr = Address::from(&{
                    let mut x = [7u8; 32];
                    x[0..8].copy_from_slice(&self.next_dest.to_be_bytes());
                    x
                });
                let tok: &[u8] = match w[1] { "first" => FIRST, "second" => SECOND, _ => CTOK };
                let ok = self.b.execute_tx(&owner, &self.pair, &zero, |sc| {
                    sc.set_fee_on(true, managed_address!(&addr), managed_token_id!(tok));
                }).result_status == 0;
                if ok {
                    self.dest_addrs.push(addr);
                }
                ok
            }
            "removeDest" => {
                let i: usize = w[1].parse().unwrap();
                if i >= self.dest_addrs.len() {
                    false
                } else {
                    let addr = self.dest_addrs[i].clone();
                    let mut tokv: Vec<u8> = vec![];
                    self.b.execute_query(&self.pair, |sc| {
                        tokv = sc.destination_map().get(&managed_address!(&addr)).unwrap().to_boxed_bytes().into_vec();
                    }).assert_ok();
                    let ok = self.b.execute_tx(&owner, &self.pair, &zero, |sc| {
                        sc.set_fee_on(false, managed_address!(&addr), managed_token_id!(tokv.as_slice()));
                    }).result_status == 0;
                    if ok {
                        self.dest_addrs.remove(i);
                    }
                    ok
                }
            }
            "setCollector" => {
                let cut: u64 = w[1].parse().unwrap();
                let ca = self.coll.address_ref().clone();
                self.b.execute_tx(&owner, &self.pair, &zero, |sc| sc.setup_fees_collector(managed_address!(&ca), cut)).result_status == 0
            }
            "setState" => {
                let st = w[1].to_string();
                self.b.execute_tx(&owner, &self.pair, &zero, |sc| match st.as_str() {
                    "active" => sc.resume(),
                    "inactive" => sc.pause(),
                    _ => sc.set_state_active_no_swaps(),
                }).result_status == 0
            }
            "whitelist" => {
                let c = self.user(w[1].parse().unwrap());
                self.b.execute_tx(&owner, &self.pair, &zero, |sc| sc.whitelist_endpoint(managed_address!(&c))).result_status == 0
            }
            "removeWhitelist" => {
                let c = self.user(w[1].parse().unwrap());
                self.b.execute_tx(&owner, &self.pair, &zero, |sc| sc.remove_whitelist(managed_address!(&c))).result_status == 0
            }
            "setTrusted" => {
                let first = w[1] == "first";
                let xa = if first { self.xf.address_ref().clone() } else { self.xs.address_ref().clone() };
                let t: &[u8] = if first { FIRST } else { SECOND };
                let cur = if first { self.trusted_first } else { self.trusted_second };
                let want_on = w[2] != "none";
                let ok = if want_on && !cur {
                    self.b.execute_tx(&owner, &self.pair, &zero, |sc| {
                        sc.add_trusted_swap_pair(managed_address!(&xa), managed_token_id!(t), managed_token_id!(CTOK))
                    }).result_status == 0
                } else if !want_on && cur {
                    self.b.execute_tx(&owner, &self.pair, &zero, |sc| {
                        sc.remove_trusted_swap_pair(managed_token_id!(CTOK), managed_token_id!(t))
                    }).result_status == 0
                } else {
                    true // already in the requested state: the mirror is just re-synchronised
                };
                if ok {
                    if first { self.trusted_first = want_on } else { self.trusted_second = want_on }
                }
                ok
            }
            "setLockDeadline" | "setLockUnlock" | "setLockSc" => {
                // the caller is part of the op: only callers with owner permissions may configure
                let cid: u64 = w[1].parse().unwrap();
                let c = self.user(cid);
                let ok = match w[0] {
                    "setLockDeadline" => {
                        let e: u64 = w[2].parse().unwrap();
                        self.b.execute_tx(&c, &self.pair, &zero, |sc| sc.set_locking_deadline_epoch(e)).result_status == 0
                    }
                    "setLockUnlock" => {
                        let e: u64 = w[2].parse().unwrap();
                        self.b.execute_tx(&c, &self.pair, &zero, |sc| sc.set_unlock_epoch(e)).result_status == 0
                    }
                    _ => {
                        let target = match w[2] {
                            "sl" => self.lock.address_ref().clone(),
                            "coll" => self.coll.address_ref().clone(),
                            _ => self.users[0].clone(),
                        };
                        self.b.execute_tx(&c, &self.pair, &zero, |sc| sc.set_locking_sc_address(managed_address!(&target))).result_status == 0
                    }
                };
                if ok && cid != 100 {
                    tr.fail("C03", "lock_config_owner_only", &site, &format!("caller u{cid} has no owner permission but the setter succeeded"));
                }
                if cid != 100 { tr.count(if ok { "branch.lockcfg_nonowner_ok" } else { "branch.lockcfg_nonowner_rejected" }); }
                ok
            }
            "epoch" => {
                let e: u64 = w[1].parse().unwrap();
                if e >= self.epoch {
                    self.epoch = e;
                    self.b.set_block_epoch(e);
                    true
                } else {
                    false
                }
            }
            "advance" => {
                let r: u64 = w[1].parse().unwrap();
                if r >= self.round {
                    self.round = r;
                    self.b.set_block_round(r);
                    true
                } else {
                    false
                }
            }
            "xfer" => {
                // plain ESDT transfer between two accounts (protocol built-in, no contract code runs):
                // rejected when the amount is zero or the sender's wallet is short
                let (src, dst): (u64, u64) = (w[1].parse().unwrap(), w[2].parse().unwrap());
                let t: &[u8] = match w[3] { "LP" => LP, "A" => FIRST, "B" => SECOND, other => panic!("unknown token {other}") };
                let amt = big(w[4]);
                let (sa, da) = (self.user(src), self.user(dst));
                let have = self.bal(&sa, t);
                if amt.is_zero() || have < amt {
                    tr.count("branch.xfer_rejected");
                    false
                } else {
                    if sa != da {
                        let hd = self.bal(&da, t);
                        self.b.set_esdt_balance(&sa, t, &(&have - &amt));
                        self.b.set_esdt_balance(&da, t, &(&hd + &amt));
                    }
                    tr.count(&format!("branch.xfer_{}", w[3]));
                    true
                }
            }
            "bad" => {
                // malformed calls: must fail and leave everything unchanged
                who = w[2].parse().unwrap_or(1);
                let c = self.user(who);
                let one = rust_biguint!(1000);
                match (w[1], w[3]) {
                    ("wrongToken", "swapIn") => {
                        self.b.set_esdt_balance(&c, CTOK, &one);
                        let r = self.b.execute_esdt_transfer(&c, &self.pair, CTOK, 0, &one, |sc| {
                            sc.swap_tokens_fixed_input(managed_token_id!(SECOND), managed_biguint!(1u64));
                        });
                        r.result_status == 0
                    }
                    ("sameToken", "swapIn") => {
                        let r = self.b.execute_esdt_transfer(&c, &self.pair, FIRST, 0, &one, |sc| {
                            sc.swap_tokens_fixed_input(managed_token_id!(FIRST), managed_biguint!(1u64));
                        });
                        r.result_status == 0
                    }
                    ("multiPay", kind) => {
                        let extra = w.get(4).copied().unwrap_or("same");
                        let want = BigUint::from(w.get(5).and_then(|x| x.parse::<u64>().ok()).unwrap_or(1000));
                        // no faucet here (the model's ledger mirrors every faucet top-up): use what the caller holds
                        let (h1, h2) = (self.bal(&c, FIRST), self.bal(&c, SECOND));
                        let amt = want.min(&h1 / 2u32).min(h2.clone());
                        if amt.is_zero() {
                            false
                        } else {
                            let second: (&[u8], BigUint) = match extra {
                                "other" => (SECOND, amt.clone()),
                                "lp" => (FIRST, BigUint::one()),
                                _ => (FIRST, amt.clone()),
                            };
                            let transfers = vec![
                                TxTokenTransfer { token_identifier: FIRST.to_vec(), nonce: 0, value: amt.clone() },
                                TxTokenTransfer { token_identifier: second.0.to_vec(), nonce: 0, value: second.1.clone() },
                            ];
                            let to = self.user(who).clone();
                            let r = self.b.execute_esdt_multi_transfer(&c, &self.pair, &transfers, |sc| match kind {
                                "swapOut" => {
                                    let _ = sc.swap_tokens_fixed_output(managed_token_id!(SECOND), managed_biguint!(1u64));
                                }
                                "swapNoFee" => {
                                    let _ = sc.swap_no_fee(managed_token_id!(SECOND), managed_address!(&to));
                                }
                                _ => {
                                    let _ = sc.swap_tokens_fixed_input(managed_token_id!(SECOND), managed_biguint!(1u64));
                                }
                            });
                            let ok = r.result_status == 0;
                            if ok {
                                tr.fail("C03", "single_payment_only", &site, &format!("{kind} accepted a multi-transfer of {} payments", transfers.len()));
                            }
                            ok
                        }
                    }
                    ("lpAsInput", "addLiq") => {
                        let transfers = vec![
                            TxTokenTransfer { token_identifier: SECOND.to_vec(), nonce: 0, value: one.clone() },
                            TxTokenTransfer { token_identifier: FIRST.to_vec(), nonce: 0, value: one.clone() },
                        ];
                        let r = self.b.execute_esdt_multi_transfer(&c, &self.pair, &transfers, |sc| {
                            sc.add_liquidity(managed_biguint!(1u64), managed_biguint!(1u64));
                        });
                        r.result_status == 0
                    }
                    _ => {
                        let r = self.b.execute_esdt_transfer(&c, &self.pair, FIRST, 0, &one, |sc| {
                            sc.remove_liquidity(managed_biguint!(1u64), managed_biguint!(1u64));
                        });
                        r.result_status == 0
                    }
                }
            }
            other => panic!("unknown op {other}"),
        };
        let post = self.snap();
        // what the caller received from the pair, measured on the real balances
        let mut recv = [BigUint::zero(), BigUint::zero(), BigUint::zero(), BigUint::zero()];
        if let (true, Some(cp)) = (ok, cb_pre.as_ref()) {
            let cq = self.caller_bals(caller_id);
            let have = [&cq[0] + &paid.0, &cq[1] + &paid.1, cq[2].clone(), cq[3].clone()];
            for k in 0..4 {
                if have[k] < cp[k] {
                    tr.fail("C03", "caller_deltas", &site, &format!("caller lost more than it paid (slot {k}): before {} after {} paid ({},{})", cp[k], have[k], paid.0, paid.1));
                } else {
                    recv[k] = &have[k] - &cp[k];
                }
            }
        }
        let outs = format!("{} recv={},{} lk={},{}", outs, recv[0], recv[1], recv[2], recv[3]);
        if !post.pairlk.is_zero() {
            tr.fail("C03", "pair_keeps_no_locked_tokens", &site, &format!("pair holds {} LOCKED tokens after the transaction", post.pairlk));
        }
        if post.slk1 != pre.slk1 || post.slk2 != pre.slk2 {
            if !(ok && matches!(w[0], "swapIn" | "swapOut")) {
                tr.fail("C03", "simple_lock_holdings_only_move_on_swaps", &site, &format!("simple-lock holdings ({},{}) -> ({},{})", pre.slk1, pre.slk2, post.slk1, post.slk2));
            }
        }
        self.oracle_common(tr, &site, &pre, &post, ok);
        // C19: a paused (Inactive) pair moves no funds for users; a partially active pair accepts liquidity but no swaps
        if ok {
            let swap = matches!(w[0], "swapIn" | "swapOut" | "swapNoFee");
            let liq = matches!(w[0], "addLiq" | "removeLiq");
            if pre.state == 0 && (swap || liq) {
                tr.fail("C19", "paused_blocks_funds", &site, "a swap / liquidity operation succeeded on an inactive pair");
            }
            if pre.state == 2 && swap {
                tr.fail("C19", "partial_pair_liquidity_only", &site, "a swap succeeded on a partially active pair");
            }
            if pre.state != 0 && w[0] == "addInitial" {
                tr.fail("C19", "bootstrap_only_inactive", &site, "initial liquidity accepted on a pair that is not inactive");
            }
        }
        if ok && who != 0 && matches!(w[0], "swapIn" | "swapOut" | "addLiq" | "removeLiq" | "addInitial" | "swapNoFee" | "buyback") {
            self.others_unchanged(tr, &site, who, &pre, &post);
        }
        if w[0] != "Q" {
            self.last_quote = None;
        }
        if ok {
            tr.count(&format!("ok.{}", site));
            let line = self.state_line(&post);
            tr.res_ok(n, &outs, &line);
            // branch coverage counters
            if post.coll1 != pre.coll1 || post.coll2 != pre.coll2 { tr.count("branch.collector_cut"); }
            if post.burn1 != pre.burn1 || post.burn2 != pre.burn2 { tr.count("branch.burn"); }
            if post.ext1 != pre.ext1 || post.ext2 != pre.ext2 { tr.count("branch.extern_swap"); }
            if matches!(w[0], "swapIn" | "swapOut") {
                if pre.epoch >= pre.lock_deadline { tr.count("branch.swap_plain_locking_off"); }
                else if pre.epoch >= pre.lock_unlock { tr.count("branch.swap_plain_unlock_epoch_reached"); }
                else { tr.count("branch.swap_locked_output"); }
            }
        } else {
            tr.count(&format!("err.{}", site));
            if matches!(w[0], "swapIn" | "swapOut") && pre.epoch < pre.lock_deadline && pre.lock_sc != 1 {
                tr.count("branch.swap_rejected_locking_address_unusable");
            }
            tr.res_err(n);
        }
    }

    fn query(&mut self, tr: &mut Trace, text: &str) {
        let n = tr.query(text);
        let w: Vec<&str> = text.split_whitespace().collect();
        tr.count(&format!("view.{}", w[0]));
        let pre = self.snap();
        let mut val: Option<String> = None;
        let mut enc = BigUint::zero();
        match w[0] {
            "amountOut" | "amountIn" | "equivalent" => {
                let (tin, tout) = dir_tokens(w[1]);
                let a = big(w[2]);
                let kind = w[0].to_string();
                let mut v = BigUint::zero();
                let r = self.b.execute_query(&self.pair, |sc| {
                    let am = multiversx_sc::types::BigUint::from_bytes_be(&a.to_bytes_be());
                    let x = match kind.as_str() {
                        "amountOut" => sc.get_amount_out_view(managed_token_id!(tin), am),
                        "amountIn" => sc.get_amount_in_view(managed_token_id!(tout), am),
                        _ => sc.get_equivalent(managed_token_id!(tin), am),
                    };
                    v = to_big(&x);
                });
                if r.result_status == 0 {
                    val = Some(format!("{}", v));
                    enc = v;
                }
            }
            "position" => {
                let lp = big(w[1]);
                let mut v = (BigUint::zero(), BigUint::zero());
                let r = self.b.execute_query(&self.pair, |sc| {
                    let (a, b) = sc
                        .get_tokens_for_given_position(multiversx_sc::types::BigUint::from_bytes_be(&lp.to_bytes_be()))
                        .into_tuple();
                    v = (to_big(&a.amount), to_big(&b.amount));
                });
                if r.result_status == 0 {
                    val = Some(format!("{} {}", v.0, v.1));
                    enc = (&v.0 << 200u32) + &v.1;
                }
            }
            other => panic!("unknown view {other}"),
        }
        // C20: quoting never changes state
        let post = self.snap();
        if pre.r1 != post.r1 || pre.r2 != post.r2 || pre.s != post.s || pre.bal1 != post.bal1 || pre.bal2 != post.bal2
            || pre.user1 != post.user1 || pre.user2 != post.user2 || pre.userlp != post.userlp
        {
            tr.fail("C20", "view_pure", w[0], "state changed by a view");
        }
        match val {
            Some(v) => {
                self.last_quote = Some((text.to_string(), enc));
                tr.view_ok(n, &v)
            }
            None => {
                self.last_quote = None;
                tr.view_err(n)
            }
        }
    }
}

// --- helpers ---------------------------------------------------------------------------
impl PairWorld {
    /// emit the quote now; the matching operation is issued as the next line
    fn quote_then(&mut self, q: String, next: String) -> (char, String) {
        self.pending.push(next);
        ('Q', q)
    }
    fn x_live(&mut self, first: bool) -> bool {
        let w = if first { &self.xf } else { &self.xs };
        let pa = self.pair.address_ref().clone();
        let mut live = false;
        self.b.execute_query(w, |sc| {
            live = sc.whitelist().contains(&managed_address!(&pa));
        }).assert_ok();
        live
    }
    /// [plain FIRST, plain SECOND, LOCKED wrapping FIRST, LOCKED wrapping SECOND] held by caller `who`
    fn caller_bals(&mut self, who: u64) -> [BigUint; 4] {
        self.discover_locked_nonces();
        let a = self.user(who);
        [self.bal(&a, FIRST), self.bal(&a, SECOND), self.locked_of(&a, 1), self.locked_of(&a, 2)]
    }
    /// LOCKED balance of caller `who` per nonce (index = nonce - 1)
    fn locked_detail(&mut self, who: u64) -> Vec<BigUint> {
        self.discover_locked_nonces();
        let a = self.user(who);
        (0..self.lk_tok.len()).map(|i| self.b.get_esdt_balance(&a, SLK, i as u64 + 1)).collect()
    }
    /// C03, output locking: the caller receives exactly `out` of the output token — as LOCKED
    /// tokens (wrapping that token, unlocking at the configured epoch) while
    /// `epoch < lockingDeadlineEpoch` and the unlock epoch is still ahead, as the plain token
    /// otherwise; never both, never neither; simple-lock's holdings back the LOCKED amount 1:1.
    #[allow(clippy::too_many_arguments)]
    fn check_swap_lock(&mut self, tr: &mut Trace, site: &str, who: u64, d: &str, out: &BigUint, pre: &Snap, post: &Snap, lkd_pre: &[BigUint]) {
        if who == 0 || who as usize > self.users.len() {
            return;
        }
        let i = (who - 1) as usize;
        let ab = d == "ab";
        let (plain_pre, plain_post) = if ab { (&pre.user2[i], &post.user2[i]) } else { (&pre.user1[i], &post.user1[i]) };
        let (lk_out_pre, lk_out_post) = if ab { (&pre.userlk2[i], &post.userlk2[i]) } else { (&pre.userlk1[i], &post.userlk1[i]) };
        let (lk_in_pre, lk_in_post) = if ab { (&pre.userlk1[i], &post.userlk1[i]) } else { (&pre.userlk2[i], &post.userlk2[i]) };
        let (slk_out_pre, slk_out_post, slk_in_pre, slk_in_post) =
            if ab { (&pre.slk2, &post.slk2, &pre.slk1, &post.slk1) } else { (&pre.slk1, &post.slk1, &pre.slk2, &post.slk2) };
        if plain_post < plain_pre || lk_out_post < lk_out_pre {
            tr.fail("C03", "output_locked_or_plain", site, "caller's output-token holdings decreased");
            return;
        }
        let got_plain = plain_post - plain_pre;
        let got_locked = lk_out_post - lk_out_pre;
        let expect_locked = pre.epoch < pre.lock_deadline && pre.epoch < pre.lock_unlock;
        let (ep, el) = if expect_locked { (BigUint::zero(), out.clone()) } else { (out.clone(), BigUint::zero()) };
        if got_plain != ep || got_locked != el || lk_in_post != lk_in_pre {
            tr.fail("C03", "output_locked_or_plain", site,
                &format!("epoch {} deadline {} unlock {}: out {out} expected plain {ep} locked {el}; received plain {got_plain} locked {got_locked} (locked input-token delta {} -> {})",
                    pre.epoch, pre.lock_deadline, pre.lock_unlock, lk_in_pre, lk_in_post));
        }
        if slk_out_post < slk_out_pre || (slk_out_post - slk_out_pre) != got_locked || slk_in_post != slk_in_pre {
            tr.fail("C03", "locked_output_backed", site,
                &format!("simple-lock holdings out-token {} -> {} in-token {} -> {}; LOCKED delivered {got_locked}", slk_out_pre, slk_out_post, slk_in_pre, slk_in_post));
        }
        if pre.epoch < pre.lock_deadline && pre.lock_sc != 1 {
            tr.fail("C03", "lock_needs_simple_lock", site, "swap succeeded while locking is on and the locking address is not simple-lock");
        }
        // the LOCKED tokens received wrap the output token and unlock at the configured epoch
        let lkd_post = self.locked_detail(who);
        let want_tok = if ab { 2u8 } else { 1u8 };
        for (k, q) in lkd_post.iter().enumerate() {
            let p = lkd_pre.get(k).cloned().unwrap_or_else(BigUint::zero);
            if *q != p && (self.lk_tok[k] != want_tok || self.lk_unlock[k] != pre.lock_unlock) {
                tr.fail("C03", "locked_output_attributes", site,
                    &format!("LOCKED nonce {} (token slot {}, unlock {}) changed {} -> {}; expected token slot {want_tok}, unlock {}",
                        k + 1, self.lk_tok[k], self.lk_unlock[k], p, q, pre.lock_unlock));
            }
        }
    }
    #[allow(clippy::too_many_arguments)]
    fn check_swap_conservation(&self, tr: &mut Trace, site: &str, who: u64, d: &str, charged: &BigUint, out: &BigUint, pre: &Snap, post: &Snap) {
        let i = (who - 1) as usize;
        let (pin, pout, qin, qout) = if d == "ab" {
            (&pre.user1[i], &pre.user2[i], &post.user1[i], &post.user2[i])
        } else {
            (&pre.user2[i], &pre.user1[i], &post.user2[i], &post.user1[i])
        };
        let (lpre, lpost) = if d == "ab" { (&pre.userlk2[i], &post.userlk2[i]) } else { (&pre.userlk1[i], &post.userlk1[i]) };
        let received = (qout + lpost) - (pout + lpre); // plain + LOCKED units of the output token
        if pin - qin != *charged || received != *out {
            tr.fail("C03", "caller_deltas", site, &format!("gave {} (expected {charged}) received {} (expected {out})", pin - qin, received));
        }
        let (bal_in_pre, bal_in_post, r_out_pre, r_out_post, bal_out_pre, bal_out_post) = if d == "ab" {
            (&pre.bal1, &post.bal1, &pre.r2, &post.r2, &pre.bal2, &post.bal2)
        } else {
            (&pre.bal2, &post.bal2, &pre.r1, &post.r1, &pre.bal1, &post.bal1)
        };
        // what left the pair on the input side = special fee routed away (burn / collector / trusted pair)
        let gained = bal_in_post - bal_in_pre;
        let max_fee = if pre.fee_on { charged * BigUint::from(pre.special) / BigUint::from(M) } else { BigUint::zero() };
        if &gained > charged || charged - &gained > max_fee {
            tr.fail("C03", "special_fee_bound", site, &format!("charged {charged} pair gained {gained} max special fee {max_fee}"));
        }
        // output side: the pair loses exactly `out` plus whatever a local fee swap bought and burned / forwarded
        let lost = bal_out_pre - bal_out_post;
        if &lost < out || (r_out_pre - r_out_post) != lost {
            tr.fail("C03", "output_side_conservation", site, &format!("pair lost {lost} of the output token, paid {out}, reserve moved {}", r_out_pre - r_out_post));
        }
    }
}

fn tid(t: &multiversx_sc::types::TokenIdentifier<DebugApi>) -> Vec<u8> {
    t.to_boxed_bytes().as_slice().to_vec()
}

fn main() {
    run_world::<PairWorld>();
}
