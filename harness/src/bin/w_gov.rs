//! World `gov`: the real `energy-integration/governance-v2` contract + `energy-factory-mock`
//! (user energies) + a real `fees-collector` (total energy for the quorum snapshot), driven
//! through the white-box VM.  Serves C18.  Model: lean/MxModel/Core/Governance.lean.
//!
//! Setup copied from /repo/energy-integration/governance-v2/tests/gov_test_setup/mod.rs.

use mxharness::*;
use num_bigint::BigUint;
use num_traits::{One, Zero};
use std::collections::BTreeSet;

use multiversx_sc::codec::multi_types::OptionalValue;
use multiversx_sc::types::{Address, BigInt, EsdtLocalRole, ManagedVec, MultiValueEncoded};
use multiversx_sc_scenario::{
    managed_address, managed_biguint, managed_buffer, managed_token_id, rust_biguint,
    whitebox_legacy::*, DebugApi,
};

use energy_factory_mock::EnergyFactoryMock as _;
use energy_query::Energy;
use fees_collector::FeesCollector as _;
use governance_v2::configurable::ConfigurablePropertiesModule as _;
use governance_v2::proposal::GovernanceProposalStatus;
use governance_v2::proposal_storage::{ProposalStorageModule as _, VoteType};
use governance_v2::views::ViewsModule as _;
use governance_v2::GovernanceV2 as _;
use weekly_rewards_splitting::global_info::WeeklyRewardsGlobalInfo as _;

const FEE_TOKEN: &[u8] = b"MEX-123456";
const XMEX: &[u8] = b"XMEX-123456";
const OTHER: &[u8] = b"OTHER-123456";
const FULL: u64 = 10_000;

type GovObj = governance_v2::ContractObj<DebugApi>;
type GovW = ContractObjWrapper<GovObj, fn() -> GovObj>;
type EfObj = energy_factory_mock::ContractObj<DebugApi>;
type EfW = ContractObjWrapper<EfObj, fn() -> EfObj>;
type FcObj = fees_collector::ContractObj<DebugApi>;
type FcW = ContractObjWrapper<FcObj, fn() -> FcObj>;

fn gov_builder() -> GovObj {
    governance_v2::contract_obj()
}
fn ef_builder() -> EfObj {
    energy_factory_mock::contract_obj()
}
fn fc_builder() -> FcObj {
    fees_collector::contract_obj()
}

fn to_big(x: &multiversx_sc::types::BigUint<DebugApi>) -> BigUint {
    BigUint::from_bytes_be(x.to_bytes_be().as_slice())
}
fn mb(x: &BigUint) -> multiversx_sc::types::BigUint<DebugApi> {
    multiversx_sc::types::BigUint::from_bytes_be(&x.to_bytes_be())
}

fn status_name(s: &GovernanceProposalStatus) -> &'static str {
    match s {
        GovernanceProposalStatus::None => "none",
        GovernanceProposalStatus::Pending => "pending",
        GovernanceProposalStatus::Active => "active",
        GovernanceProposalStatus::Defeated => "defeated",
        GovernanceProposalStatus::DefeatedWithVeto => "vetoed",
        GovernanceProposalStatus::Succeeded => "succeeded",
    }
}

#[derive(Clone, Debug, PartialEq, Default)]
struct PSnap {
    status: String,
    exists: bool,
    proposer: u64,
    fee: BigUint,
    min_quorum: u64,
    delay: u64,
    period: u64,
    wpct: u64,
    total_quorum: BigUint,
    start: u64,
    withdrawn: bool,
    up: BigUint,
    down: BigUint,
    veto: BigUint,
    abstain: BigUint,
    quorum: BigUint,
    voters: Vec<u64>,
}

#[derive(Clone, Debug, PartialEq, Default)]
struct Snap {
    block: u64,
    min_energy: BigUint,
    min_fee: BigUint,
    quorum_pct: u64,
    delay: u64,
    period: u64,
    wpct: u64,
    bal: BigUint,
    burned: BigUint,
    total: BigUint,
    props: Vec<PSnap>,
    wallet: Vec<BigUint>,
    energy: Vec<BigUint>,
}

/// the harness's own ledger of what happened (built only from successful calls and the
/// property's text; never read back from the contract)
#[derive(Clone, Debug, Default)]
struct Ledger {
    proposer: u64,
    fee: BigUint,
    start: u64,
    delay: u64,
    period: u64,
    min_quorum: u64,
    wpct: u64,
    total_quorum: Option<BigUint>,
    up: BigUint,
    down: BigUint,
    veto: BigUint,
    abstain: BigUint,
    quorum: BigUint,
    voted: BTreeSet<u64>,
    cancelled: bool,
    withdrawn: bool,
}

impl Ledger {
    /// the documented status function (property C18 text), independent of the contract
    fn status(&self, block: u64) -> &'static str {
        if self.cancelled {
            return "none";
        }
        let vs = self.start + self.delay;
        let ve = vs + self.period;
        if block < vs {
            return "pending";
        }
        if block < ve {
            return "active";
        }
        let tot = &self.up + &self.down + &self.veto + &self.abstain;
        let tq = self.total_quorum.clone().unwrap_or_default();
        let quorum_ok = &self.quorum * BigUint::from(FULL) >= BigUint::from(self.min_quorum) * tq;
        let vetoed = self.veto > &tot / 3u32;
        let half = self.up > &tot / 2u32;
        if quorum_ok && half && !vetoed {
            "succeeded"
        } else if vetoed {
            "vetoed"
        } else {
            "defeated"
        }
    }
}

struct GovWorld {
    b: BlockchainStateWrapper,
    owner: Address,
    users: Vec<Address>,
    gov: GovW,
    ef: EfW,
    fc: FcW,
    block: u64,
    initial_supply: BigUint,
    ledger: Vec<Ledger>,
    pending: Vec<(char, String)>,
}

impl GovWorld {
    fn user(&self, id: u64) -> Option<Address> {
        if id >= 1 && (id as usize) <= self.users.len() {
            Some(self.users[(id - 1) as usize].clone())
        } else {
            None
        }
    }
    fn user_index(&self, a: &Address) -> u64 {
        self.users.iter().position(|u| u == a).map(|i| i as u64 + 1).unwrap_or(0)
    }

    fn snap(&mut self) -> Snap {
        let mut s = Snap { block: self.block, ..Default::default() };
        let users = self.users.clone();
        let mut raw: Vec<(PSnap, Vec<u8>)> = vec![];
        self.b
            .execute_query(&self.gov, |sc| {
                s.min_energy = to_big(&sc.min_energy_for_propose().get());
                s.min_fee = to_big(&sc.min_fee_for_propose().get());
                s.quorum_pct = sc.quorum_percentage().get();
                s.delay = sc.voting_delay_in_blocks().get();
                s.period = sc.voting_period_in_blocks().get();
                s.wpct = sc.withdraw_percentage_defeated().get();
                let n = sc.proposals().len();
                for id in 1..=n {
                    let mut p = PSnap { status: status_name(&sc.get_proposal_status(id)).to_string(), ..Default::default() };
                    let mut proposer_bytes = vec![];
                    if !sc.proposals().item_is_empty(id) {
                        let pr = sc.proposals().get(id);
                        p.exists = true;
                        proposer_bytes = pr.proposer.to_address().as_bytes().to_vec();
                        p.fee = to_big(&pr.fee_payment.amount);
                        p.min_quorum = pr.minimum_quorum;
                        p.delay = pr.voting_delay_in_blocks;
                        p.period = pr.voting_period_in_blocks;
                        p.wpct = pr.withdraw_percentage_defeated;
                        p.total_quorum = to_big(&pr.total_quorum);
                        p.start = pr.proposal_start_block;
                        p.withdrawn = pr.fee_withdrawn;
                        let v = sc.proposal_votes(id).get();
                        p.up = to_big(&v.up_votes);
                        p.down = to_big(&v.down_votes);
                        p.veto = to_big(&v.down_veto_votes);
                        p.abstain = to_big(&v.abstain_votes);
                        p.quorum = to_big(&v.quorum);
                    }
                    for (i, u) in users.iter().enumerate() {
                        if sc.user_voted_proposals(&managed_address!(u)).contains(&id) {
                            p.voters.push(i as u64 + 1);
                        }
                    }
                    raw.push((p, proposer_bytes));
                }
            })
            .assert_ok();
        for (mut p, pb) in raw {
            if p.exists {
                p.proposer = self.user_index(&Address::from_slice(&pb));
            }
            s.props.push(p);
        }
        self.b
            .execute_query(&self.fc, |sc| {
                let w = sc.last_global_update_week().get();
                s.total = to_big(&sc.total_energy_for_week(w).get());
            })
            .assert_ok();
        let mut energies = vec![];
        self.b
            .execute_query(&self.ef, |sc| {
                for u in users.iter() {
                    energies.push(to_big(&sc.get_energy_amount_for_user(managed_address!(u))));
                }
            })
            .assert_ok();
        s.energy = energies;
        s.bal = self.b.get_esdt_balance(self.gov.address_ref(), FEE_TOKEN, 0);
        let mut sum = s.bal.clone();
        for u in users.iter() {
            let w = self.b.get_esdt_balance(u, FEE_TOKEN, 0);
            sum += &w;
            s.wallet.push(w);
        }
        s.burned = &self.initial_supply - &sum;
        s
    }

    fn state_line(&self, s: &Snap) -> String {
        let mut line = format!(
            "blk={} cfg={},{},{},{},{},{} bal={} burned={} total={} np={}",
            s.block, s.min_energy, s.min_fee, s.quorum_pct, s.delay, s.period, s.wpct, s.bal, s.burned, s.total, s.props.len()
        );
        for (i, p) in s.props.iter().enumerate() {
            if !p.exists {
                line += &format!(" P{}=none", i + 1);
            } else {
                let voters: Vec<String> = p.voters.iter().map(|v| v.to_string()).collect();
                line += &format!(
                    " P{}={},{},{},{},{},{},{},{},{},{},{},{},{},{},{},v:{}",
                    i + 1, p.status, p.proposer, p.fee, p.min_quorum, p.delay, p.period, p.wpct, p.total_quorum, p.start,
                    if p.withdrawn { 1 } else { 0 }, p.up, p.down, p.veto, p.abstain, p.quorum, voters.join(";")
                );
            }
        }
        for i in 0..s.wallet.len() {
            line += &format!(" u{}={},{}", i + 1, s.wallet[i], s.energy[i]);
        }
        line
    }

    /// C18 clauses that are statements about one reachable state
    fn oracle_state(&mut self, tr: &mut Trace, site: &str, post: &Snap) {
        if post.props.len() != self.ledger.len() {
            tr.fail("C18", "proposal_ids", site, &format!("contract has {} proposals, {} were accepted", post.props.len(), self.ledger.len()));
            return;
        }
        let mut escrow = BigUint::zero();
        for (i, l) in self.ledger.iter().enumerate() {
            let p = &post.props[i];
            let want = l.status(post.block);
            if p.status != want {
                tr.fail("C18", "status_fn", site,
                    &format!("proposal {} at block {}: expected {} view says {} (start {} delay {} period {} up {} down {} veto {} abstain {} quorum {} of {} min {})",
                        i + 1, post.block, want, p.status, l.start, l.delay, l.period, l.up, l.down, l.veto, l.abstain, l.quorum,
                        l.total_quorum.clone().unwrap_or_default(), l.min_quorum));
            }
            if !l.cancelled {
                if !l.withdrawn {
                    escrow += &l.fee;
                }
                if !p.exists {
                    tr.fail("C18", "proposal_kept", site, &format!("proposal {} vanished", i + 1));
                    continue;
                }
                // tallies are exactly the recorded votes; one vote per address
                if p.up != l.up || p.down != l.down || p.veto != l.veto || p.abstain != l.abstain || p.quorum != l.quorum {
                    tr.fail("C18", "tallies", site, &format!("proposal {} tallies ({},{},{},{},{}) expected ({},{},{},{},{})", i + 1,
                        p.up, p.down, p.veto, p.abstain, p.quorum, l.up, l.down, l.veto, l.abstain, l.quorum));
                }
                let voted: Vec<u64> = l.voted.iter().copied().collect();
                if p.voters != voted {
                    tr.fail("C18", "vote_once", site, &format!("proposal {} voters {:?} expected {:?}", i + 1, p.voters, voted));
                }
                if p.withdrawn != l.withdrawn {
                    tr.fail("C18", "fee_leaves_once", site, &format!("proposal {} fee_withdrawn flag {} expected {}", i + 1, p.withdrawn, l.withdrawn));
                }
                if p.total_quorum != l.total_quorum.clone().unwrap_or_default() {
                    tr.fail("C18", "total_quorum_snapshot", site, &format!("proposal {} total_quorum {} expected {:?}", i + 1, p.total_quorum, l.total_quorum));
                }
                if p.fee != l.fee || p.start != l.start || p.delay != l.delay || p.period != l.period || p.min_quorum != l.min_quorum || p.wpct != l.wpct || p.proposer != l.proposer {
                    tr.fail("C18", "frozen_parameters", site, &format!("proposal {} parameters changed", i + 1));
                }
            } else if p.exists {
                tr.fail("C18", "cancel_rules", site, &format!("cancelled proposal {} still stored", i + 1));
            }
        }
        if post.bal != escrow {
            tr.fail("C18", "fee_escrow_inv", site, &format!("contract holds {} but open proposals escrow {}", post.bal, escrow));
        }
    }

    fn end_status_counters(&self, tr: &mut Trace, l: &Ledger) {
        let tot = &l.up + &l.down + &l.veto + &l.abstain;
        if tot.is_zero() {
            tr.count("end.no_votes");
            return;
        }
        let tq = l.total_quorum.clone().unwrap_or_default();
        let lhs = &l.quorum * BigUint::from(FULL);
        let rhs = BigUint::from(l.min_quorum) * tq;
        if lhs == rhs { tr.count("eq.quorum_exact"); }
        if lhs < rhs { tr.count("end.quorum_missed"); }
        if l.up == &tot / 2u32 { tr.count("eq.up_eq_half"); }
        if l.up == &tot / 2u32 + BigUint::one() { tr.count("eq.up_eq_half_plus1"); }
        if l.veto == &tot / 3u32 && !l.veto.is_zero() { tr.count("eq.veto_eq_third"); }
        if l.veto == &tot / 3u32 + BigUint::one() { tr.count("eq.veto_eq_third_plus1"); }
    }
}

fn square_energy(rng: &mut Rng) -> BigUint {
    // energies whose square root is controlled: p^2, (p+1)^2 - 1, or big
    let p = match rng.below(8) {
        0 => BigUint::one(),
        1 => BigUint::from(2u32),
        2 => BigUint::from(3u32),
        3 => BigUint::from(rng.range(1, 6)),
        4 => BigUint::from(rng.range(1, 1000)),
        5 => pow10(9),
        _ => BigUint::from(rng.range(1, 4)),
    };
    match rng.below(5) {
        0 => (&p + BigUint::one()) * (&p + BigUint::one()) - BigUint::one(),
        1 => &p * &p + BigUint::one(),
        _ => &p * &p,
    }
}

impl World for GovWorld {
    const NAME: &'static str = "gov";

    fn gen_header(rng: &mut Rng, _h: u64, _tier: &str) -> String {
        let len = parse_args().len;
        let min_fee = match rng.below(4) {
            0 => BigUint::from(2_000_000u64) * pow10(18) + BigUint::one(),
            1 => BigUint::from(200_000_000_000u64) * pow10(18) - BigUint::one(),
            2 => pow10(27),
            _ => BigUint::from(rng.range(2_000_001, 9_000_000)) * pow10(18) + BigUint::from(rng.range(0, 9999)),
        };
        let quorum = *rng.pick(&[1000u64, 4000, 5999, 2500, 3333, 5000]);
        let delay = *rng.pick(&[1u64, 1, 2, 3, 10, 100_799]);
        let period = *rng.pick(&[14_400u64, 14_400, 14_401, 20_000, 201_599]);
        let wpct = *rng.pick(&[0u64, 1, 5000, 3333, 9999, 10_000, 2500]);
        let min_energy = match rng.below(4) { 0 => BigUint::zero(), 1 => BigUint::one(), 2 => BigUint::from(9u32), _ => BigUint::from(rng.range(2, 50)) };
        let users = rng.range(3, 6);
        format!("minEnergy={min_energy} minFee={min_fee} quorum={quorum} delay={delay} period={period} wpct={wpct} users={users} len={len}")
    }

    fn new(header: &str) -> Self {
        let zero = rust_biguint!(0);
        let min_energy = big(kv(header, "minEnergy").unwrap_or("0"));
        let min_fee = big(kv(header, "minFee").unwrap_or("1000000000000000000000000000"));
        let quorum = kv_u64(header, "quorum", 4000);
        let delay = kv_u64(header, "delay", 1);
        let period = kv_u64(header, "period", 14_400);
        let wpct = kv_u64(header, "wpct", 5000);
        let nusers = kv_u64(header, "users", 4);
        let mut b = BlockchainStateWrapper::new();
        let owner = b.create_user_account(&zero);
        let funds = pow10(33);
        let mut users = vec![];
        for _ in 0..nusers {
            let u = b.create_user_account(&zero);
            b.set_esdt_balance(&u, FEE_TOKEN, &funds);
            b.set_esdt_balance(&u, OTHER, &funds);
            users.push(u);
        }
        let ef: EfW = b.create_sc_account(&zero, Some(&owner), ef_builder as fn() -> EfObj, "ef.wasm");
        let fc: FcW = b.create_sc_account(&zero, None, fc_builder as fn() -> FcObj, "fc.wasm");
        b.execute_tx(&owner, &ef, &zero, |sc| sc.init()).assert_ok();
        let efa = ef.address_ref().clone();
        b.execute_tx(&owner, &fc, &zero, |sc| {
            sc.init(managed_token_id!(XMEX), managed_address!(&efa));
        })
        .assert_ok();
        let gov: GovW = b.create_sc_account(&zero, Some(&owner), gov_builder as fn() -> GovObj, "gov.wasm");
        let fca = fc.address_ref().clone();
        b.execute_tx(&owner, &gov, &zero, |sc| {
            sc.init(
                mb(&min_energy),
                mb(&min_fee),
                quorum,
                delay,
                period,
                wpct,
                managed_address!(&efa),
                managed_address!(&fca),
                managed_token_id!(FEE_TOKEN),
            );
        })
        .assert_ok();
        b.set_esdt_local_roles(gov.address_ref(), FEE_TOKEN, &[EsdtLocalRole::Mint, EsdtLocalRole::Burn]);
        b.set_block_nonce(0);
        let initial_supply = &funds * BigUint::from(nusers);
        GovWorld { b, owner, users, gov, ef, fc, block: 0, initial_supply, ledger: vec![], pending: vec![] }
    }

    fn gen_line(&mut self, rng: &mut Rng, step: u64, _tier: &str) -> (char, String) {
        if let Some(p) = self.pending.pop() {
            return p;
        }
        let s = self.snap();
        let nu = self.users.len() as u64;
        let u = rng.range(1, nu);
        let np = s.props.len() as u64;
        // bootstrap: energies first
        if step < nu && rng.chance(4, 5) {
            return ('O', format!("setEnergy {} {}", step + 1, square_energy(rng)));
        }
        let live: Vec<u64> = (1..=np).filter(|i| !self.ledger[(*i - 1) as usize].cancelled).collect();
        let by_status = |st: &str| -> Vec<u64> { live.iter().copied().filter(|i| s.props[(*i - 1) as usize].status == st).collect() };
        let pend = by_status("pending");
        let act = by_status("active");
        let ended: Vec<u64> = live.iter().copied().filter(|i| matches!(s.props[(*i - 1) as usize].status.as_str(), "succeeded" | "defeated" | "vetoed")).collect();
        let open_ended: Vec<u64> = ended.iter().copied().filter(|i| !self.ledger[(*i - 1) as usize].withdrawn).collect();
        let any_id = |rng: &mut Rng| -> u64 { if np == 0 || rng.chance(1, 12) { rng.range(0, np + 2) } else { rng.range(1, np) } };
        let kinds = ["up", "down", "veto", "abstain"];

        // ---- lifecycle-driven choice: most of the time do the next meaningful thing for some open proposal
        let open: Vec<u64> = live.iter().copied().filter(|i| !self.ledger[(*i - 1) as usize].withdrawn).collect();
        let third_of = |x: u64| -> u64 { (x % nu) + 1 };
        let mut want_campaign: Option<u64> = None;
        if open.is_empty() || (np < 5 && rng.chance(1, 7)) {
            if rng.chance(5, 6) {
                // a proposer with enough energy, the exact fee
                let able: Vec<u64> = (1..=nu).filter(|i| s.energy[(*i - 1) as usize] >= s.min_energy).collect();
                if able.is_empty() {
                    return ('O', format!("setEnergy {} {}", u, &s.min_energy + BigUint::from(rng.range(0, 3))));
                }
                let who = *rng.pick(&able);
                if s.min_energy > BigUint::zero() && rng.chance(1, 10) {
                    // exactly at / just below the minimum energy
                    let e = if rng.chance(1, 2) { s.min_energy.clone() } else { &s.min_energy - BigUint::one() };
                    self.pending.push(('O', format!("propose {} {}", who, s.min_fee)));
                    return ('O', format!("setEnergy {} {}", who, e));
                }
                return ('O', format!("propose {} {}", who, s.min_fee));
            }
        } else if rng.chance(2, 3) {
            let id = *rng.pick(&open);
            let l = self.ledger[(id - 1) as usize].clone();
            let st = s.props[(id - 1) as usize].status.clone();
            let vs = l.start + l.delay;
            let ve = vs + l.period;
            match st.as_str() {
                "pending" => {
                    match rng.below(10) {
                        0..=2 => {
                            let mut sc = vec![('O', format!("cancel {} {}", third_of(l.proposer), id)), ('Q', format!("status {}", id))];
                            if rng.chance(3, 4) {
                                sc.push(('O', format!("cancel {} {}", l.proposer, id)));
                                sc.push(('O', format!("cancel {} {}", l.proposer, id)));
                                sc.push(('O', format!("withdraw {} {}", l.proposer, id)));
                                sc.push(('O', format!("vote {} {} up", third_of(l.proposer), id)));
                            }
                            sc.reverse();
                            self.pending = sc;
                            return self.pending.pop().unwrap();
                        }
                        3 => return ('O', format!("vote {} {} {}", u, id, rng.pick(&kinds))),
                        4 => return ('O', format!("withdraw {} {}", l.proposer, id)),
                        5 if vs > self.block + 1 => {
                            // last pending block, try to vote / cancel there, then first active block
                            self.pending.push(('O', format!("advance {}", vs)));
                            self.pending.push(('O', format!("vote {} {} up", u, id)));
                            return ('O', format!("advance {}", vs - 1));
                        }
                        _ => return ('O', format!("advance {}", vs)),
                    }
                }
                "active" => {
                    if l.voted.is_empty() && rng.chance(3, 4) {
                        want_campaign = Some(id);
                    } else {
                        match rng.below(10) {
                            0..=3 => return ('O', format!("vote {} {} {}", u, id, rng.pick(&kinds))),
                            4 => return ('O', format!("cancel {} {}", l.proposer, id)),
                            5 => return ('O', format!("withdraw {} {}", l.proposer, id)),
                            6 => {
                                self.pending.push(('O', format!("advance {}", ve)));
                                self.pending.push(('O', format!("vote {} {} {}", u, id, rng.pick(&kinds))));
                                return ('O', format!("advance {}", ve - 1));
                            }
                            _ => return ('O', format!("advance {}", ve + rng.below(2))),
                        }
                    }
                }
                _ => {
                    // ended, fee still in escrow
                    let third = third_of(l.proposer);
                    let mut sc = vec![('Q', format!("status {}", id))];
                    match rng.below(4) {
                        0 => sc.push(('O', format!("withdraw {} {}", l.proposer, id))),
                        1 => { sc.push(('O', format!("withdraw {} {}", third, id))); sc.push(('O', format!("withdraw {} {}", l.proposer, id))); }
                        _ => {
                            sc.push(('O', format!("withdraw {} {}", third, id)));
                            sc.push(('O', format!("vote {} {} up", third, id)));
                            sc.push(('O', format!("withdraw {} {}", l.proposer, id)));
                            sc.push(('O', format!("withdraw {} {}", l.proposer, id)));
                            sc.push(('O', format!("cancel {} {}", l.proposer, id)));
                            sc.push(('O', format!("withdraw {} {}", third, id)));
                        }
                    }
                    sc.reverse();
                    self.pending = sc;
                    return self.pending.pop().unwrap();
                }
            }
        }

        // ---- scripted campaign on a fresh active proposal: engineered tallies and quorum boundary
        if let Some(id) = want_campaign {
            let l = self.ledger[(id - 1) as usize].clone();
            let p = match rng.below(6) { 0 => 1u64, 1 => 2, 2 => 3, 3 => rng.range(1, 9), 4 => rng.range(10, 100000), _ => rng.range(1, 4) };
            let sq = |p: u64, rng: &mut Rng| -> BigUint {
                let b = BigUint::from(p);
                if rng.chance(1, 4) { (&b + 1u32) * (&b + 1u32) - 1u32 } else { &b * &b }
            };
            // (kind, power) per voter
            let mut plan: Vec<(&str, u64)> = match rng.below(9) {
                0 => vec![("up", p), ("down", p)],                       // up == half
                1 => vec![("up", p), ("down", p), ("abstain", 1)],       // up == floor(half), odd total
                2 => vec![("up", p + 1), ("down", p)],                   // up == half + 1
                3 => vec![("veto", p), ("up", 2 * p)],                   // veto == third
                4 => vec![("veto", p + 1), ("up", 2 * p)],               // veto == third + 1
                5 => vec![("veto", p), ("up", p), ("abstain", p)],       // veto == third, up below half
                6 => vec![("up", 2 * p + 1), ("veto", p), ("down", p)],  // succeeded with veto below third
                7 => vec![("veto", p + 1), ("down", p), ("abstain", p)], // vetoed
                _ => (0..rng.range(1, nu)).map(|_| (*rng.pick(&kinds), rng.range(1, 5))).collect(),
            };
            plan.truncate(nu as usize);
            let mut order: Vec<u64> = (1..=nu).collect();
            for i in (1..order.len()).rev() {
                order.swap(i, rng.below(i as u64 + 1) as usize);
            }
            let mut script: Vec<(char, String)> = vec![];
            let mut esum = BigUint::zero();
            let mut votes: Vec<(char, String)> = vec![];
            for (j, (k, pw)) in plan.iter().enumerate() {
                let who = order[j];
                let e = sq(*pw, rng);
                esum += &e;
                script.push(('O', format!("setEnergy {} {}", who, e)));
                votes.push(('O', format!("vote {} {} {}", who, id, k)));
                if rng.chance(1, 5) {
                    votes.push(('O', format!("vote {} {} {}", who, id, rng.pick(&kinds)))); // second vote: must fail
                }
            }
            // quorum boundary: minQ * T <= E * 10000
            let t_exact = &esum * BigUint::from(FULL) / BigUint::from(l.min_quorum.max(1));
            let total = match rng.below(7) {
                0 | 1 => t_exact.clone(),
                2 => &t_exact + BigUint::one(),
                3 => if t_exact.is_zero() { t_exact.clone() } else { &t_exact - BigUint::one() },
                4 => BigUint::zero(),
                5 => &t_exact * 3u32,
                _ => esum.clone(),
            };
            script.push(('O', format!("setTotal {}", total)));
            script.extend(votes);
            if rng.chance(1, 3) {
                script.push(('O', format!("setTotal {}", &total * 7u32 + 1u32))); // later changes must not matter
            }
            let ve = l.start + l.delay + l.period;
            match rng.below(4) {
                0 => { script.push(('O', format!("advance {}", ve - 1))); script.push(('Q', format!("status {}", id))); script.push(('O', format!("advance {}", ve))); }
                1 => script.push(('O', format!("advance {}", ve))),
                2 => script.push(('O', format!("advance {}", ve + 1))),
                _ => {}
            }
            if rng.chance(2, 3) {
                script.push(('Q', format!("status {}", id)));
                let third = (l.proposer % nu) + 1;
                script.push(('O', format!("withdraw {} {}", third, id)));
                script.push(('O', format!("withdraw {} {}", l.proposer, id)));
                script.push(('O', format!("withdraw {} {}", l.proposer, id)));
                script.push(('O', format!("cancel {} {}", l.proposer, id)));
                script.push(('O', format!("withdraw {} {}", third, id)));
            }
            script.reverse();
            self.pending = script;
            return self.pending.pop().unwrap();
        }

        let k = rng.weighted(&[
            if np < 6 { 10 } else { 1 }, // 0 propose
            12,                           // 1 vote
            5,                            // 2 cancel
            8,                            // 3 withdraw
            10,                           // 4 advance
            10,                           // 5 cfg
            4,                            // 6 setEnergy
            3,                            // 7 setTotal
            5,                            // 8 claim
            5,                            // 9 queries
            6,                            // 10 malformed
        ]);
        match k {
            0 => {
                let fee = match rng.below(8) {
                    0 => &s.min_fee + BigUint::one(),
                    1 => &s.min_fee - BigUint::one(),
                    _ => s.min_fee.clone(),
                };
                // cancel attempts right away (pending lasts `delay` blocks only)
                if rng.chance(1, 3) {
                    let id = np + 1;
                    let third = (u % nu) + 1;
                    let mut sc = vec![('O', format!("cancel {} {}", third, id)), ('Q', format!("status {}", id))];
                    if rng.chance(2, 3) {
                        sc.push(('O', format!("cancel {} {}", u, id)));
                        sc.push(('O', format!("cancel {} {}", u, id)));
                        sc.push(('O', format!("withdraw {} {}", u, id)));
                        sc.push(('O', format!("vote {} {} up", third, id)));
                    }
                    sc.reverse();
                    self.pending = sc;
                }
                ('O', format!("propose {} {}", u, fee))
            }
            1 => {
                let id = if !act.is_empty() && rng.chance(5, 6) { *rng.pick(&act) } else { any_id(rng) };
                ('O', format!("vote {} {} {}", u, id, rng.pick(&kinds)))
            }
            2 => {
                let id = if !pend.is_empty() && rng.chance(3, 4) { *rng.pick(&pend) } else { any_id(rng) };
                let who = if id >= 1 && id <= np && rng.chance(2, 3) { self.ledger[(id - 1) as usize].proposer } else { u };
                ('O', format!("cancel {} {}", who, id))
            }
            3 => {
                let id = if !open_ended.is_empty() && rng.chance(3, 4) { *rng.pick(&open_ended) } else if !ended.is_empty() && rng.chance(1, 2) { *rng.pick(&ended) } else { any_id(rng) };
                let who = if id >= 1 && id <= np && rng.chance(1, 2) { self.ledger[(id - 1) as usize].proposer } else { u };
                ('O', format!("withdraw {} {}", who, id))
            }
            4 => {
                // blocks around the delay / period boundaries of live proposals
                let mut cands: Vec<u64> = vec![self.block + 1];
                for i in live.iter() {
                    let l = &self.ledger[(*i - 1) as usize];
                    let vs = l.start + l.delay;
                    let ve = vs + l.period;
                    for x in [vs.saturating_sub(1), vs, vs + 1, ve - 1, ve, ve + 1] {
                        if x > self.block {
                            cands.push(x);
                        }
                    }
                }
                cands.sort();
                cands.dedup();
                let nb = match rng.below(10) {
                    0..=2 => self.block + 1,
                    3..=7 => *rng.pick(&cands[..cands.len().min(4)]),
                    8 => self.block,
                    _ => if self.block > 0 && rng.chance(1, 2) { self.block - 1 } else { self.block + rng.range(2, 20000) },
                };
                ('O', format!("advance {}", nb))
            }
            5 => {
                let (name, x) = match rng.below(6) {
                    0 => ("minEnergy", match rng.below(3) { 0 => BigUint::zero(), 1 => BigUint::from(rng.range(1, 30)), _ => pow10(20) }),
                    1 => ("minFee", match rng.below(5) {
                        0 => BigUint::from(2_000_000u64) * pow10(18),          // = lower bound: rejected
                        1 => BigUint::from(2_000_000u64) * pow10(18) + 1u32,
                        2 => BigUint::from(200_000_000_000u64) * pow10(18),    // = upper bound: rejected
                        _ => BigUint::from(rng.range(2_000_001, 90_000_000)) * pow10(18),
                    }),
                    2 => ("quorum", BigUint::from(*rng.pick(&[999u64, 1000, 1001, 3000, 5999, 6000, 4000]))),
                    3 => ("delay", BigUint::from(*rng.pick(&[0u64, 1, 2, 5, 100_799, 100_800]))),
                    4 => ("period", BigUint::from(*rng.pick(&[14_399u64, 14_400, 14_401, 201_599, 201_600, 15_000]))),
                    _ => ("wpct", BigUint::from(*rng.pick(&[0u64, 1, 3333, 5000, 9999, 10_000, 10_001]))),
                };
                ('O', format!("cfg {} {}", name, x))
            }
            6 => {
                let e = if rng.chance(1, 6) { BigUint::zero() } else if rng.chance(1, 5) { rng.magnitude(30) } else { square_energy(rng) };
                ('O', format!("setEnergy {} {}", if rng.chance(1, 15) { nu + 1 } else { u }, e))
            }
            7 => {
                let sum: BigUint = s.energy.iter().sum();
                let x = match rng.below(5) { 0 => BigUint::zero(), 1 => sum.clone(), 2 => &sum * 2u32, 3 => &sum * 10u32 + 1u32, _ => rng.magnitude(24) };
                ('O', format!("setTotal {}", x))
            }
            8 => ('O', format!("claim {}", u)),
            9 => {
                let id = any_id(rng);
                if rng.chance(2, 3) { ('Q', format!("status {}", id)) } else { ('Q', format!("votes {}", id)) }
            }
            _ => match rng.below(6) {
                0 => ('O', format!("bad propose {} wrongtoken", u)),
                1 => ('O', format!("bad propose {} actions5", u)),
                2 => ('O', format!("bad propose {} gas", u)),
                3 => ('O', format!("bad propose {} sc", u)),
                4 => ('O', format!("propose {} 0", u)),
                _ => ('O', format!("vote {} {} up", nu + 1, any_id(rng))),
            },
        }
    }

    fn exec(&mut self, tr: &mut Trace, text: &str) {
        let n = tr.op(text);
        let w: Vec<&str> = text.split_whitespace().collect();
        let site = w[0].to_string();
        tr.count(&format!("op.{}", site));
        let pre = self.snap();
        let zero = rust_biguint!(0);
        let owner = self.owner.clone();
        let mut outs = String::from("0 0 0");
        let propose_call = |b: &mut BlockchainStateWrapper, gov: &GovW, c: &Address, token: &[u8], fee: &BigUint, nactions: usize, gas: u64| -> (bool, usize) {
            let mut pid = 0usize;
            let dest = gov.address_ref().clone();
            let r = b.execute_esdt_transfer(c, gov, token, 0, fee, |sc| {
                let mut actions = MultiValueEncoded::new();
                for _ in 0..nactions {
                    let mut args = ManagedVec::new();
                    args.push(managed_buffer!(&1_000u64.to_be_bytes()));
                    actions.push((gas, managed_address!(&dest), managed_buffer!(b"changeTODO"), args).into());
                }
                pid = sc.propose(managed_buffer!(b"proposal"), actions);
            });
            (r.result_status == 0, pid)
        };
        let ok: bool = match w[0] {
            "propose" => {
                let who: u64 = w[1].parse().unwrap();
                let fee = big(w[2]);
                match self.user(who).filter(|_| !fee.is_zero()) {
                    None => false,
                    Some(c) => {
                        let (ok, pid) = propose_call(&mut self.b, &self.gov, &c, FEE_TOKEN, &fee, 1, 1_000_000);
                        if ok {
                            outs = format!("{} 0 0", pid);
                            let i = (who - 1) as usize;
                            if pre.energy[i] < pre.min_energy {
                                tr.fail("C18", "propose_rules", &site, &format!("energy {} below minimum {}", pre.energy[i], pre.min_energy));
                            }
                            if fee != pre.min_fee {
                                tr.fail("C18", "propose_rules", &site, &format!("fee {} accepted, configured {}", fee, pre.min_fee));
                            }
                            if pid as u64 != pre.props.len() as u64 + 1 {
                                tr.fail("C18", "proposal_ids", &site, &format!("id {} after {} proposals", pid, pre.props.len()));
                            }
                            self.ledger.push(Ledger {
                                proposer: who, fee: fee.clone(), start: pre.block, delay: pre.delay, period: pre.period,
                                min_quorum: pre.quorum_pct, wpct: pre.wpct, ..Default::default()
                            });
                        } else if fee == pre.min_fee && pre.energy[(who - 1) as usize] >= pre.min_energy {
                            tr.fail("C18", "propose_rules", &site, "well-formed proposal with the exact fee and enough energy was rejected");
                        }
                        ok
                    }
                }
            }
            "vote" => {
                let who: u64 = w[1].parse().unwrap();
                let id: usize = w[2].parse().unwrap();
                let kind = w[3].to_string();
                match self.user(who) {
                    None => false,
                    Some(c) => {
                        let r = self.b.execute_tx(&c, &self.gov, &zero, |sc| {
                            let v = match kind.as_str() {
                                "up" => VoteType::UpVote,
                                "down" => VoteType::DownVote,
                                "veto" => VoteType::DownVetoVote,
                                _ => VoteType::AbstainVote,
                            };
                            sc.vote(id, v);
                        });
                        let ok = r.result_status == 0;
                        let e = pre.energy[(who - 1) as usize].clone();
                        let valid = id >= 1 && id <= self.ledger.len();
                        let expect_ok = valid && {
                            let l = &self.ledger[id - 1];
                            l.status(pre.block) == "active" && !l.voted.contains(&who) && !e.is_zero()
                        };
                        if ok && !expect_ok {
                            let l = &self.ledger[(id.max(1) - 1).min(self.ledger.len().saturating_sub(1))];
                            let clause = if valid && l.voted.contains(&who) { "vote_once" } else if valid && l.status(pre.block) != "active" { "vote_only_active" } else { "vote_rules" };
                            tr.fail("C18", clause, &site, &format!("vote by u{} on {} accepted (energy {})", who, id, e));
                        }
                        if !ok && expect_ok {
                            tr.fail("C18", "vote_rules", &site, &format!("first vote of u{} with energy {} on active proposal {} rejected", who, e, id));
                        }
                        if ok && valid {
                            let power = e.sqrt();
                            outs = format!("{} {} 0", power, e);
                            let l = &mut self.ledger[id - 1];
                            if l.quorum.is_zero() && l.total_quorum.is_none() {
                                l.total_quorum = Some(pre.total.clone());
                            }
                            match kind.as_str() {
                                "up" => l.up += &power,
                                "down" => l.down += &power,
                                "veto" => l.veto += &power,
                                _ => l.abstain += &power,
                            }
                            l.quorum += &e;
                            l.voted.insert(who);
                            // power = floor(sqrt(energy)), checked on what the contract actually added
                            let post = self.snap();
                            let (a, b2) = (&pre.props[id - 1], &post.props[id - 1]);
                            let added = (&b2.up + &b2.down + &b2.veto + &b2.abstain) - (&a.up + &a.down + &a.veto + &a.abstain);
                            if !(&added * &added <= e && e < (&added + 1u32) * (&added + 1u32)) || &b2.quorum - &a.quorum != e {
                                tr.fail("C18", "power_is_sqrt_energy", &site, &format!("energy {} added power {} quorum {}", e, added, &b2.quorum - &a.quorum));
                            }
                            if &added * &added == e { tr.count("branch.energy_perfect_square"); }
                            if (&added + 1u32) * (&added + 1u32) == &e + 1u32 { tr.count("branch.energy_square_minus1"); }
                        }
                        ok
                    }
                }
            }
            "cancel" => {
                let who: u64 = w[1].parse().unwrap();
                let id: usize = w[2].parse().unwrap();
                match self.user(who) {
                    None => false,
                    Some(c) => {
                        let r = self.b.execute_tx(&c, &self.gov, &zero, |sc| sc.cancel(id));
                        let ok = r.result_status == 0;
                        let valid = id >= 1 && id <= self.ledger.len();
                        let expect_ok = valid && {
                            let l = &self.ledger[id - 1];
                            l.status(pre.block) == "pending" && l.proposer == who
                        };
                        if ok != expect_ok {
                            tr.fail("C18", "cancel_rules", &site, &format!("cancel of {} by u{} {} (expected {})", id, who, if ok { "accepted" } else { "rejected" }, if expect_ok { "accepted" } else { "rejected" }));
                        }
                        if ok && valid {
                            let post = self.snap();
                            let l = &mut self.ledger[id - 1];
                            let i = (l.proposer - 1) as usize;
                            if l.cancelled || l.withdrawn {
                                tr.fail("C18", "fee_leaves_once", &site, &format!("fee of proposal {} left escrow twice", id));
                            }
                            if post.wallet[i] != &pre.wallet[i] + &l.fee || post.bal != &pre.bal - &l.fee || post.burned != pre.burned {
                                tr.fail("C18", "cancel_refund", &site, &format!("cancel must refund the whole fee {} to the proposer", l.fee));
                            }
                            outs = format!("{} 0 0", l.fee);
                            l.cancelled = true;
                        }
                        ok
                    }
                }
            }
            "withdraw" => {
                let who: u64 = w[1].parse().unwrap();
                let id: usize = w[2].parse().unwrap();
                match self.user(who) {
                    None => false,
                    Some(c) => {
                        let r = self.b.execute_tx(&c, &self.gov, &zero, |sc| sc.withdraw_deposit(id));
                        let ok = r.result_status == 0;
                        let valid = id >= 1 && id <= self.ledger.len();
                        let st = if valid { self.ledger[id - 1].status(pre.block) } else { "none" };
                        let expect_ok = valid && {
                            let l = &self.ledger[id - 1];
                            !l.withdrawn && match st {
                                "succeeded" | "defeated" => l.proposer == who,
                                "vetoed" => true,
                                _ => false,
                            }
                        };
                        if ok != expect_ok {
                            let clause = if ok && valid && self.ledger[id - 1].withdrawn { "fee_leaves_once" } else { "withdraw_rules" };
                            tr.fail("C18", clause, &site, &format!("withdrawDeposit of {} (status {}) by u{} {}", id, st, who, if ok { "accepted" } else { "rejected" }));
                        }
                        if ok && valid {
                            let post = self.snap();
                            let l = &mut self.ledger[id - 1];
                            let i = (l.proposer - 1) as usize;
                            let (refund, burn) = if st == "vetoed" {
                                let r = BigUint::from(l.wpct) * &l.fee / BigUint::from(FULL);
                                (r.clone(), &l.fee - &r)
                            } else {
                                (l.fee.clone(), BigUint::zero())
                            };
                            if post.wallet[i] != &pre.wallet[i] + &refund || post.burned != &pre.burned + &burn || post.bal != &pre.bal - &l.fee {
                                tr.fail("C18", if st == "vetoed" { "veto_split" } else { "full_refund" }, &site,
                                    &format!("status {} fee {} pct {}: expected refund {} burn {}; proposer got {} burned {} escrow moved {}", st, l.fee, l.wpct, refund, burn,
                                        &post.wallet[i] - &pre.wallet[i], &post.burned - &pre.burned, &pre.bal - &post.bal));
                            }
                            for j in 0..self.users.len() {
                                if j != i && post.wallet[j] != pre.wallet[j] {
                                    tr.fail("C18", "refund_to_proposer_only", &site, &format!("wallet of u{} moved", j + 1));
                                }
                            }
                            outs = format!("{} {} 0", refund, burn);
                            l.withdrawn = true;
                            tr.count(&format!("ok.withdraw.{}", st));
                            if st == "vetoed" && l.proposer != who { tr.count("branch.veto_withdraw_by_third_party"); }
                            let lc = l.clone();
                            self.end_status_counters(tr, &lc);
                        }
                        ok
                    }
                }
            }
            "cfg" => {
                let x = big(w[2]);
                let xu = x.iter_u64_digits().next().unwrap_or(0);
                let small = x.bits() <= 64;
                let name = w[1].to_string();
                if !small && name != "minEnergy" && name != "minFee" {
                    false
                } else {
                    let r = self.b.execute_tx(&owner, &self.gov, &zero, |sc| match name.as_str() {
                        "minEnergy" => sc.change_min_energy_for_propose(mb(&x)),
                        "minFee" => sc.change_min_fee_for_propose(mb(&x)),
                        "quorum" => sc.change_quorum_percentage(xu),
                        "delay" => sc.change_voting_delay_in_blocks(xu),
                        "period" => sc.change_voting_period_in_blocks(xu),
                        _ => sc.change_withdraw_percentage(xu),
                    });
                    r.result_status == 0
                }
            }
            "setEnergy" => {
                let who: u64 = w[1].parse().unwrap();
                let e = big(w[2]);
                match self.user(who) {
                    None => false,
                    Some(c) => {
                        self.b
                            .execute_tx(&owner, &self.ef, &zero, |sc| {
                                sc.user_energy(&managed_address!(&c)).set(&Energy::new(BigInt::from(mb(&e)), 0, managed_biguint!(0)));
                            })
                            .result_status
                            == 0
                    }
                }
            }
            "setTotal" => {
                let x = big(w[1]);
                self.b
                    .execute_tx(&owner, &self.fc, &zero, |sc| {
                        sc.last_global_update_week().set(1);
                        sc.total_energy_for_week(1).set(&mb(&x));
                    })
                    .result_status
                    == 0
            }
            "claim" => {
                let who: u64 = w[1].parse().unwrap();
                match self.user(who) {
                    None => false,
                    Some(c) => {
                        self.b
                            .execute_tx(&c, &self.fc, &zero, |sc| {
                                sc.claim_rewards_endpoint(OptionalValue::None);
                            })
                            .result_status
                            == 0
                    }
                }
            }
            "advance" => {
                let nb: u64 = w[1].parse().unwrap();
                if nb >= self.block {
                    self.block = nb;
                    self.b.set_block_nonce(nb);
                    true
                } else {
                    false
                }
            }
            "bad" => {
                let who: u64 = w[2].parse().unwrap_or(1);
                let c = self.user(who).unwrap_or_else(|| self.users[0].clone());
                let fee = pre.min_fee.clone();
                match w[3] {
                    "wrongtoken" => propose_call(&mut self.b, &self.gov, &c, OTHER, &fee, 1, 1_000_000).0,
                    "actions5" => propose_call(&mut self.b, &self.gov, &c, FEE_TOKEN, &fee, 5, 1_000_000).0,
                    "gas" => propose_call(&mut self.b, &self.gov, &c, FEE_TOKEN, &fee, 1, 600_000_000).0,
                    _ => {
                        // a smart contract as proposer
                        let sca = self.ef.address_ref().clone();
                        self.b.set_esdt_balance(&sca, FEE_TOKEN, &fee);
                        let r = propose_call(&mut self.b, &self.gov, &sca, FEE_TOKEN, &fee, 1, 1_000_000).0;
                        self.b.set_esdt_balance(&sca, FEE_TOKEN, &BigUint::zero());
                        r
                    }
                }
            }
            other => panic!("unknown op {other}"),
        };
        let post = self.snap();
        self.oracle_state(tr, &site, &post);
        if !ok && pre != post {
            tr.fail("C18", "failed_tx_changes_state", &site, "observable state differs after a failed transaction");
        }
        if ok {
            tr.count(&format!("ok.{}", site));
            let line = self.state_line(&post);
            tr.res_ok(n, &outs, &line);
        } else {
            tr.count(&format!("err.{}", site));
            tr.res_err(n);
        }
    }

    fn query(&mut self, tr: &mut Trace, text: &str) {
        let n = tr.query(text);
        let w: Vec<&str> = text.split_whitespace().collect();
        tr.count(&format!("view.{}", w[0]));
        let pre = self.snap();
        let id: usize = w[1].parse().unwrap();
        let mut val: Option<String> = None;
        match w[0] {
            "status" => {
                let mut st = "";
                let r = self.b.execute_query(&self.gov, |sc| {
                    st = status_name(&sc.get_proposal_status(id));
                });
                if r.result_status == 0 {
                    val = Some(st.to_string());
                    tr.count(&format!("status.{}", st));
                    let want = if id >= 1 && id <= self.ledger.len() { self.ledger[id - 1].status(pre.block) } else { "none" };
                    if st != want {
                        tr.fail("C18", "status_fn", "status", &format!("proposal {} expected {} view says {}", id, want, st));
                    }
                }
            }
            "votes" => {
                if id >= 1 && id <= pre.props.len() && pre.props[id - 1].exists {
                    let p = &pre.props[id - 1];
                    val = Some(format!("{} {} {} {} {}", p.up, p.down, p.veto, p.abstain, p.quorum));
                }
            }
            other => panic!("unknown view {other}"),
        }
        let post = self.snap();
        if pre != post {
            tr.fail("C18", "view_changes_state", w[0], "state changed by a view");
        }
        match val {
            Some(v) => tr.view_ok(n, &v),
            None => tr.view_err(n),
        }
    }
}

fn main() {
    run_world::<GovWorld>();
}
