//! World `metastaking`: the real `farm-staking-proxy` deployed with the real contracts it calls
//! (pair, farm-with-locked-rewards as LP farm, farm-staking, energy factory, permissions hub),
//! set up the way farm-staking-proxy/tests/staking_farm_with_lp_* do.  Serves C15.
//! Model: lean/MxModel/Core/DualYield.lean (the proxy's own bookkeeping; what the callees
//! returned is recorded in the op text by this harness).
//!
//! Op texts: `gen_line` emits the REQUEST words; `exec` runs the request on the real contracts
//! and writes the op line with the resolved words appended (`auth= callee= lpfarm= -> responses`).
//! On replay everything after the request words is ignored and recomputed.

use mxharness::*;
use num_bigint::BigUint;
use num_traits::{One, Zero};
use std::collections::BTreeMap;

use multiversx_sc::codec::multi_types::OptionalValue;
use multiversx_sc::contract_base::ContractBase as _;
use multiversx_sc::storage::mappers::StorageTokenWrapper;
use multiversx_sc::types::{Address, BigInt, EsdtLocalRole, ManagedAddress, MultiValueEncoded};
use multiversx_sc_scenario::{
    managed_address, managed_biguint, managed_token_id, rust_biguint, whitebox_legacy::*, DebugApi,
};

use config::ConfigModule as _;
use energy_factory::energy::{Energy, EnergyModule as _};
use energy_factory::token_whitelist::TokenWhitelistModule as _;
use energy_factory::SimpleLockEnergy as _;
use energy_query::EnergyQueryModule as _;
use farm::exit_penalty::ExitPenaltyModule as _;
use farm_boosted_yields::boosted_yields_factors::BoostedYieldsFactorsModule as _;
use farm_staking::custom_rewards::CustomRewardsModule as _;
use farm_staking::stake_farm::StakeFarmModule as _;
use farm_staking::FarmStaking as _;
use farm_staking_proxy::dual_yield_token::DualYieldTokenModule as _;
use farm_staking_proxy::proxy_actions::claim::ProxyClaimModule as _;
use farm_staking_proxy::proxy_actions::external_interaction::ProxyExternalInteractionsModule as _;
use farm_staking_proxy::proxy_actions::stake::ProxyStakeModule as _;
use farm_staking_proxy::proxy_actions::unstake::ProxyUnstakeModule as _;
use farm_staking_proxy::FarmStakingProxy as _;
use farm_token::FarmTokenModule as _;
use farm_with_locked_rewards::Farm as _;
use locking_module::lock_with_energy_module::LockWithEnergyModule as _;
use multiversx_sc_modules::pause::PauseModule as _;
use pair::config::ConfigModule as _;
use pair::pair_actions::add_liq::AddLiquidityModule as _;
use pair::pair_actions::swap::SwapModule as _;
use pair::pair_actions::views::ViewsModule as _;
use pair::safe_price_view::SafePriceViewModule as _;
use pair::Pair as _;
use pausable::{PausableModule as _, State};
use permissions_hub::PermissionsHub as _;
use permissions_hub_module::PermissionsHubModule as _;
use sc_whitelist_module::SCWhitelistModule as _;
use simple_lock::locked_token::LockedTokenModule as _;

const WEGLD: &[u8] = b"WEGLD-abcdef"; // first pool token  ("other" token)
const RIDE: &[u8] = b"RIDE-abcdef"; // second pool token = staking token = staking reward token
const LPTOK: &[u8] = b"LPTOK-abcdef";
const LPFARM: &[u8] = b"LPFARM-abcdef";
const STKFARM: &[u8] = b"STKFARM-abcdef";
const DYIELD: &[u8] = b"DYIELD-abcdef";
const MEX: &[u8] = b"MEX-123456";
const LOCKED: &[u8] = b"LOCKED-123456";
const LEGACY: &[u8] = b"LEGACY-123456";
const DIVC: u64 = 1_000_000_000_000;
const MAX_PERCENT: u64 = 10_000;

type PairObj = pair::ContractObj<DebugApi>;
type PairW = ContractObjWrapper<PairObj, fn() -> PairObj>;
type FarmObj = farm_with_locked_rewards::ContractObj<DebugApi>;
type FarmW = ContractObjWrapper<FarmObj, fn() -> FarmObj>;
type StkObj = farm_staking::ContractObj<DebugApi>;
type StkW = ContractObjWrapper<StkObj, fn() -> StkObj>;
type PrxObj = farm_staking_proxy::ContractObj<DebugApi>;
type PrxW = ContractObjWrapper<PrxObj, fn() -> PrxObj>;
type EfObj = energy_factory::ContractObj<DebugApi>;
type EfW = ContractObjWrapper<EfObj, fn() -> EfObj>;
type HubObj = permissions_hub::ContractObj<DebugApi>;
type HubW = ContractObjWrapper<HubObj, fn() -> HubObj>;

fn pair_builder() -> PairObj { pair::contract_obj() }
fn farm_builder() -> FarmObj { farm_with_locked_rewards::contract_obj() }
fn stk_builder() -> StkObj { farm_staking::contract_obj() }
fn prx_builder() -> PrxObj { farm_staking_proxy::contract_obj() }
fn ef_builder() -> EfObj { energy_factory::contract_obj() }
fn hub_builder() -> HubObj { permissions_hub::contract_obj() }

type MB = multiversx_sc::types::BigUint<DebugApi>;
fn to_big(x: &MB) -> BigUint { BigUint::from_bytes_be(x.to_bytes_be().as_slice()) }
fn mb(x: &BigUint) -> MB { MB::from_bytes_be(&x.to_bytes_be()) }

// ---- raw attribute decoding (nested encoding of the attribute structs) -------------------
fn rd_big(raw: &[u8], pos: &mut usize) -> BigUint {
    let mut l4 = [0u8; 4];
    l4.copy_from_slice(&raw[*pos..*pos + 4]);
    let l = u32::from_be_bytes(l4) as usize;
    *pos += 4;
    let v = BigUint::from_bytes_be(&raw[*pos..*pos + l]);
    *pos += l;
    v
}
fn rd_u64(raw: &[u8], pos: &mut usize) -> u64 {
    let mut x = [0u8; 8];
    x.copy_from_slice(&raw[*pos..*pos + 8]);
    *pos += 8;
    u64::from_be_bytes(x)
}
#[derive(Clone, Debug, PartialEq, Default)]
struct DyAttr { lp_n: u64, lp_a: BigUint, st_n: u64, st_a: BigUint }
fn dec_dy(raw: &[u8]) -> DyAttr {
    let mut p = 0;
    let lp_n = rd_u64(raw, &mut p);
    let lp_a = rd_big(raw, &mut p);
    let st_n = rd_u64(raw, &mut p);
    let st_a = rd_big(raw, &mut p);
    DyAttr { lp_n, lp_a, st_n, st_a }
}
/// FarmTokenAttributes: (entering_epoch, original_owner)
fn dec_lpfarm(raw: &[u8]) -> (u64, Vec<u8>) {
    let mut p = 0;
    let _rps = rd_big(raw, &mut p);
    let e = rd_u64(raw, &mut p);
    let _c = rd_big(raw, &mut p);
    let _cur = rd_big(raw, &mut p);
    (e, raw[p..].to_vec())
}
/// StakingFarmTokenAttributes: original_owner
fn dec_stk_owner(raw: &[u8]) -> Vec<u8> {
    let mut p = 0;
    let _rps = rd_big(raw, &mut p);
    let _c = rd_big(raw, &mut p);
    let _cur = rd_big(raw, &mut p);
    raw[p..].to_vec()
}

type NMap = BTreeMap<u64, BigUint>;
fn show_nmap(m: &NMap) -> String {
    let v: Vec<String> = m.iter().filter(|(_, a)| !a.is_zero()).map(|(n, a)| format!("{n}:{a}")).collect();
    if v.is_empty() { "-".into() } else { v.join(",") }
}
fn nget(m: &NMap, n: u64) -> BigUint { m.get(&n).cloned().unwrap_or_default() }
/// nonces whose balance grew: (nonce, growth)
fn grown(pre: &NMap, post: &NMap) -> Vec<(u64, BigUint)> {
    post.iter().filter_map(|(n, a)| { let p = nget(pre, *n); if *a > p { Some((*n, a - p)) } else { None } }).collect()
}
fn shrunk(pre: &NMap, post: &NMap) -> Vec<(u64, BigUint)> {
    pre.iter().filter_map(|(n, a)| { let p = nget(post, *n); if *a > p { Some((*n, a - p)) } else { None } }).collect()
}
fn nsum(m: &NMap) -> BigUint { m.values().fold(BigUint::zero(), |a, b| a + b) }

#[derive(Clone, Default, Debug, PartialEq)]
struct Acct {
    ride: BigUint,
    wegld: BigUint,
    lp: BigUint,
    mex: BigUint,
    locked: BigUint, // all nonces
    dy: NMap,
    stk: NMap,
    lpfarm: NMap,
}

#[derive(Clone, Default, Debug, PartialEq)]
struct Snap {
    last_lpfarm: u64,
    last_stk: u64,
    last_dy: u64,
    last_locked: u64,
    proxy: Acct,
    proxy_unbond: BigUint, // proxy's STKFARM balance on unbond nonces (attributes = 8 bytes)
    users: Vec<Acct>,
    r1: BigUint, // WEGLD reserve
    r2: BigUint, // RIDE reserve
    lps: BigUint,
    stk_supply: BigUint,
    lpfarm_supply: BigUint,
    dy_attr: BTreeMap<u64, DyAttr>,
    dy_out: NMap,
}

struct MsWorld {
    b: BlockchainStateWrapper,
    owner: Address,
    users: Vec<Address>,
    ef: EfW,
    pair: PairW,
    lpfarm: FarmW,
    stk: StkW,
    proxy: PrxW,
    hub: HubW,
    block: u64,
    round: u64,
    epoch: u64,
    pen: u64,
    minfarm: u64,
    unbond_epochs: u64,
    /// oracle ledger: LP-farm amount released so far per dual-yield nonce
    released: NMap,
    /// attributes of every dual-yield nonce ever seen (they never change)
    seen_attr: BTreeMap<u64, DyAttr>,
    funds: BigUint,
    /// (owner, caller) pairs whitelisted in the permissions hub (generator hint only)
    wl: Vec<(u64, u64)>,
    /// ops left of a "week just passed" burst: stakes WITH merging (own and on-behalf), the path on which both farms pay the
    /// owner's pending boosted rewards of the completed week to the proxy, which must forward them
    boost_burst: u8,
}

struct Fails(Vec<(String, String)>);
impl Fails {
    fn add(&mut self, clause: &str, detail: String) { self.0.push((clause.to_string(), detail)); }
}

fn uid(w: &str) -> u64 { w.trim_start_matches('u').parse().unwrap_or(0) }
fn pair_of(w: &str) -> (u64, BigUint) {
    let (a, b) = w.split_once(':').unwrap_or(("0", "0"));
    (a.parse().unwrap_or(0), b.parse::<BigUint>().unwrap_or_default())
}
fn pairs_of(w: &str) -> Vec<(u64, BigUint)> {
    if w == "-" { vec![] } else { w.split(',').map(pair_of).collect() }
}
fn kvw<'a>(ws: &[&'a str], k: &str) -> Option<&'a str> {
    ws.iter().find_map(|w| w.split_once('=').and_then(|(a, b)| if a == k { Some(b) } else { None }))
}

impl MsWorld {
    fn user(&self, id: u64) -> Address {
        if id >= 1 && (id as usize) <= self.users.len() { self.users[(id - 1) as usize].clone() } else { self.users[0].clone() }
    }
    fn valid_user(&self, id: u64) -> bool { id >= 1 && (id as usize) <= self.users.len() }

    fn bal(&self, a: &Address, t: &[u8], n: u64) -> BigUint { self.b.get_esdt_balance(a, t, n) }
    fn nmap(&self, a: &Address, t: &[u8], last: u64) -> NMap {
        let mut m = NMap::new();
        for n in 1..=last {
            let v = self.bal(a, t, n);
            if !v.is_zero() { m.insert(n, v); }
        }
        m
    }
    fn acct(&self, a: &Address, s: &Snap) -> Acct {
        Acct {
            ride: self.bal(a, RIDE, 0),
            wegld: self.bal(a, WEGLD, 0),
            lp: self.bal(a, LPTOK, 0),
            mex: self.bal(a, MEX, 0),
            locked: nsum(&self.nmap(a, LOCKED, s.last_locked)),
            dy: self.nmap(a, DYIELD, s.last_dy),
            stk: self.nmap(a, STKFARM, s.last_stk),
            lpfarm: self.nmap(a, LPFARM, s.last_lpfarm),
        }
    }

    fn ensure(&mut self, who: u64, t: &[u8], amount: &BigUint) {
        let a = self.user(who);
        if &self.bal(&a, t, 0) < amount {
            let v = amount + &self.funds;
            self.b.set_esdt_balance(&a, t, &v);
        }
    }

    fn snap(&mut self) -> Snap {
        let mut s = Snap::default();
        let (mut n, mut sup) = (0u64, BigUint::zero());
        self.b.execute_query(&self.lpfarm, |sc| {
            n = sc.blockchain().get_current_esdt_nft_nonce(&sc.blockchain().get_sc_address(), &managed_token_id!(LPFARM));
            sup = to_big(&sc.farm_token_supply().get());
        }).assert_ok();
        s.last_lpfarm = n;
        s.lpfarm_supply = sup.clone();
        self.b.execute_query(&self.stk, |sc| {
            n = sc.blockchain().get_current_esdt_nft_nonce(&sc.blockchain().get_sc_address(), &managed_token_id!(STKFARM));
            sup = to_big(&sc.farm_token_supply().get());
        }).assert_ok();
        s.last_stk = n;
        s.stk_supply = sup.clone();
        self.b.execute_query(&self.proxy, |sc| {
            n = sc.blockchain().get_current_esdt_nft_nonce(&sc.blockchain().get_sc_address(), &managed_token_id!(DYIELD));
        }).assert_ok();
        s.last_dy = n;
        self.b.execute_query(&self.ef, |sc| {
            n = sc.blockchain().get_current_esdt_nft_nonce(&sc.blockchain().get_sc_address(), &managed_token_id!(LOCKED));
        }).assert_ok();
        s.last_locked = n;
        let (mut r1, mut r2, mut lps) = (BigUint::zero(), BigUint::zero(), BigUint::zero());
        self.b.execute_query(&self.pair, |sc| {
            let (a, b, c) = sc.get_reserves_and_total_supply().into_tuple();
            r1 = to_big(&a);
            r2 = to_big(&b);
            lps = to_big(&c);
        }).assert_ok();
        s.r1 = r1;
        s.r2 = r2;
        s.lps = lps;
        let pa = self.proxy.address_ref().clone();
        s.proxy = self.acct(&pa, &s);
        // split the proxy's STKFARM holdings into backing tokens and unbond tokens
        let mut unb = BigUint::zero();
        let mut backing = NMap::new();
        for (n, a) in s.proxy.stk.iter() {
            let raw: Vec<u8> = self.b.get_nft_attributes::<Vec<u8>>(&pa, STKFARM, *n).unwrap_or_default();
            if raw.len() == 8 { unb += a; } else { backing.insert(*n, a.clone()); }
        }
        s.proxy.stk = backing;
        s.proxy_unbond = unb;
        for u in self.users.clone().iter() {
            let a = self.acct(u, &s);
            s.users.push(a);
        }
        // dual-yield tokens: outstanding supply and attributes, read from whoever holds them
        let mut holders: Vec<(Address, NMap)> = vec![(pa.clone(), s.proxy.dy.clone())];
        for (i, u) in self.users.iter().enumerate() { holders.push((u.clone(), s.users[i].dy.clone())); }
        for d in 1..=s.last_dy {
            let mut out = BigUint::zero();
            for (addr, m) in holders.iter() {
                let v = nget(m, d);
                if !v.is_zero() {
                    out += &v;
                    if !s.dy_attr.contains_key(&d) {
                        if let Some(raw) = self.b.get_nft_attributes::<Vec<u8>>(addr, DYIELD, d) {
                            s.dy_attr.insert(d, dec_dy(&raw));
                        }
                    }
                }
            }
            if !out.is_zero() { s.dy_out.insert(d, out); }
        }
        for (d, a) in s.dy_attr.iter() { self.seen_attr.entry(*d).or_insert_with(|| a.clone()); }
        s
    }

    fn state_line(&self, s: &Snap) -> String {
        let dy: Vec<String> = s.dy_out.iter().map(|(d, out)| {
            let a = s.dy_attr.get(d).cloned().unwrap_or_default();
            format!("{d}:{}:{}:{}:{}:{out}", a.lp_n, a.lp_a, a.st_n, a.st_a)
        }).collect();
        let mut line = format!(
            "dy={} lp={} st={} pass={},{},{},{},{}",
            if dy.is_empty() { "-".to_string() } else { dy.join(";") },
            show_nmap(&s.proxy.lpfarm), show_nmap(&s.proxy.stk),
            s.proxy.ride, s.proxy.wegld, s.proxy.lp, s.proxy.locked, s.proxy_unbond
        );
        for (i, u) in s.users.iter().enumerate() {
            line += &format!(" u{}={}", i + 1, show_nmap(&u.dy));
        }
        // the harness's own ledger of the LP-farm amount released so far per dual-yield nonce (the property's part formula,
        // checked on every claim / unstake against the decrease of the proxy's real LP-farm holding); ALL nonces (also the
        // fully burned ones), zero entries dropped, ascending; the model driver prints its ghost `rel` in the same format
        line += &format!(" led=rel:{}", show_nmap(&self.released));
        line
    }

    // ---------------- views used for predictions / oracles (pure views of the pair) ----------
    fn safe_view(&mut self, lp: &BigUint) -> Option<BigUint> {
        let pa = self.pair.address_ref().clone();
        let mut v = BigUint::zero();
        let l = lp.clone();
        let r = self.b.execute_query(&self.pair, |sc| {
            let (_f, s2) = sc.get_lp_tokens_safe_price_by_default_offset(managed_address!(&pa), mb(&l)).into_tuple();
            v = to_big(&s2.amount);
        });
        if r.result_status == 0 { Some(v) } else { None }
    }
    fn spot_view(&mut self, lp: &BigUint) -> Option<(BigUint, BigUint)> {
        let mut v = (BigUint::zero(), BigUint::zero());
        let l = lp.clone();
        let r = self.b.execute_query(&self.pair, |sc| {
            let (f, s2) = sc.get_tokens_for_given_position(mb(&l)).into_tuple();
            v = (to_big(&f.amount), to_big(&s2.amount));
        });
        if r.result_status == 0 { Some(v) } else { None }
    }
    fn hub_whitelisted(&mut self, user: &Address, caller: &Address) -> bool {
        let mut ok = false;
        let (u, c) = (user.clone(), caller.clone());
        self.b.execute_query(&self.hub, |sc| { ok = sc.is_whitelisted(&managed_address!(&u), &managed_address!(&c)); }).assert_ok();
        ok
    }
    fn lpfarm_attr(&self, holder: &Address, n: u64) -> Option<(u64, Vec<u8>)> {
        self.b.get_nft_attributes::<Vec<u8>>(holder, LPFARM, n).map(|r| dec_lpfarm(&r))
    }
    fn stk_owner(&self, holder: &Address, n: u64) -> Option<Vec<u8>> {
        self.b.get_nft_attributes::<Vec<u8>>(holder, STKFARM, n).map(|r| dec_stk_owner(&r))
    }
    /// `get_underlying_positions_original_owner` recomputed from the real token attributes
    fn underlying_owner(&self, d: u64) -> Option<Vec<u8>> {
        let a = self.seen_attr.get(&d)?;
        let pa = self.proxy.address_ref().clone();
        let (_, lo) = self.lpfarm_attr(&pa, a.lp_n)?;
        let so = self.stk_owner(&pa, a.st_n)?;
        if lo.iter().all(|x| *x == 0) || lo != so { None } else { Some(lo) }
    }

    /// independent formula of the property text: the part of the LP-farm amount released by
    /// paying `x` of a token with attributes `a`
    fn f_part(a: &DyAttr, x: &BigUint) -> BigUint {
        if *x == a.st_a { a.lp_a.clone() } else { &a.lp_a * x / &a.st_a }
    }

    // ---------------- set-up helpers ------------------------------------------------------
    fn add_liq(b: &mut BlockchainStateWrapper, who: &Address, pair: &PairW, a1: &BigUint, a2: &BigUint) -> bool {
        let t = vec![
            TxTokenTransfer { token_identifier: WEGLD.to_vec(), nonce: 0, value: a1.clone() },
            TxTokenTransfer { token_identifier: RIDE.to_vec(), nonce: 0, value: a2.clone() },
        ];
        b.execute_esdt_multi_transfer(who, pair, &t, |sc| {
            sc.add_liquidity(managed_biguint!(1u64), managed_biguint!(1u64));
        }).result_status == 0
    }

    /// make sure user `who` holds at least `need` LP tokens (adds liquidity at the current ratio)
    fn ensure_lp(&mut self, who: u64, need: &BigUint) {
        let a = self.user(who);
        let have = self.bal(&a, LPTOK, 0);
        if &have >= need { return; }
        let want = (need - &have) * 2u32 + BigUint::from(10u32);
        let (mut r1, mut r2, mut lps) = (BigUint::zero(), BigUint::zero(), BigUint::zero());
        self.b.execute_query(&self.pair, |sc| {
            let (x, y, z) = sc.get_reserves_and_total_supply().into_tuple();
            r1 = to_big(&x); r2 = to_big(&y); lps = to_big(&z);
        }).assert_ok();
        let a1 = &want * &r1 / &lps + BigUint::from(2u32);
        let a2 = &want * &r2 / &lps + BigUint::from(2u32);
        self.ensure(who, WEGLD, &a1);
        self.ensure(who, RIDE, &a2);
        Self::add_liq(&mut self.b, &a, &self.pair, &a1, &a2);
    }

    /// user `who` enters the LP farm with `amt` LP tokens; returns the new LP-farm nonce
    fn enter_lp_farm(&mut self, who: u64, amt: &BigUint) -> Option<u64> {
        self.ensure_lp(who, amt);
        let a = self.user(who);
        let mut n = 0u64;
        let r = self.b.execute_esdt_transfer(&a, &self.lpfarm, LPTOK, 0, amt, |sc| {
            let (t, _r) = sc.enter_farm_endpoint(OptionalValue::None).into_tuple();
            n = t.token_nonce;
        });
        if r.result_status == 0 { Some(n) } else { None }
    }

    /// plain ESDT transfer of an SFT/meta token between two accounts
    fn move_nft(&mut self, from: &Address, to: &Address, t: &[u8], n: u64, amt: &BigUint) -> bool {
        let have = self.bal(from, t, n);
        if amt.is_zero() || &have < amt { return false; }
        let raw: Vec<u8> = self.b.get_nft_attributes::<Vec<u8>>(from, t, n).unwrap_or_default();
        let th = self.bal(to, t, n);
        self.b.set_nft_balance(from, t, n, &(&have - amt), &raw);
        self.b.set_nft_balance(to, t, n, &(&th + amt), &raw);
        true
    }
}

impl World for MsWorld {
    const NAME: &'static str = "metastaking";

    fn gen_header(rng: &mut Rng, _h: u64, _tier: &str) -> String {
        let users = rng.range(2, 4);
        // initial liquidity: WEGLD a, RIDE b.  LP supply = min(a,b); RIDE per LP = b/min(a,b)
        let base = match rng.below(4) { 0 => BigUint::from(rng.range(20_000, 2_000_000)), 1 => pow10(18) * rng.range(1, 999), _ => rng.magnitude(14) + BigUint::from(100_000u32) };
        let (a, b) = match rng.below(5) {
            0 => (base.clone(), base.clone()),
            1 => (base.clone(), &base * rng.range(2, 9)),
            2 => (&base * rng.range(2, 9), base.clone()),
            3 => (base.clone(), &base * rng.range(10, 400) / 100u32 + BigUint::one()),
            _ => (&base * rng.range(10, 400) / 100u32 + BigUint::one(), base.clone()),
        };
        let boost = *rng.pick(&[0u64, 2500, 2500, 6000]);
        let pen = *rng.pick(&[0u64, 10, 100, 1000]);
        let minfarm = rng.range(0, 4);
        let unbond = rng.range(0, 12);
        let gap = *rng.pick(&[0u64, 1, 5, 100, 600, 700]);
        let energy: Vec<String> = (0..users).map(|_| if rng.chance(2, 3) { (rng.magnitude(9)).to_string() } else { "0".into() }).collect();
        let apr = *rng.pick(&[100u64, 5000, 5000, 10000]);
        format!("users={users} a={a} b={b} boost={boost} pen={pen} minfarm={minfarm} unbond={unbond} gap={gap} apr={apr} energy={}", energy.join(","))
    }

    fn new(header: &str) -> Self {
        let nusers = kv_u64(header, "users", 3);
        let a0 = big(kv(header, "a").unwrap_or("1000000000"));
        let b0 = big(kv(header, "b").unwrap_or("1000000000"));
        let boost = kv_u64(header, "boost", 2500);
        let pen = kv_u64(header, "pen", 10);
        let minfarm = kv_u64(header, "minfarm", 2);
        let unbond = kv_u64(header, "unbond", 10);
        let gap = kv_u64(header, "gap", 600);
        let apr = kv_u64(header, "apr", 5000);
        let energy: Vec<BigUint> = kv(header, "energy").unwrap_or("").split(',').filter(|s| !s.is_empty()).map(big).collect();
        let zero = rust_biguint!(0);
        let mut b = BlockchainStateWrapper::new();
        let owner = b.create_user_account(&zero);
        let funds = pow10(40);
        let mut users = vec![];
        for _ in 0..nusers {
            let u = b.create_user_account(&zero);
            b.set_esdt_balance(&u, WEGLD, &funds);
            b.set_esdt_balance(&u, RIDE, &funds);
            users.push(u);
        }
        b.set_esdt_balance(&owner, WEGLD, &funds);
        b.set_esdt_balance(&owner, RIDE, &funds);

        // ---- energy factory (staking_farm_with_lp_external_contracts::setup_energy_factory)
        let ef: EfW = b.create_sc_account(&zero, Some(&owner), ef_builder as fn() -> EfObj, "energy factory");
        let ef_addr = ef.address_ref().clone();
        b.execute_tx(&owner, &ef, &zero, |sc| {
            let mut lock_options = MultiValueEncoded::new();
            for (o, p) in [(360u64, 4_000u64), (1800, 6_000), (3600, 8_000)] { lock_options.push((o, p).into()); }
            sc.init(managed_token_id!(LOCKED), managed_token_id!(LEGACY), managed_address!(&ef_addr), 0, lock_options);
            sc.base_asset_token_id().set(managed_token_id!(MEX));
            sc.locked_token().set_token_id(managed_token_id!(LOCKED));
            sc.set_paused(false);
        }).assert_ok();
        b.set_esdt_local_roles(&ef_addr, MEX, &[EsdtLocalRole::Mint, EsdtLocalRole::Burn]);
        b.set_esdt_local_roles(&ef_addr, LOCKED, &[EsdtLocalRole::NftCreate, EsdtLocalRole::NftAddQuantity, EsdtLocalRole::NftBurn, EsdtLocalRole::Transfer]);
        b.set_esdt_local_roles(&ef_addr, LEGACY, &[EsdtLocalRole::NftBurn]);

        // ---- pair (setup_pair): first = WEGLD, second = RIDE
        let pair: PairW = b.create_sc_account(&zero, Some(&owner), pair_builder as fn() -> PairObj, "pair.wasm");
        b.execute_tx(&owner, &pair, &zero, |sc| {
            sc.init(
                managed_token_id!(WEGLD), managed_token_id!(RIDE), managed_address!(&owner), managed_address!(&owner),
                300u64, 50u64, ManagedAddress::<DebugApi>::zero(), MultiValueEncoded::<DebugApi, ManagedAddress<DebugApi>>::new(),
            );
            sc.lp_token_identifier().set(&managed_token_id!(LPTOK));
            sc.state().set(State::Active);
        }).assert_ok();
        b.set_esdt_local_roles(pair.address_ref(), LPTOK, &[EsdtLocalRole::Mint, EsdtLocalRole::Burn]);
        b.set_esdt_local_roles(pair.address_ref(), WEGLD, &[EsdtLocalRole::Burn]);
        b.set_esdt_local_roles(pair.address_ref(), RIDE, &[EsdtLocalRole::Burn]);
        let mut round = 1u64;
        let mut block = 5u64;
        b.set_block_round(round);
        b.set_block_nonce(block);
        assert!(Self::add_liq(&mut b, &owner, &pair, &a0, &b0));
        round += 1;
        block += 1;
        b.set_block_round(round);
        b.set_block_nonce(block);
        // every user provides liquidity once (same ratio) so that LP tokens are at hand
        for u in users.iter() {
            assert!(Self::add_liq(&mut b, u, &pair, &(&a0 * 3u32), &(&b0 * 3u32)));
        }
        round += gap;
        block += 94;
        b.set_block_round(round);
        b.set_block_nonce(block);

        // ---- LP farm = farm-with-locked-rewards (setup_lp_farm)
        let lpfarm: FarmW = b.create_sc_account(&zero, Some(&owner), farm_builder as fn() -> FarmObj, "farm.wasm");
        b.execute_tx(&owner, &lpfarm, &zero, |sc| {
            sc.init(
                managed_token_id!(MEX), managed_token_id!(LPTOK), managed_biguint!(DIVC),
                managed_address!(&Address::zero()), ManagedAddress::<DebugApi>::zero(), MultiValueEncoded::new(),
            );
            sc.farm_token().set_token_id(managed_token_id!(LPFARM));
            sc.minimum_farming_epochs().set(minfarm);
            sc.penalty_percent().set(pen);
            sc.state().set(State::Active);
            sc.produce_rewards_enabled().set(true);
            sc.per_block_reward_amount().set(&managed_biguint!(5_000u64));
            sc.last_reward_block_nonce().set(block);
            sc.lock_epochs().set(3600u64);
            sc.locking_sc_address().set(managed_address!(&ef_addr));
            sc.energy_factory_address().set(managed_address!(&ef_addr));
        }).assert_ok();
        b.execute_tx(&owner, &lpfarm, &zero, |sc| {
            sc.set_boosted_yields_factors(managed_biguint!(10u64), managed_biguint!(3u64), managed_biguint!(2u64), managed_biguint!(1u64), managed_biguint!(1u64));
            if boost > 0 { sc.set_boosted_yields_rewards_percentage(boost); }
        }).assert_ok();
        b.set_esdt_local_roles(lpfarm.address_ref(), LPFARM, &[EsdtLocalRole::NftCreate, EsdtLocalRole::NftAddQuantity, EsdtLocalRole::NftBurn]);
        b.set_esdt_local_roles(lpfarm.address_ref(), LPTOK, &[EsdtLocalRole::Burn]);

        // ---- staking farm (setup_staking_farm)
        let stk: StkW = b.create_sc_account(&zero, Some(&owner), stk_builder as fn() -> StkObj, "farm-staking.wasm");
        b.execute_tx(&owner, &stk, &zero, |sc| {
            sc.init(managed_token_id!(RIDE), managed_biguint!(DIVC), managed_biguint!(apr), unbond, ManagedAddress::<DebugApi>::zero(), MultiValueEncoded::new());
            sc.energy_factory_address().set(managed_address!(&ef_addr));
            sc.farm_token().set_token_id(managed_token_id!(STKFARM));
            sc.state().set(State::Active);
            sc.produce_rewards_enabled().set(true);
            sc.per_block_reward_amount().set(&managed_biguint!(1_000u64));
            sc.last_reward_block_nonce().set(block);
            sc.reward_capacity().set(&managed_biguint!(1_000_000_000_000u64));
        }).assert_ok();
        b.execute_tx(&owner, &stk, &zero, |sc| {
            sc.set_boosted_yields_factors(managed_biguint!(10u64), managed_biguint!(3u64), managed_biguint!(2u64), managed_biguint!(1u64), managed_biguint!(1u64));
            if boost > 0 { sc.set_boosted_yields_rewards_percentage(boost); }
        }).assert_ok();
        b.set_esdt_balance(stk.address_ref(), RIDE, &rust_biguint!(1_000_000_000_000u64));
        b.set_esdt_local_roles(stk.address_ref(), STKFARM, &[EsdtLocalRole::NftCreate, EsdtLocalRole::NftAddQuantity, EsdtLocalRole::NftBurn]);

        // ---- proxy (setup_proxy); unlike the repo's test the energy-factory address is the real one
        let proxy: PrxW = b.create_sc_account(&zero, Some(&owner), prx_builder as fn() -> PrxObj, "farm-staking-proxy.wasm");
        let (lf, sf, pr) = (lpfarm.address_ref().clone(), stk.address_ref().clone(), pair.address_ref().clone());
        b.execute_tx(&owner, &proxy, &zero, |sc| {
            sc.init(
                managed_address!(&ef_addr), managed_address!(&lf), managed_address!(&sf), managed_address!(&pr),
                managed_token_id!(RIDE), managed_token_id!(LPFARM), managed_token_id!(STKFARM), managed_token_id!(LPTOK),
            );
            sc.dual_yield_token().set_token_id(managed_token_id!(DYIELD));
        }).assert_ok();
        b.set_esdt_local_roles(proxy.address_ref(), DYIELD, &[EsdtLocalRole::NftCreate, EsdtLocalRole::NftAddQuantity, EsdtLocalRole::NftBurn]);
        let pxa = proxy.address_ref().clone();
        b.execute_tx(&owner, &stk, &zero, |sc| { sc.add_sc_address_to_whitelist(managed_address!(&pxa)); }).assert_ok();
        b.execute_tx(&owner, &lpfarm, &zero, |sc| { sc.add_sc_address_to_whitelist(managed_address!(&pxa)); }).assert_ok();
        b.execute_tx(&owner, &ef, &zero, |sc| { sc.add_sc_address_to_whitelist(managed_address!(&lf)); }).assert_ok();
        // ---- permissions hub
        let hub: HubW = b.create_sc_account(&zero, Some(&owner), hub_builder as fn() -> HubObj, "permissions_hub.wasm");
        let ha = hub.address_ref().clone();
        b.execute_tx(&owner, &hub, &zero, |sc| { sc.init(); }).assert_ok();
        b.execute_tx(&owner, &proxy, &zero, |sc| { sc.set_permissions_hub_address(managed_address!(&ha)); }).assert_ok();
        // ---- energy of the users (as the repo's tests do: written directly)
        for (i, e) in energy.iter().enumerate() {
            if i < users.len() && !e.is_zero() {
                let u = users[i].clone();
                let ev = e.clone();
                b.execute_tx(&owner, &ef, &zero, |sc| {
                    sc.user_energy(&managed_address!(&u)).set(&Energy::new(BigInt::from(mb(&ev)), 0, mb(&(&ev / 1000u32 + 1u32))));
                }).assert_ok();
            }
        }
        MsWorld {
            b, owner, users, ef, pair, lpfarm, stk, proxy, hub, block, round, epoch: 0,
            pen, minfarm, unbond_epochs: unbond, released: NMap::new(), seen_attr: BTreeMap::new(), funds, wl: vec![], boost_burst: 0,
        }
    }

    fn gen_line(&mut self, rng: &mut Rng, step: u64, _tier: &str) -> (char, String) {
        let s = self.snap();
        let nu = self.users.len() as u64;
        let mut u = rng.range(1, nu);
        let one = BigUint::one();
        let any_dy = s.users.iter().any(|x| !x.dy.is_empty());
        let weights = [
            16u64, // 0 stake
            14,    // 1 claim
            14,    // 2 unstake
            12,    // 3 swap
            12,    // 4 advance
            4,     // 5 xfer
            4,     // 6 stakeFor
            4,     // 7 claimFor
            3,     // 8 wl
            6,     // 9 bad
            3,     // 10 direct farm use
        ];
        let mut k = if step < 3 || !any_dy { if rng.chance(3, 4) { 0 } else { rng.weighted(&weights) } } else { rng.weighted(&weights) };
        if step == 1 && rng.chance(1, 2) { k = 8; }
        let mut force_merge = false;
        if self.boost_burst > 0 && any_dy {
            self.boost_burst -= 1;
            k = if !self.wl.is_empty() && rng.chance(2, 3) { 6 } else { 0 };
            force_merge = true;
        }
        // on-behalf calls: mostly by a caller some owner has whitelisted
        let mut behalf_owner = rng.range(1, nu);
        if (k == 6 || k == 7) && !self.wl.is_empty() && rng.chance(4, 5) {
            // in a week-passed burst prefer an (owner, caller) pair whose caller already holds dual-yield tokens (positions staked
            // on behalf earlier): only those can be merged into a new on-behalf stake
            let holding: Vec<(u64, u64)> = self.wl.iter().copied().filter(|(_, c)| !s.users[(*c - 1) as usize].dy.is_empty()).collect();
            let (o, c) = if force_merge && !holding.is_empty() { *rng.pick(&holding) } else { *rng.pick(&self.wl) };
            u = c;
            behalf_owner = o;
        }
        if force_merge && k == 0 {
            let holders: Vec<u64> = (1..=nu).filter(|x| !s.users[(*x - 1) as usize].dy.is_empty()).collect();
            if !holders.is_empty() {
                u = *rng.pick(&holders);
            }
        }
        let ui = (u - 1) as usize;
        let my_dy: Vec<(u64, BigUint)> = s.users[ui].dy.iter().map(|(n, a)| (*n, a.clone())).collect();
        if (k == 1 || k == 2 || k == 5) && my_dy.is_empty() && rng.chance(3, 4) { k = 0; }
        // an amount of one of the user's dual-yield tokens
        let pick_dy = |rng: &mut Rng, my: &Vec<(u64, BigUint)>, attr: &BTreeMap<u64, DyAttr>| -> (u64, BigUint) {
            if my.is_empty() {
                return (rng.range(1, s.last_dy.max(1) + 1), BigUint::from(rng.range(1, 1000)));
            }
            let (d, have) = rng.pick(my).clone();
            let a = attr.get(&d).cloned().unwrap_or_default();
            let x = match rng.below(10) {
                0 => one.clone(),
                1 | 2 | 3 => have.clone(),
                4 => &have / 2u32 + &one,
                5 => &have + &one, // more than held
                6 => { // largest x whose LP part floors to 0 / smallest that does not
                    if a.lp_a.is_zero() { one.clone() } else {
                        let t = (&a.st_a + &a.lp_a - &one) / &a.lp_a; // ceil(stA/lpA): smallest x with part >= 1
                        if rng.chance(1, 2) && t > one { &t - &one } else { t }
                    }
                }
                7 => if have > one { &have - &one } else { have.clone() },
                _ => rng.big_range(&one, &have),
            };
            (d, x)
        };
        match k {
            0 | 6 => {
                let lp_scale = &s.lps / BigUint::from(50u32) + &one;
                let a = match rng.below(8) {
                    0 => one.clone(),
                    1 => BigUint::from(rng.range(2, 2000)),
                    2 => &s.lps / 4u32 + &one,
                    _ => rng.big_range(&one, &lp_scale),
                };
                let extra = match rng.below(4) { 0 => rng.big_range(&one, &(&a + &one)), 1 => one.clone(), _ => BigUint::zero() };
                let src = if rng.chance(if force_merge { 2 } else { 1 }, 4) { "left" } else { "fresh" };
                // leftovers must exist for `src=left` to mean something: in a burst always keep some extra in the farm
                let extra = if force_merge && extra.is_zero() { &a / 2u32 + &one } else { extra };
                let merge = if !my_dy.is_empty() && (force_merge || rng.chance(2, 5)) {
                    let cnt = rng.range(1, 3.min(my_dy.len() as u64));
                    let mut v = vec![];
                    for _ in 0..cnt {
                        let (d, x) = pick_dy(rng, &my_dy, &s.dy_attr);
                        v.push(format!("{d}:{x}"));
                    }
                    v.join(",")
                } else { "-".to_string() };
                if k == 0 {
                    ('O', format!("stake u{u} lp={a} extra={extra} src={src} merge={merge}"))
                } else {
                    // caller c acts for owner o; the position is entered by `src` (normally o)
                    let o = behalf_owner;
                    if rng.chance(if force_merge { 3 } else { 1 }, 4) {
                        return ('O', format!("stakeFor u{u} u{o} lp={a} extra={extra} src=left merge={merge}"));
                    }
                    let srcu = if rng.chance(1, 8) { rng.range(1, nu) } else { o };
                    ('O', format!("stakeFor u{u} u{o} lp={a} extra={extra} src=u{srcu} merge={merge}"))
                }
            }
            1 | 7 => {
                let (d, x) = pick_dy(rng, &my_dy, &s.dy_attr);
                if k == 1 { ('O', format!("claim u{u} {d}:{x}")) } else { ('O', format!("claimFor u{u} {d}:{x}")) }
            }
            2 => {
                let (d, x) = pick_dy(rng, &my_dy, &s.dy_attr);
                let (m1, m2) = match rng.below(16) {
                    0 => (pow10(45), one.clone()),
                    1 => (one.clone(), pow10(45)),
                    2 => (BigUint::zero(), one.clone()),
                    3 | 4 | 5 => {
                        // exact spot quote of the LP part (ignores an exit penalty: may be just too high)
                        let a = s.dy_attr.get(&d).cloned().unwrap_or_default();
                        let p = if a.st_a.is_zero() { BigUint::zero() } else { Self::f_part(&a, &x.clone().min(a.st_a.clone())) };
                        if s.lps.is_zero() { (one.clone(), one.clone()) } else { ((&p * &s.r1 / &s.lps).max(one.clone()), (&p * &s.r2 / &s.lps).max(one.clone())) }
                    }
                    _ => (one.clone(), one.clone()),
                };
                ('O', format!("unstake u{u} {d}:{x} {m1} {m2}"))
            }
            3 => {
                let ab = rng.chance(1, 2);
                let rin = if ab { &s.r1 } else { &s.r2 };
                let a = match rng.below(6) {
                    0 => rin / 3u32 + &one,
                    1 => rin / 20u32 + &one,
                    2 => rin.clone(),
                    3 => one.clone(),
                    _ => rng.big_range(&one, &(rin / 2u32 + &one)),
                };
                ('O', format!("swap u{u} {} {a}", if ab { "ab" } else { "ba" }))
            }
            4 => {
                let (bk, rd, ep) = match rng.below(8) {
                    0 => (0, 0, 0),
                    1 => (1, 1, 0),
                    2 => (rng.range(1, 50), rng.range(1, 50), 0),
                    3 => (rng.range(1, 50), rng.range(1, 50), 1),
                    4 => (rng.range(100, 2000), rng.range(500, 800), rng.range(0, 3)),
                    5 | 7 => (rng.range(1, 100), rng.range(1, 100), 7),
                    6 => (rng.range(1, 100), rng.range(1, 10), rng.range(1, 30)),
                    _ => (rng.range(1, 20), rng.range(1, 20), 0),
                };
                if ep >= 7 {
                    self.boost_burst = 4;
                }
                ('O', format!("advance {bk} {rd} {ep}"))
            }
            5 => {
                let (d, x) = pick_dy(rng, &my_dy, &s.dy_attr);
                let v = rng.range(1, nu);
                ('O', format!("xfer u{u} u{v} {d}:{x}"))
            }
            8 => ('O', format!("wl u{u} u{}", rng.range(1, nu))),
            9 => {
                let (d, x) = pick_dy(rng, &my_dy, &s.dy_attr);
                match rng.below(7) {
                    0 => ('O', format!("bad stakeWrongFirst u{u}")),
                    1 => ('O', format!("bad stakeWrongExtra u{u}")),
                    2 => ('O', format!("bad claimWrongToken u{u}")),
                    3 => ('O', format!("bad unstakeWrongToken u{u}")),
                    4 => ('O', format!("bad stakeNoPayment u{u}")),
                    5 => ('O', format!("bad claimTwoPayments u{u} {d}:{x}")),
                    _ => ('O', format!("bad stakeAsOther u{u}")),
                }
            }
            _ => {
                let amt = rng.big_range(&one, &(&s.lps / 100u32 + &one));
                if rng.chance(1, 2) { ('O', format!("farmEnter u{u} {amt}")) } else { ('O', format!("stakeDirect u{u} {amt}")) }
            }
        }
    }

    fn exec(&mut self, tr: &mut Trace, text: &str) {
        let all: Vec<&str> = text.split_whitespace().collect();
        let kind = all[0].to_string();
        // request words only; resolved words and responses are recomputed
        let nreq = match kind.as_str() { "stake" => 6, "stakeFor" => 7, "claim" | "claimFor" => 3, "unstake" => 5, _ => all.len() };
        let w: Vec<&str> = all.iter().take(nreq).cloned().collect();
        let req_text = w.join(" ");
        let zero = rust_biguint!(0);
        let mut fails = Fails(vec![]);
        let mut resolved = String::new();
        let mut outs = String::from("-");
        let mut branches: Vec<String> = vec![];
        let proxy_op = matches!(kind.as_str(), "stake" | "stakeFor" | "claim" | "claimFor" | "unstake");
        let pxa = self.proxy.address_ref().clone();

        // ------------------------------------------------------------------ preparation
        // (before the pre-snapshot: funding the caller so that op texts stay executable)
        let mut lpfarm_nonce = 0u64;
        let mut stake_parts: Option<(u64, u64, BigUint, Vec<(u64, BigUint)>)> = None; // caller, owner, amount, merges
        if kind == "stake" || kind == "stakeFor" {
            let c = uid(w[1]);
            let (o, base) = if kind == "stake" { (c, 2) } else { (uid(w[2]), 3) };
            let a = big(kvw(&w, "lp").unwrap_or("1"));
            let extra = big(kvw(&w, "extra").unwrap_or("0"));
            let src = kvw(&w, "src").unwrap_or("fresh");
            let merges = pairs_of(kvw(&w, "merge").unwrap_or("-"));
            let _ = base;
            if self.valid_user(c) && self.valid_user(o) && !a.is_zero() {
                let ca = self.user(c);
                if kind == "stake" {
                    if src == "left" {
                        // a leftover position of the caller that is large enough
                        let last = self.snap().last_lpfarm;
                        for n in (1..=last).rev() {
                            if self.bal(&ca, LPFARM, n) >= a { lpfarm_nonce = n; break; }
                        }
                    }
                    if lpfarm_nonce == 0 {
                        lpfarm_nonce = self.enter_lp_farm(c, &(&a + &extra)).unwrap_or(0);
                    }
                } else {
                    if src == "left" {
                        // a leftover LP-farm position of the OWNER (entered in an earlier week: his boosted rewards of the weeks
                        // since then are still pending when the proxy merges on his behalf), handed to the caller
                        let oa = self.user(o);
                        let last = self.snap().last_lpfarm;
                        for n in (1..=last).rev() {
                            if self.bal(&oa, LPFARM, n) >= a {
                                if o != c { self.move_nft(&oa, &ca, LPFARM, n, &a); }
                                lpfarm_nonce = n;
                                break;
                            }
                        }
                    }
                    let srcu = uid(src);
                    let srcu = if self.valid_user(srcu) { srcu } else { o };
                    if lpfarm_nonce != 0 {
                        // found a leftover position
                    } else if let Some(n) = self.enter_lp_farm(srcu, &(&a + &extra)) {
                        let sa = self.user(srcu);
                        if srcu != c { self.move_nft(&sa, &ca, LPFARM, n, &a); }
                        lpfarm_nonce = n;
                    }
                }
            }
            stake_parts = Some((c, o, a, merges));
        }
        if kind == "swap" {
            let c = uid(w[1]);
            let a = big(w[3]);
            self.ensure(c, if w[2] == "ab" { WEGLD } else { RIDE }, &a);
        }
        if kind == "stakeDirect" { self.ensure(uid(w[1]), RIDE, &big(w[2])); }
        if kind == "farmEnter" { let amt = big(w[2]); self.ensure_lp(uid(w[1]), &amt); }

        let pre = self.snap();
        let mut ok = false;
        let mut who: Vec<u64> = vec![]; // accounts whose balances may change

        match kind.as_str() {
            // ---------------------------------------------------------------- stake
            "stake" | "stakeFor" => {
                let (c, o, a, merges) = stake_parts.clone().unwrap();
                who = vec![c, o];
                let ca = self.user(c);
                let oa = self.user(o);
                // ---- callee facts established independently, before the call
                let safe = self.safe_view(&a);
                let spot = self.spot_view(&a).map(|x| x.1);
                let auth = if kind == "stake" { true } else {
                    let wl = self.hub_whitelisted(&oa, &ca);
                    let lp_owner_ok = self.lpfarm_attr(&ca, lpfarm_nonce).map(|x| x.1 == oa.as_bytes().to_vec()).unwrap_or(false);
                    let merges_ok = merges.iter().all(|(d, _)| self.underlying_owner(*d).map(|x| x == oa.as_bytes().to_vec()).unwrap_or(false));
                    wl && lp_owner_ok && merges_ok
                };
                let callee_ok = safe.is_some();
                resolved = format!(" auth={} callee={} lpfarm={}", auth as u8, callee_ok as u8, lpfarm_nonce);
                if let Some(v) = &safe { resolved += &format!(" safe={v}"); }
                let mut transfers = vec![TxTokenTransfer { token_identifier: LPFARM.to_vec(), nonce: lpfarm_nonce, value: a.clone() }];
                for (d, x) in merges.iter() {
                    transfers.push(TxTokenTransfer { token_identifier: DYIELD.to_vec(), nonce: *d, value: x.clone() });
                }
                let mut ret = (0u64, BigUint::zero(), BigUint::zero(), BigUint::zero());
                let is_for = kind == "stakeFor";
                let r = self.b.execute_esdt_multi_transfer(&ca, &self.proxy, &transfers, |sc| {
                    let res = if is_for { sc.stake_farm_on_behalf(managed_address!(&oa)) } else { sc.stake_farm_tokens(OptionalValue::None) };
                    ret = (res.dual_yield_tokens.token_nonce, to_big(&res.dual_yield_tokens.amount), to_big(&res.staking_boosted_rewards.amount), to_big(&res.lp_farm_boosted_rewards.amount));
                });
                ok = r.result_status == 0;
                if ok {
                    let post = self.snap();
                    let ci = (c - 1) as usize;
                    let oi = (o - 1) as usize;
                    // responses observed on the real state
                    let st_new = grown(&pre.proxy.stk, &post.proxy.stk);
                    let lp_new = grown(&pre.proxy.lpfarm, &post.proxy.lpfarm);
                    let boosted = &post.users[oi].ride - &pre.users[oi].ride;
                    let lpboosted = &post.users[oi].locked - &pre.users[oi].locked;
                    // (a staking-farm token of amount 0 is created when the position's value is 0: nobody holds it)
                    let zero_value = st_new.is_empty() && post.last_stk == pre.last_stk + 1;
                    let (stn, sta) = st_new.first().cloned().unwrap_or((if zero_value { post.last_stk } else { 0 }, BigUint::zero()));
                    let (lpn, lpa) = lp_new.first().cloned().unwrap_or((0, BigUint::zero()));
                    if (st_new.len() != 1 && !zero_value) || lp_new.len() != 1 {
                        fails.add("dy_backed", format!("stake: proxy received {} staking-farm nonces and {} LP-farm nonces", st_new.len(), lp_new.len()));
                    }
                    if zero_value {
                        branches.push("zero_value".into());
                        fails.add("zero_value_position", format!("stake of LP-farm {lpfarm_nonce}:{a} (safe-price value {:?}) accepted: dual-yield token {}:{} issued, the LP-farm tokens stay in the proxy", safe, ret.0, ret.1));
                    }
                    resolved += &format!(" -> st={stn}:{sta} boosted={boosted} lpout={lpn}:{lpa} lpboosted={lpboosted}");
                    outs = format!("dy={}:{} boosted={} lpboosted={}", ret.0, ret.1, ret.2, ret.3);
                    // ---- oracles
                    // what was merged in, by the property's own formula
                    let mut m_lp = BigUint::zero();
                    let mut m_st = BigUint::zero();
                    for (d, x) in merges.iter() {
                        if let Some(at) = pre.dy_attr.get(d) {
                            let p = Self::f_part(at, x);
                            if p.is_zero() {
                                fails.add("dy_part_formula", format!("stake: merged payment {d}:{x} releases an LP-farm part of 0 (lpA {} stA {})", at.lp_a, at.st_a));
                            }
                            *self.released.entry(*d).or_default() += &p;
                            m_lp += p;
                            m_st += x;
                        }
                    }
                    // the amount registered in the staking farm for this position
                    let registered = &post.stk_supply - &pre.stk_supply; // the farm's supply grows by the new stake only
                    let staked = if sta >= m_st { &sta - &m_st } else { BigUint::zero() };
                    if Some(&staked) != safe.as_ref() || registered != staked {
                        fails.add("stake_value_is_safe_price", format!("LP {a}: staked {staked} (farm supply +{registered}) safe-price view {:?} spot {:?}", safe, spot));
                    }
                    if safe != spot { branches.push("safe_ne_spot".into()); }
                    // new dual-yield token: attributes = what the proxy really received, amount = staking amount
                    let na = post.dy_attr.get(&ret.0).cloned().unwrap_or_default();
                    if (!zero_value && na != (DyAttr { lp_n: lpn, lp_a: lpa.clone(), st_n: stn, st_a: sta.clone() })) || ret.1 != sta {
                        fails.add("dy_backed", format!("stake: new token {} attrs {:?} but proxy received lp {lpn}:{lpa} st {stn}:{sta}", ret.0, na));
                    }
                    if lpa != &a + &m_lp {
                        fails.add("dy_parts_le_whole", format!("stake: merged LP-farm token {lpa} != base {a} + released parts {m_lp}"));
                    }
                    if nget(&post.users[ci].dy, ret.0) != ret.1 {
                        fails.add("unstake_outputs", format!("stake: caller holds {} of the new token, result says {}", nget(&post.users[ci].dy, ret.0), ret.1));
                    }
                    if boosted != ret.2 || lpboosted != ret.3 {
                        fails.add("unstake_outputs", format!("stake: rewards received ({boosted},{lpboosted}) != result ({},{})", ret.2, ret.3));
                    }
                    if !merges.is_empty() { branches.push("stake_merge".into()); }
                    if !boosted.is_zero() { branches.push("stake_boosted".into()); }
                    if !lpboosted.is_zero() { branches.push("stake_lpboosted".into()); }
                    if is_for { branches.push("on_behalf".into()); }
                    if !callee_ok { fails.add("harness_prediction", "stake succeeded although a callee failure was predicted".into()); }
                } else if !callee_ok { branches.push("callee_fail".into()); }
                else if !auth { branches.push("auth_fail".into()); }
                else if safe == Some(BigUint::zero()) { branches.push("zero_value_rejected".into()); }
            }
            // ---------------------------------------------------------------- claim
            "claim" | "claimFor" => {
                let c = uid(w[1]);
                let (d, x) = pair_of(w[2]);
                let ca = self.user(c);
                who = vec![c];
                let at = self.seen_attr.get(&d).cloned();
                let part = at.as_ref().map(|a| if a.st_a.is_zero() { BigUint::zero() } else { Self::f_part(a, &x) }).unwrap_or_default();
                let safe = self.safe_view(&part);
                let spot = self.spot_view(&part).map(|v| v.1);
                let owner_bytes = self.underlying_owner(d);
                let mut oi: Option<usize> = None;
                if let Some(ob) = &owner_bytes {
                    for (i, u) in self.users.iter().enumerate() { if u.as_bytes().to_vec() == *ob { oi = Some(i); } }
                }
                let auth = if kind == "claim" { true } else {
                    match oi { Some(i) => { let oa = self.users[i].clone(); self.hub_whitelisted(&oa, &ca) } None => false }
                };
                let callee_ok = safe.is_some();
                resolved = format!(" auth={} callee={}", auth as u8, callee_ok as u8);
                if let Some(v) = &safe { resolved += &format!(" safe={v}"); }
                let mut ret = (0u64, BigUint::zero(), BigUint::zero(), BigUint::zero());
                let is_for = kind == "claimFor";
                let r = self.b.execute_esdt_transfer(&ca, &self.proxy, DYIELD, d, &x, |sc| {
                    let res = if is_for { sc.claim_dual_yield_on_behalf() } else { sc.claim_dual_yield_endpoint(OptionalValue::None) };
                    ret = (res.new_dual_yield_tokens.token_nonce, to_big(&res.new_dual_yield_tokens.amount), to_big(&res.lp_farm_rewards.amount), to_big(&res.staking_farm_rewards.amount));
                });
                ok = r.result_status == 0;
                if ok {
                    let post = self.snap();
                    let ci = (c - 1) as usize;
                    let ri = if is_for { oi.unwrap_or(ci) } else { ci }; // who receives the rewards
                    who.push(ri as u64 + 1);
                    let at = at.unwrap_or_default();
                    let st_new = grown(&pre.proxy.stk, &post.proxy.stk);
                    let lp_new = grown(&pre.proxy.lpfarm, &post.proxy.lpfarm);
                    let lprew = &post.users[ri].locked - &pre.users[ri].locked;
                    let strew = &post.users[ri].ride - &pre.users[ri].ride;
                    let zero_value = st_new.is_empty() && post.last_stk == pre.last_stk + 1;
                    let (stn, sta) = st_new.first().cloned().unwrap_or((if zero_value { post.last_stk } else { 0 }, BigUint::zero()));
                    let (lpn, lpa) = lp_new.first().cloned().unwrap_or((0, BigUint::zero()));
                    if (st_new.len() != 1 && !zero_value) || lp_new.len() != 1 {
                        fails.add("dy_backed", format!("claim: proxy received {} staking-farm nonces and {} LP-farm nonces", st_new.len(), lp_new.len()));
                    }
                    if zero_value {
                        branches.push("zero_value".into());
                        fails.add("zero_value_position", format!("claim with {d}:{x} (LP part {part}, safe-price value {:?}) accepted: payment burned, dual-yield token {}:{} issued, the LP-farm tokens stay in the proxy", safe, ret.0, ret.1));
                    }
                    resolved += &format!(" -> lpnew={lpn}:{lpa} lprew={lprew} stnew={stn}:{sta} strew={strew}");
                    outs = format!("dy={}:{} lprew={} strew={}", ret.0, ret.1, ret.2, ret.3);
                    // ---- oracles
                    *self.released.entry(d).or_default() += &part;
                    let lp_rel = &nget(&pre.proxy.lpfarm, at.lp_n) - &nget(&post.proxy.lpfarm, at.lp_n);
                    let st_rel = &nget(&pre.proxy.stk, at.st_n) - &nget(&post.proxy.stk, at.st_n);
                    if lp_rel != part || st_rel != x || part.is_zero() {
                        fails.add("dy_part_formula", format!("claim {d}:{x}: released lp {lp_rel} st {st_rel}, formula lp {part} st {x}"));
                    }
                    // new value registered in the staking farm = safe price of the LP part
                    let delta_ok = &pre.stk_supply + &sta == &post.stk_supply + &x;
                    if Some(&sta) != safe.as_ref() || !delta_ok {
                        fails.add("stake_value_is_safe_price", format!("claim: LP {part}: new staking amount {sta} safe-price view {:?} spot {:?} supply {}→{}", safe, spot, pre.stk_supply, post.stk_supply));
                    }
                    if safe != spot { branches.push("safe_ne_spot".into()); }
                    let na = post.dy_attr.get(&ret.0).cloned().unwrap_or_default();
                    if (!zero_value && na != (DyAttr { lp_n: lpn, lp_a: lpa.clone(), st_n: stn, st_a: sta.clone() })) || ret.1 != sta {
                        fails.add("dy_backed", format!("claim: new token {} attrs {:?} but proxy received lp {lpn}:{lpa} st {stn}:{sta}", ret.0, na));
                    }
                    if lpa != part {
                        fails.add("dy_parts_le_whole", format!("claim: new LP-farm token {lpa} != released part {part}"));
                    }
                    if nget(&post.users[ci].dy, ret.0) != ret.1 || lprew != ret.2 || strew != ret.3 {
                        fails.add("unstake_outputs", format!("claim: received dy {} lprew {lprew} strew {strew}; result dy {} lprew {} strew {}", nget(&post.users[ci].dy, ret.0), ret.1, ret.2, ret.3));
                    }
                    if x < at.st_a { branches.push("claim_partial".into()); }
                    if !lprew.is_zero() { branches.push("claim_lprew".into()); }
                    if !strew.is_zero() { branches.push("claim_strew".into()); }
                    if is_for { branches.push("on_behalf".into()); }
                    if !callee_ok { fails.add("harness_prediction", "claim succeeded although a callee failure was predicted".into()); }
                } else if !callee_ok { branches.push("callee_fail".into()); }
                else if !auth { branches.push("auth_fail".into()); }
                else if part.is_zero() && at.is_some() { branches.push("zero_part_guard".into()); }
                else if safe == Some(BigUint::zero()) { branches.push("zero_value_rejected".into()); }
            }
            // ---------------------------------------------------------------- unstake
            "unstake" => {
                let c = uid(w[1]);
                let (d, x) = pair_of(w[2]);
                let (m1, m2) = (big(w[3]), big(w[4]));
                let ca = self.user(c);
                who = vec![c];
                let at = self.seen_attr.get(&d).cloned();
                let part = at.as_ref().map(|a| if a.st_a.is_zero() { BigUint::zero() } else { Self::f_part(a, &x) }).unwrap_or_default();
                // expected LP tokens out of the farm (exit penalty of the LP farm), then the pool's quote
                let mut lp_exp = part.clone();
                if let Some(a) = &at {
                    if let Some((enter, _)) = self.lpfarm_attr(&pxa, a.lp_n) {
                        if self.epoch - enter.min(self.epoch) < self.minfarm {
                            lp_exp = &part - &part * BigUint::from(self.pen) / BigUint::from(MAX_PERCENT);
                        }
                    }
                }
                let quote = self.spot_view(&lp_exp);
                let callee_ok = match &quote {
                    Some((q1, q2)) => !m1.is_zero() && !m2.is_zero() && !q1.is_zero() && !q2.is_zero() && *q1 >= m1 && *q2 >= m2 && !lp_exp.is_zero(),
                    None => false,
                };
                resolved = format!(" callee={}", callee_ok as u8);
                let mut ret = (BigUint::zero(), BigUint::zero(), BigUint::zero(), 0u64, BigUint::zero());
                let r = self.b.execute_esdt_transfer(&ca, &self.proxy, DYIELD, d, &x, |sc| {
                    let res = sc.unstake_farm_tokens(mb(&m1), mb(&m2), OptionalValue::None);
                    ret = (to_big(&res.other_token_payment.amount), to_big(&res.lp_farm_rewards.amount), to_big(&res.staking_rewards.amount),
                           res.unbond_staking_farm_token.token_nonce, to_big(&res.unbond_staking_farm_token.amount));
                });
                ok = r.result_status == 0;
                if ok {
                    let post = self.snap();
                    let ci = (c - 1) as usize;
                    let at = at.unwrap_or_default();
                    // callee responses seen on the real state of the callees / the caller
                    let lp_out = &pre.lps - &post.lps; // LP burned by the pair
                    let stk_out = &pre.r2 - &post.r2; // staking tokens the pool paid
                    let other_out = &pre.r1 - &post.r1;
                    let other = &post.users[ci].wegld - &pre.users[ci].wegld;
                    let lprew = &post.users[ci].locked - &pre.users[ci].locked;
                    let strew = &post.users[ci].ride - &pre.users[ci].ride;
                    let unb = grown(&pre.users[ci].stk, &post.users[ci].stk);
                    let (unn, una) = unb.first().cloned().unwrap_or((0, BigUint::zero()));
                    resolved += &format!(" -> lp={lp_out} lprew={lprew} stk={stk_out} other={other} unbond={unn}:{una} strew={strew}");
                    outs = format!("other={} lprew={} strew={} unbond={}:{}", ret.0, ret.1, ret.2, ret.3, ret.4);
                    // ---- oracles
                    *self.released.entry(d).or_default() += &part;
                    let lp_rel = &nget(&pre.proxy.lpfarm, at.lp_n) - &nget(&post.proxy.lpfarm, at.lp_n);
                    let st_rel = &nget(&pre.proxy.stk, at.st_n) - &nget(&post.proxy.stk, at.st_n);
                    if lp_rel != part || st_rel != x || part.is_zero() {
                        fails.add("dy_part_formula", format!("unstake {d}:{x}: released lp {lp_rel} st {st_rel}, formula lp {part} st {x}"));
                    }
                    let unlock = self.b.get_nft_attributes::<Vec<u8>>(&ca, STKFARM, unn).map(|r| if r.len() == 8 { let mut p = 0; rd_u64(&r, &mut p) } else { u64::MAX }).unwrap_or(u64::MAX);
                    if unb.len() != 1 || una != stk_out || other != other_out || ret.0 != other || ret.1 != lprew || ret.2 != strew || ret.3 != unn || ret.4 != una
                        || unlock != self.epoch + self.unbond_epochs || stk_out.is_zero() || other.is_zero()
                    {
                        fails.add("unstake_outputs", format!(
                            "unstake {d}:{x}: pool paid staking {stk_out} other {other_out}; caller got other {other} lprew {lprew} strew {strew} unbond {unn}:{una} (unlock {unlock}, epoch {} + {}); result {:?}",
                            self.epoch, self.unbond_epochs, ret));
                    }
                    if lp_out != lp_exp {
                        fails.add("unstake_outputs", format!("unstake: LP removed from the pool {lp_out} != LP-farm part {part} minus exit penalty = {lp_exp}"));
                    }
                    // staking farm: position x leaves the supply
                    if &post.stk_supply + &x != pre.stk_supply {
                        fails.add("unstake_outputs", format!("unstake: staking supply {}→{} for position {x}", pre.stk_supply, post.stk_supply));
                    }
                    if x < at.st_a { branches.push("unstake_partial".into()); } else { branches.push("unstake_full".into()); }
                    if lp_exp != part { branches.push("exit_penalty".into()); }
                    if !lprew.is_zero() { branches.push("unstake_lprew".into()); }
                    if !strew.is_zero() { branches.push("unstake_strew".into()); }
                    if una != x { branches.push("unbond_ne_position".into()); }
                    if !callee_ok { fails.add("harness_prediction", "unstake succeeded although a callee failure was predicted".into()); }
                } else if !callee_ok { branches.push("callee_fail".into()); }
                else if part.is_zero() && at.is_some() { branches.push("zero_part_guard".into()); }
            }
            // ---------------------------------------------------------------- xfer
            "xfer" => {
                let (u, v) = (uid(w[1]), uid(w[2]));
                let (d, x) = pair_of(w[3]);
                who = vec![u, v];
                if self.valid_user(u) && self.valid_user(v) && u != v {
                    let (ua, va) = (self.user(u), self.user(v));
                    ok = self.move_nft(&ua, &va, DYIELD, d, &x);
                }
            }
            // ---------------------------------------------------------------- malformed calls
            "bad" => {
                let c = uid(w[2]);
                let ca = self.user(c);
                who = vec![c];
                let one = BigUint::one();
                let r = match w[1] {
                    "stakeWrongFirst" => {
                        self.ensure(c, RIDE, &one);
                        self.b.execute_esdt_transfer(&ca, &self.proxy, RIDE, 0, &one, |sc| { sc.stake_farm_tokens(OptionalValue::None); })
                    }
                    "stakeWrongExtra" => {
                        // a valid LP-farm position + a staking token as "additional" payment
                        self.ensure(c, RIDE, &one);
                        let mut n = 0;
                        for k in (1..=pre.last_lpfarm).rev() { if !self.bal(&ca, LPFARM, k).is_zero() { n = k; break; } }
                        let t = vec![
                            TxTokenTransfer { token_identifier: LPFARM.to_vec(), nonce: n, value: one.clone() },
                            TxTokenTransfer { token_identifier: RIDE.to_vec(), nonce: 0, value: one.clone() },
                        ];
                        self.b.execute_esdt_multi_transfer(&ca, &self.proxy, &t, |sc| { sc.stake_farm_tokens(OptionalValue::None); })
                    }
                    "claimWrongToken" => {
                        self.ensure(c, RIDE, &one);
                        self.b.execute_esdt_transfer(&ca, &self.proxy, RIDE, 0, &one, |sc| { sc.claim_dual_yield_endpoint(OptionalValue::None); })
                    }
                    "unstakeWrongToken" => {
                        self.ensure(c, WEGLD, &one);
                        self.b.execute_esdt_transfer(&ca, &self.proxy, WEGLD, 0, &one, |sc| {
                            sc.unstake_farm_tokens(managed_biguint!(1u64), managed_biguint!(1u64), OptionalValue::None);
                        })
                    }
                    "stakeNoPayment" => self.b.execute_tx(&ca, &self.proxy, &zero, |sc| { sc.stake_farm_tokens(OptionalValue::None); }),
                    "claimTwoPayments" => {
                        let (d, x) = pair_of(w.get(3).cloned().unwrap_or("1:1"));
                        let t = vec![
                            TxTokenTransfer { token_identifier: DYIELD.to_vec(), nonce: d, value: x.clone() },
                            TxTokenTransfer { token_identifier: DYIELD.to_vec(), nonce: d, value: x.clone() },
                        ];
                        self.b.execute_esdt_multi_transfer(&ca, &self.proxy, &t, |sc| { sc.claim_dual_yield_endpoint(OptionalValue::None); })
                    }
                    _ => {
                        // a user names somebody else as original caller: only whitelisted contracts may
                        let other = self.user(if c == 1 { 2 } else { 1 });
                        let mut n = 0;
                        for k in (1..=pre.last_lpfarm).rev() { if !self.bal(&ca, LPFARM, k).is_zero() { n = k; break; } }
                        self.b.execute_esdt_transfer(&ca, &self.proxy, LPFARM, n, &one, |sc| { sc.stake_farm_tokens(OptionalValue::Some(managed_address!(&other))); })
                    }
                };
                ok = r.result_status == 0;
                if ok { fails.add("proxy_keeps_nothing", format!("malformed call `{}` was accepted", w[1])); }
            }
            // ---------------------------------------------------------------- environment
            "swap" => {
                let c = uid(w[1]);
                let ca = self.user(c);
                let a = big(w[3]);
                let (tin, tout) = if w[2] == "ab" { (WEGLD, RIDE) } else { (RIDE, WEGLD) };
                let r = self.b.execute_esdt_transfer(&ca, &self.pair, tin, 0, &a, |sc| {
                    sc.swap_tokens_fixed_input(managed_token_id!(tout), managed_biguint!(1u64));
                });
                tr.count(if r.result_status == 0 { "env.swap.ok" } else { "env.swap.err" });
                ok = true;
            }
            "advance" => {
                let (bk, rd, ep): (u64, u64, u64) = (w[1].parse().unwrap_or(0), w[2].parse().unwrap_or(0), w[3].parse().unwrap_or(0));
                self.block += bk;
                self.round += rd;
                self.epoch += ep;
                self.b.set_block_nonce(self.block);
                self.b.set_block_round(self.round);
                self.b.set_block_epoch(self.epoch);
                ok = true;
            }
            "wl" => {
                let (u, c) = (uid(w[1]), uid(w[2]));
                let (ua, ca) = (self.user(u), self.user(c));
                let r = self.b.execute_tx(&ua, &self.hub, &zero, |sc| {
                    let mut v = MultiValueEncoded::new();
                    v.push(managed_address!(&ca));
                    sc.whitelist(v);
                });
                if r.result_status == 0 && !self.wl.contains(&(u, c)) { self.wl.push((u, c)); }
                tr.count(if r.result_status == 0 { "env.wl.ok" } else { "env.wl.err" });
                ok = true;
            }
            "farmEnter" => {
                let c = uid(w[1]);
                let amt = big(w[2]);
                let r = self.enter_lp_farm(c, &amt);
                tr.count(if r.is_some() { "env.farmEnter.ok" } else { "env.farmEnter.err" });
                ok = true;
            }
            "stakeDirect" => {
                let c = uid(w[1]);
                let ca = self.user(c);
                let amt = big(w[2]);
                let r = self.b.execute_esdt_transfer(&ca, &self.stk, RIDE, 0, &amt, |sc| { sc.stake_farm_endpoint(OptionalValue::None); });
                tr.count(if r.result_status == 0 { "env.stakeDirect.ok" } else { "env.stakeDirect.err" });
                ok = true;
            }
            other => panic!("unknown op {other}"),
        }

        let post = self.snap();
        // ------------------------------------------------------------------ write the op line
        let n = tr.op(&format!("{req_text}{resolved}"));
        tr.count(&format!("op.{kind}"));
        for br in branches { tr.count(&format!("branch.{br}")); }

        // ------------------------------------------------------------------ oracles on the real state
        // C15 dy_backed: per farm-token nonce the proxy really holds what the outstanding dual-yield tokens record
        let mut need_lp = NMap::new();
        let mut need_st = NMap::new();
        let mut lp_users: BTreeMap<u64, u64> = BTreeMap::new();
        for (d, out) in post.dy_out.iter() {
            if let Some(a) = post.dy_attr.get(d) {
                if a.st_a.is_zero() || *out > a.st_a {
                    fails.add("dy_backed", format!("nonce {d}: outstanding {out} > minted {}", a.st_a));
                    continue;
                }
                let need = (&a.lp_a * out + &a.st_a - BigUint::one()) / &a.st_a; // ceil: the share still owed
                *need_lp.entry(a.lp_n).or_default() += need;
                *need_st.entry(a.st_n).or_default() += out;
                *lp_users.entry(a.lp_n).or_default() += 1;
            }
        }
        for (nn, need) in need_lp.iter() {
            let have = nget(&post.proxy.lpfarm, *nn);
            if &have < need { fails.add("dy_backed", format!("LP-farm nonce {nn}: proxy holds {have} < recorded share {need}")); }
            if ok && proxy_op && &have > need { tr.count("branch.floor_dust_present"); }
        }
        if ok && proxy_op && lp_users.values().any(|c| *c > 1) { tr.count("branch.lp_nonce_shared_by_dy_nonces"); }
        for (nn, need) in need_st.iter() {
            let have = nget(&post.proxy.stk, *nn);
            if &have < need { fails.add("dy_backed", format!("staking-farm nonce {nn}: proxy holds {have} < outstanding {need}")); }
            if &have > need { fails.add("proxy_keeps_nothing", format!("staking-farm nonce {nn}: proxy holds {have} > outstanding {need}")); }
        }
        for (nn, have) in post.proxy.stk.iter() {
            if !need_st.contains_key(nn) && !have.is_zero() {
                fails.add("proxy_keeps_nothing", format!("staking-farm nonce {nn}: proxy holds {have} that no outstanding dual-yield token records"));
            }
        }
        // C15 dy_parts_le_whole: over a token's life the released LP-farm parts never exceed the whole
        for (d, rel) in self.released.iter() {
            if let Some(a) = self.seen_attr.get(d) {
                if *rel > a.lp_a { fails.add("dy_parts_le_whole", format!("nonce {d}: released {rel} of an LP-farm amount {}", a.lp_a)); }
                let out = nget(&post.dy_out, *d);
                if &out + &BigUint::zero() > a.st_a { fails.add("dy_parts_le_whole", format!("nonce {d}: outstanding {out} > whole {}", a.st_a)); }
            }
        }
        // C15 proxy_keeps_nothing: pass-through tokens never stay in the proxy
        let p = &post.proxy;
        if !p.ride.is_zero() || !p.wegld.is_zero() || !p.lp.is_zero() || !p.locked.is_zero() || !p.mex.is_zero()
            || !post.proxy_unbond.is_zero() || !p.dy.is_empty()
        {
            fails.add("proxy_keeps_nothing", format!(
                "proxy holds staking token {} other {} LP {} locked {} base {} unbond {} own dual-yield {}",
                p.ride, p.wegld, p.lp, p.locked, p.mex, post.proxy_unbond, nsum(&p.dy)));
        }
        // a failed call changes nothing; a proxy call changes only the accounts involved
        if !ok && pre != post {
            fails.add("failed_tx_changes_state", "state differs after a failed call".into());
        }
        if ok && proxy_op {
            for i in 0..self.users.len() {
                if !who.contains(&(i as u64 + 1)) && pre.users[i] != post.users[i] {
                    fails.add("unstake_outputs", format!("balances of uninvolved user u{} changed", i + 1));
                }
            }
        }
        if ok && !proxy_op && kind != "xfer" {
            // environment operations never touch what the proxy holds or what it issued
            if pre.proxy != post.proxy || pre.dy_out != post.dy_out {
                fails.add("dy_backed", format!("environment op `{kind}` changed the proxy's holdings or the dual-yield supply"));
            }
        }
        for (clause, detail) in fails.0.iter() {
            let prop = if clause == "harness_prediction" { "HARNESS" } else { "C15" };
            tr.fail(prop, clause, &kind, detail);
            // on-behalf operations: rewards that do not reach the position OWNER are also C19's clause
            // "rewards claimed on behalf go to the position owner"
            if clause == "unstake_outputs" && matches!(kind.as_str(), "stakeFor" | "claimFor") {
                tr.fail("C19", "on_behalf_rules", &kind, detail);
            }
        }
        if ok {
            tr.count(&format!("ok.{kind}"));
            let line = self.state_line(&post);
            tr.res_ok(n, &outs, &line);
        } else {
            tr.count(&format!("err.{kind}"));
            tr.res_err(n);
        }
    }

    fn query(&mut self, tr: &mut Trace, text: &str) {
        let n = tr.query(text);
        tr.view_err(n);
    }
}

fn main() {
    run_world::<MsWorld>();
}
