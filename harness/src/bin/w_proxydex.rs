//! World `proxydex`: the real `locked-asset/proxy_dex` deployed with the real contracts it
//! calls: one `dex/pair` (BASE, OTHER), two `farm-with-locked-rewards` instances (farm L with
//! farming token BASE, farm W with farming token LP) and the real energy factory.
//! Serves C16.  Model: lean/MxModel/Core/ProxyDex.lean (the proxy's own bookkeeping only; whatever
//! the proxy obtains from the callees is recorded by this harness after `->` in the op text).
//! Besides the plain users there is one contract account (the "manager", id users+1) on the proxy's SC
//! whitelist: ops `exitOb / claimOb / enterLOb / enterWOb <caller> <original caller> …` supply the optional
//! original-caller argument (model: Core/ProxyDexWho.lean).

use mxharness::*;
use num_bigint::{BigInt, BigUint, Sign};
use num_traits::{One, Zero};
use std::collections::BTreeMap;

use multiversx_sc::codec::multi_types::OptionalValue;
use multiversx_sc::storage::mappers::StorageTokenWrapper;
use multiversx_sc::types::{Address, EsdtLocalRole, EsdtTokenPayment, ManagedAddress, MultiValueEncoded};
use multiversx_sc_scenario::{
    managed_address, managed_biguint, managed_token_id, rust_biguint, whitebox_legacy::*, DebugApi,
};

use config::ConfigModule as _;
use energy_factory::energy::EnergyModule as _;
use energy_factory::locked_token_transfer::LockedTokenTransferModule as _;
use energy_factory::SimpleLockEnergy as _;
use energy_query::EnergyQueryModule as _;
use farm::exit_penalty::ExitPenaltyModule as _;
use farm_boosted_yields::boosted_yields_factors::BoostedYieldsFactorsModule as _;
use farm_token::FarmTokenModule as _;
use farm_with_locked_rewards::Farm as _;
use locking_module::lock_with_energy_module::LockWithEnergyModule as _;
use multiversx_sc_modules::pause::PauseModule as _;
use pair::config::ConfigModule as _;
use pair::pair_actions::add_liq::AddLiquidityModule as _;
use pair::pair_actions::swap::SwapModule as _;
use pair::Pair as _;
use pausable::{PausableModule as _, State};
use proxy_dex::other_sc_whitelist::OtherScWhitelistModule as _;
use proxy_dex::proxy_common::ProxyCommonModule as _;
use proxy_dex::proxy_farm::ProxyFarmModule as _;
use proxy_dex::proxy_pair::ProxyPairModule as _;
use proxy_dex::wrapped_farm_attributes::WrappedFarmTokenAttributes;
use proxy_dex::wrapped_farm_token_merge::WrappedFarmTokenMerge as _;
use proxy_dex::wrapped_lp_attributes::WrappedLpTokenAttributes;
use proxy_dex::wrapped_lp_token_merge::WrappedLpTokenMerge as _;
use proxy_dex::ProxyDexImpl as _;
use sc_whitelist_module::SCWhitelistModule as _;
use simple_lock::locked_token::{LockedTokenAttributes, LockedTokenModule as _};

const BASE: &[u8] = b"MEX-123456";
const OTHER: &[u8] = b"WEGLD-123456";
const LP: &[u8] = b"LPTOK-123456";
const LOCKED: &[u8] = b"LOCKED-123456";
const LEGACY: &[u8] = b"LEGACY-123456";
const FARML: &[u8] = b"FARML-123456";
const FARMW: &[u8] = b"FARMW-123456";
const WLP: &[u8] = b"WPLP-123456";
const WFARM: &[u8] = b"WPFARM-123456";
const LOCK_OPTIONS: [(u64, u64); 3] = [(360, 4_000), (720, 6_000), (1440, 8_000)];
const LOOK: u64 = 6;

type ProxyObj = proxy_dex::ContractObj<DebugApi>;
type ProxyW = ContractObjWrapper<ProxyObj, fn() -> ProxyObj>;
type PairObj = pair::ContractObj<DebugApi>;
type PairW = ContractObjWrapper<PairObj, fn() -> PairObj>;
type FarmObj = farm_with_locked_rewards::ContractObj<DebugApi>;
type FarmW = ContractObjWrapper<FarmObj, fn() -> FarmObj>;
type FacObj = energy_factory::ContractObj<DebugApi>;
type FacW = ContractObjWrapper<FacObj, fn() -> FacObj>;

fn proxy_builder() -> ProxyObj {
    proxy_dex::contract_obj()
}
fn pair_builder() -> PairObj {
    pair::contract_obj()
}
fn farm_builder() -> FarmObj {
    farm_with_locked_rewards::contract_obj()
}
fn fac_builder() -> FacObj {
    energy_factory::contract_obj()
}

type MBig = multiversx_sc::types::BigUint<DebugApi>;
type MInt = multiversx_sc::types::BigInt<DebugApi>;
type Bag = BTreeMap<u64, BigUint>;

fn to_big(x: &MBig) -> BigUint {
    BigUint::from_bytes_be(x.to_bytes_be().as_slice())
}
fn to_int(x: &MInt) -> BigInt {
    let mag = to_big(&x.magnitude());
    if *x < 0 {
        BigInt::from_biguint(Sign::Minus, mag)
    } else {
        BigInt::from_biguint(Sign::Plus, mag)
    }
}
fn mbig(x: &BigUint) -> MBig {
    MBig::from_bytes_be(&x.to_bytes_be())
}
fn bi(x: &BigUint) -> BigInt {
    BigInt::from_biguint(Sign::Plus, x.clone())
}
fn bag_get(b: &Bag, k: u64) -> BigUint {
    b.get(&k).cloned().unwrap_or_default()
}
fn bag_add(b: &mut Bag, k: u64, a: &BigUint) {
    if !a.is_zero() {
        *b.entry(k).or_default() += a;
    }
}
fn bag_sum(b: &Bag) -> BigUint {
    b.values().fold(BigUint::zero(), |x, y| x + y)
}
fn show_bag(b: &Bag) -> String {
    let v: Vec<String> = b.iter().filter(|(_, a)| !a.is_zero()).map(|(k, a)| format!("{k}:{a}")).collect();
    if v.is_empty() {
        "-".into()
    } else {
        v.join(",")
    }
}
/// `n:amt,n:amt` or `-`
fn parse_pays(t: &str) -> Vec<(u64, BigUint)> {
    if t == "-" || t.is_empty() {
        return vec![];
    }
    t.split(',')
        .map(|w| {
            let (a, b) = w.split_once(':').unwrap();
            (a.parse().unwrap(), big(b))
        })
        .collect()
}
fn show_pays(p: &[(u64, BigUint)]) -> String {
    if p.is_empty() {
        return "-".into();
    }
    p.iter().map(|(n, a)| format!("{n}:{a}")).collect::<Vec<_>>().join(",")
}

/// a payment as seen from outside: (token id, nonce, amount)
type Pay = (Vec<u8>, u64, BigUint);
fn pay_of(p: &EsdtTokenPayment<DebugApi>) -> Pay {
    (p.token_identifier.to_boxed_bytes().into_vec(), p.token_nonce, to_big(&p.amount))
}

#[derive(Clone, Debug, PartialEq)]
struct WlpAttr {
    total: BigUint,
    k: u64,
    locked: BigUint,
}
#[derive(Clone, Debug, PartialEq)]
struct WfAttr {
    farm: u8, // 0 = farm L (farming token BASE), 1 = farm W (farming token LP)
    fnonce: u64,
    fa: BigUint,
    kind: u8, // 0 = locked token, 1 = wrapped LP token
    pn: u64,
    pa: BigUint,
}

#[derive(Clone, Default, Debug, PartialEq)]
struct Snap {
    p_lp: BigUint,
    p_base: BigUint,
    p_other: BigUint,
    p_lk: Bag,
    p_fl: Bag,
    p_fw: Bag,
    p_w: Bag,
    p_f: Bag,
    u_base: Vec<BigUint>,
    u_other: Vec<BigUint>,
    u_lp: Vec<BigUint>,
    u_lk: Vec<Bag>,
    u_w: Vec<Bag>,
    u_f: Vec<Bag>,
    pair_base: BigUint,
    pair_other: BigUint,
    tot_base: BigUint,
    tot_lk: Bag,
    tot_lp: BigUint,
    energy: Vec<(BigInt, BigUint)>,
}

struct PxWorld {
    b: BlockchainStateWrapper,
    owner: Address,
    users: Vec<Address>,
    proxy: ProxyW,
    pair: PairW,
    farm_l: FarmW,
    farm_w: FarmW,
    fac: FacW,
    epoch: u64,
    block: u64,
    locked_first: bool,
    max_k: u64,
    max_w: u64,
    max_f: u64,
    max_fl: u64,
    max_fw: u64,
    unl: BTreeMap<u64, u64>,
    wattr: BTreeMap<u64, WlpAttr>,
    fattr: BTreeMap<u64, WfAttr>,
    /// combined (base + locked) supply at start and cumulative change not caused by the proxy
    c0: BigInt,
    ext: BigInt,
    floors: u64,
    stray_total: BigUint,
    pending: Vec<String>,
    /// number of plain users; `users[nplain]` (id `nplain + 1`) is the whitelisted "position manager" contract:
    /// the only account that may supply an original caller to the proxy's farm endpoints
    nplain: usize,
    /// per account: energy that left the real energy entry through proxy transactions beyond the factory's own
    /// effects (entry before + recomputed factory effects - entry after), cumulative over the history
    ded: Vec<BigInt>,
}

include!("../proxydex/setup.rs");
include!("../proxydex/exec.rs");
include!("../proxydex/gen.rs");

fn main() {
    run_world::<PxWorld>();
}
