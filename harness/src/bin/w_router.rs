//! World `router`: the real `dex/router` contract plus the real `dex/pair` instances it deploys
//! from a template (`deploy_from_source`), plus "foreign" pair contracts deployed outside the
//! router, driven through the white-box VM.  Serves C14.  Model: lean/MxModel/Core/Router.lean.
//!
//! ids used in op text:  users 1..n, owner 100, router 200, pair template 300 (code only, never
//! initialised), stranger 400, foreign pairs 900.., pairs deployed by the router 1000.. (in order
//! of successful creation).  Tokens: 0 = not a valid ESDT id, i>=1 = "TK<letter>-abcdef"
//! (1..k funded).  The LP token of pair <id> is "LP<id>-abcdef" and is installed (id + local
//! roles) right after a successful createPair, as the repo's tests do instead of the async
//! issue flow.
//!
//! Administration endpoints (session 4): `setTmpPeriod c n` = setTemporaryOwnerPeriod, `clearTmp c` =
//! clearPairTemporaryOwnerStorage (out v1 = returned size), `issueLp c a` = issueLpToken (0 EGLD),
//! `setLocalRoles c a`, `upgradePair c t1 t2`: the REAL endpoints; their asynchronous tail runs against
//! the VM's system-SC / upgradeContract mocks and leaves no observable trace (the issue callback fails
//! in the mock: no initial supply is sent back), so a pair without LP token stays without.
//! `advanceBlock n` sets the block nonce; `bareNext 0|1` is an environment flag: while 1, the LP token of
//! a newly created pair is NOT installed.  State line: blk, tper (getTemporaryOwnerPeriod), tmp
//! (pair_temporary_owner, iteration order, pair:creator:block), nolp (pairs whose own LP token id is invalid).
//!
//! The `EnableSwapByUserModule` of the router is driven too: two real `simple-lock` contracts
//! (LOCKED collections 501 = "LKA-abcdef", 502 = "LKB-abcdef") mint the locked LP tokens a user
//! pays to `setSwapEnabledByUser`.  A locked-token class is `coll orig unlock` in op text
//! (`orig` = a pool token id or a pair id for its LP token) and `coll/orig/unlock` in results;
//! the SFT nonce it got from the simple-lock is looked up in the world's own table.
//!
//! `#[only_owner]` lives in the generated endpoint wrapper, which a white-box call bypasses.
//! The world therefore reads the `only_owner` flag of each endpoint from the compiled contract's
//! own ABI (`router::AbiProvider`) and, when it is set, runs the framework's
//! `check_caller_is_owner()` first — so removing the attribute in /repo removes the check here.

use mxharness::*;
use num_bigint::BigUint;
use num_traits::{One, Zero};
use std::collections::{HashMap, HashSet};

use multiversx_sc::codec::multi_types::{MultiValue2, MultiValue4, OptionalValue};
use multiversx_sc::contract_base::{ContractAbiProvider, ContractBase};
use multiversx_sc::storage::mappers::StorageTokenWrapper;
use multiversx_sc::types::{Address, EsdtLocalRole, ManagedAddress, MultiValueEncoded};
use multiversx_sc_scenario::{
    managed_address, managed_buffer, managed_token_id, rust_biguint, whitebox_legacy::*, DebugApi,
};

use pair::config::ConfigModule as _;
use pair::fee::FeeModule as _;
use pair::pair_actions::add_liq::AddLiquidityModule as _;
use pair::pair_actions::initial_liq::InitialLiquidityModule as _;
use pair::pair_actions::remove_liq::RemoveLiquidityModule as _;
use pair::pair_actions::swap::SwapModule as _;
use pair::pair_actions::views::ViewsModule as _;
use pair::Pair as _;
use pausable::{PausableModule as _, State};
use router::config::ConfigModule as _;
use router::enable_swap_by_user::EnableSwapByUserModule as _;
use simple_lock::locked_token::LockedTokenModule as _;
use simple_lock::SimpleLock as _;
use router::factory::FactoryModule as _;
use router::multi_pair_swap::MultiPairSwap as _;
use router::Router as _;

const M: u64 = 100_000;
const OWNER: u64 = 100;
const ROUTER: u64 = 200;
const TEMPLATE: u64 = 300;
const STRANGER: u64 = 400;
const FOREIGN_BASE: u64 = 900;
const PAIR_BASE: u64 = 1000;
const LOCK_A: u64 = 501;
const LOCK_B: u64 = 502;
/// what `setSwapEnabledByUser` must leave behind (property text / router constants)
const USER_TOTAL_FEE: u64 = 1_000;
const USER_SPECIAL_FEE: u64 = 50;

type PairObj = pair::ContractObj<DebugApi>;
type PairW = ContractObjWrapper<PairObj, fn() -> PairObj>;
type RouterObj = router::ContractObj<DebugApi>;
type RouterW = ContractObjWrapper<RouterObj, fn() -> RouterObj>;
type MBig = multiversx_sc::types::BigUint<DebugApi>;
type LockObj = simple_lock::ContractObj<DebugApi>;
type LockW = ContractObjWrapper<LockObj, fn() -> LockObj>;
fn lock_builder() -> LockObj {
    simple_lock::contract_obj()
}

fn pair_builder() -> PairObj {
    pair::contract_obj()
}
fn router_builder() -> RouterObj {
    router::contract_obj()
}
fn to_big(x: &MBig) -> BigUint {
    BigUint::from_bytes_be(x.to_bytes_be().as_slice())
}
fn mbig(x: &BigUint) -> MBig {
    MBig::from_bytes_be(&x.to_bytes_be())
}
fn tok_bytes(i: usize) -> Vec<u8> {
    if i as u64 == LOCK_A {
        return b"LKA-abcdef".to_vec();
    }
    if i as u64 == LOCK_B {
        return b"LKB-abcdef".to_vec();
    }
    if i == 0 || i > 26 {
        b"notvalid".to_vec()
    } else {
        format!("TK{}-abcdef", (b'A' + (i as u8) - 1) as char).into_bytes()
    }
}
fn lp_bytes(id: u64) -> Vec<u8> {
    format!("LP{}-abcdef", id).into_bytes()
}
/// token bytes -> model id (pool tokens 1..26, LP token of pair id -> id, anything else 0)
fn tok_id(b: &[u8]) -> u64 {
    let s = String::from_utf8_lossy(b).to_string();
    if s == "LKA-abcdef" {
        return LOCK_A;
    }
    if s == "LKB-abcdef" {
        return LOCK_B;
    }
    if let Some(rest) = s.strip_prefix("TK") {
        if rest.len() == 8 && rest.ends_with("-abcdef") {
            let c = rest.as_bytes()[0];
            if c.is_ascii_uppercase() {
                return (c - b'A' + 1) as u64;
            }
        }
    }
    if let Some(rest) = s.strip_prefix("LP") {
        if let Some(num) = rest.strip_suffix("-abcdef") {
            return num.parse().unwrap_or(0);
        }
    }
    0
}

struct PairInfo {
    id: u64,
    w: PairW,
    t1: usize,
    t2: usize,
    lp: Vec<u8>,
    dests: Vec<(Address, usize)>, // fee destinations in insertion order (address, requested token)
    adder: u64,
}

#[derive(Clone, PartialEq, Debug, Default)]
struct PSnap {
    state: u8, // 0 inactive 1 active 2 partial
    r1: BigUint,
    r2: BigUint,
    s: BigUint,
    bal1: BigUint,
    bal2: BigUint,
    own: BigUint,
    total: u64,
    special: u64,
    fee_on: bool,
    rep1: u64, // token ids the pair itself reports
    rep2: u64,
    adder: u64, // `initial_liquidity_adder` as stored by the pair (0 = none)
    lp_valid: bool, // the pair's own `lp_token_identifier` is a valid ESDT id
}

/// a class of LOCKED tokens minted by one of the simple-lock contracts
#[derive(Clone, PartialEq, Debug)]
struct LKey {
    coll: u64,
    orig: u64,
    unlock: u64,
    nonce: u64,
}

#[derive(Clone, PartialEq, Debug, Default)]
struct Snap {
    active: bool,
    cre: bool,
    tpl: bool,
    reg: Vec<(u64, u64, u64)>, // (t1, t2, address id) in the contract's iteration order
    reg_addrs: Vec<u64>,       // getAllPairsManagedAddresses
    rb: Vec<BigUint>,          // router balances of tokens 1..k
    rlp: Vec<BigUint>,         // router balances of every LP token
    pairs: Vec<PSnap>,
    users: Vec<(Vec<BigUint>, Vec<BigUint>, Vec<BigUint>)>, // per account: pool tokens 1..k, LP tokens, locked classes
    burn: Vec<BigUint>,
    epoch: u64,
    wl: Vec<u64>,                          // getCommonTokensForUserPairs, iteration order
    cfg: Vec<(u64, u64, BigUint, u64)>,   // (common token, locked token, min value, min period)
    rlk: Vec<BigUint>,                     // router balances of every locked class
    blk: u64,                              // block nonce as the router sees it
    tper: u64,                             // getTemporaryOwnerPeriod
    tmp: Vec<(u64, u64, u64)>,             // pair_temporary_owner in iteration order: (pair, creator, creation block)
    nolp: Vec<u64>,                        // pairs whose own lp_token_identifier is not a valid ESDT id
    bare: bool,                            // environment flag `bareNext`
}

#[derive(Clone, Debug)]
struct HopTxt {
    addr: u64,
    kind: String,
    tok: usize,
    amt: BigUint,
}

struct RouterWorld {
    b: BlockchainStateWrapper,
    owner: Address,
    users: Vec<Address>,
    stranger: Address,
    router: RouterW,
    template: PairW,
    pairs: Vec<PairInfo>,
    ids: HashMap<Address, u64>,
    ntok: usize,
    funds: BigUint,
    accts: Vec<u64>,
    init_tot: Vec<BigUint>,
    next_dest: u64,
    only_owner: HashMap<String, bool>,
    pending: Vec<String>,
    locks: Vec<LockW>,
    lkeys: Vec<LKey>,
    epoch: u64,
    /// pairs (with liquidity) the owner paused through the router and has not resumed since
    owner_paused: HashSet<u64>,
    /// environment flag: do not install the LP token of the pairs created from now on
    bare_next: bool,
    block: u64,
}

/// is there (still) a temporary-owner entry for pair `a`?
fn post_has_tmp(w: &mut RouterWorld, a: u64) -> bool {
    let pa = w.addr_of(a);
    let mut has = false;
    w.b.execute_query(&w.router, |sc| {
        has = sc.pair_temporary_owner().contains_key(&managed_address!(&pa));
    })
    .assert_ok();
    has
}

fn f_amount_out(total: u64, a: &BigUint, rin: &BigUint, rout: &BigUint) -> BigUint {
    if total > M {
        return BigUint::zero();
    }
    let af = a * BigUint::from(M - total);
    let den = rin * BigUint::from(M) + &af;
    if den.is_zero() {
        return BigUint::zero();
    }
    af * rout / den
}
fn f_amount_in(total: u64, out: &BigUint, rin: &BigUint, rout: &BigUint) -> Option<BigUint> {
    if out >= rout || total >= M {
        return None;
    }
    Some(rin * out * BigUint::from(M) / ((rout - out) * BigUint::from(M - total)) + BigUint::one())
}

impl RouterWorld {
    fn addr_of(&self, id: u64) -> Address {
        if id >= 1 && (id as usize) <= self.users.len() {
            return self.users[(id - 1) as usize].clone();
        }
        match id {
            OWNER => self.owner.clone(),
            ROUTER => self.router.address_ref().clone(),
            TEMPLATE => self.template.address_ref().clone(),
            _ => {
                for p in self.pairs.iter() {
                    if p.id == id {
                        return p.w.address_ref().clone();
                    }
                }
                self.stranger.clone()
            }
        }
    }
    fn pair_ix(&self, id: u64) -> Option<usize> {
        self.pairs.iter().position(|p| p.id == id)
    }
    fn acct_ix(&self, id: u64) -> Option<usize> {
        self.accts.iter().position(|a| *a == id)
    }
    fn id_of(&self, a: &Address) -> u64 {
        *self.ids.get(a).unwrap_or(&0)
    }
    fn bal(&self, a: &Address, t: &[u8]) -> BigUint {
        self.b.get_esdt_balance(a, t, 0)
    }
    fn oo(&self, endpoint: &str) -> bool {
        *self.only_owner.get(endpoint).unwrap_or(&false)
    }
    /// token ids whose `enable_swap_by_user_config` cell the state line reports
    fn cfg_toks(&self) -> Vec<u64> {
        let mut v: Vec<u64> = (1..=(self.ntok as u64 + 1)).collect();
        v.push(LOCK_A);
        v.push(LOCK_B);
        v
    }
    /// bytes of an asset named in op text: pool token 1..26, or the LP token of pair <id>
    fn asset_bytes(&self, id: u64) -> Vec<u8> {
        if id >= FOREIGN_BASE && self.pair_ix(id).is_some() {
            lp_bytes(id)
        } else if id <= 26 {
            tok_bytes(id as usize)
        } else {
            b"notvalid".to_vec()
        }
    }
    fn lock_ix(coll: u64) -> Option<usize> {
        match coll {
            LOCK_A => Some(0),
            LOCK_B => Some(1),
            _ => None,
        }
    }
    fn lkey_ix(&self, coll: u64, orig: u64, unlock: u64) -> Option<usize> {
        self.lkeys.iter().position(|k| k.coll == coll && k.orig == orig && k.unlock == unlock)
    }

    fn psnap(&mut self, ix: usize) -> PSnap {
        let mut s = PSnap::default();
        let (mut r1, mut r2, mut sup, mut st, mut tot, mut sp, mut fee_on) =
            (BigUint::zero(), BigUint::zero(), BigUint::zero(), 0u8, 0u64, 0u64, false);
        let (mut f, mut g): (Vec<u8>, Vec<u8>) = (vec![], vec![]);
        let mut adder: Option<Address> = None;
        let mut lp_valid = false;
        self.b
            .execute_query(&self.pairs[ix].w, |sc| {
                lp_valid = sc.lp_token_identifier().get().is_valid_esdt_identifier();
                adder = sc.initial_liquidity_adder().get().map(|a| a.to_address());
                let (a, b, c) = sc.get_reserves_and_total_supply().into_tuple();
                r1 = to_big(&a);
                r2 = to_big(&b);
                sup = to_big(&c);
                st = match sc.state().get() {
                    State::Inactive => 0,
                    State::Active => 1,
                    State::PartialActive => 2,
                };
                tot = sc.total_fee_percent().get();
                sp = sc.special_fee_percent().get();
                fee_on = sc.is_fee_enabled();
                f = sc.first_token_id().get().to_boxed_bytes().as_slice().to_vec();
                g = sc.second_token_id().get().to_boxed_bytes().as_slice().to_vec();
            })
            .assert_ok();
        s.r1 = r1;
        s.r2 = r2;
        s.s = sup;
        s.state = st;
        s.total = tot;
        s.special = sp;
        s.fee_on = fee_on;
        s.rep1 = tok_id(&f);
        s.rep2 = tok_id(&g);
        s.adder = adder.map(|a| self.id_of(&a)).unwrap_or(0);
        s.lp_valid = lp_valid;
        let p = &self.pairs[ix];
        let pa = p.w.address_ref().clone();
        s.bal1 = self.bal(&pa, &tok_bytes(p.t1));
        s.bal2 = self.bal(&pa, &tok_bytes(p.t2));
        s.own = self.bal(&pa, &p.lp);
        s
    }

    fn snap(&mut self) -> Snap {
        let mut s = Snap::default();
        let (mut active, mut cre, mut tpl) = (false, false, false);
        let mut keys: Vec<(Vec<u8>, Vec<u8>)> = vec![];
        let mut addrs: Vec<Address> = vec![];
        let mut wl: Vec<Vec<u8>> = vec![];
        let mut cfg: Vec<(u64, Vec<u8>, BigUint, u64)> = vec![];
        let cfg_toks = self.cfg_toks();
        let (mut blk, mut tper) = (0u64, 0u64);
        let mut tmp: Vec<(Address, Address, u64)> = vec![];
        self.b
            .execute_query(&self.router, |sc| {
                blk = sc.blockchain().get_block_nonce();
                tper = sc.temporary_owner_period().get();
                for (k, v) in sc.pair_temporary_owner().iter() {
                    tmp.push((k.to_address(), v.0.to_address(), v.1));
                }
                for t in sc.common_tokens_for_user_pairs().iter() {
                    wl.push(t.to_boxed_bytes().as_slice().to_vec());
                }
                for t in cfg_toks.iter() {
                    let m = sc.enable_swap_by_user_config(&managed_token_id!(tok_bytes(*t as usize)));
                    if !m.is_empty() {
                        let c = m.get();
                        cfg.push((*t, c.locked_token_id.to_boxed_bytes().as_slice().to_vec(), to_big(&c.min_locked_token_value), c.min_lock_period_epochs));
                    }
                }
                active = sc.state().get();
                cre = sc.pair_creation_enabled().get();
                tpl = !sc.pair_template_address().is_empty();
                for pt in sc.get_all_token_pairs().into_iter() {
                    keys.push((
                        pt.first_token_id.to_boxed_bytes().as_slice().to_vec(),
                        pt.second_token_id.to_boxed_bytes().as_slice().to_vec(),
                    ));
                }
                for a in sc.get_all_pairs_addresses().into_iter() {
                    addrs.push(a.to_address());
                }
            })
            .assert_ok();
        s.active = active;
        s.cre = cre;
        s.tpl = tpl;
        s.epoch = self.epoch;
        s.blk = blk;
        s.tper = tper;
        s.tmp = tmp.iter().map(|e| (self.id_of(&e.0), self.id_of(&e.1), e.2)).collect();
        s.bare = self.bare_next;
        s.wl = wl.iter().map(|t| tok_id(t)).collect();
        s.cfg = cfg.into_iter().map(|(t, l, m, p)| (t, tok_id(&l), m, p)).collect();
        s.reg_addrs = addrs.iter().map(|a| self.id_of(a)).collect();
        for (i, k) in keys.iter().enumerate() {
            let a = s.reg_addrs.get(i).copied().unwrap_or(0);
            s.reg.push((tok_id(&k.0), tok_id(&k.1), a));
        }
        let ra = self.router.address_ref().clone();
        let mut tot: Vec<BigUint> = vec![];
        for t in 1..=self.ntok {
            let x = self.bal(&ra, &tok_bytes(t));
            tot.push(x.clone());
            s.rb.push(x);
        }
        for k in self.lkeys.iter() {
            s.rlk.push(self.b.get_esdt_balance(&ra, &tok_bytes(k.coll as usize), k.nonce));
        }
        // pool tokens locked in the simple-lock contracts still exist
        for l in self.locks.iter() {
            for t in 1..=self.ntok {
                tot[t - 1] += self.bal(l.address_ref(), &tok_bytes(t));
            }
        }
        for ix in 0..self.pairs.len() {
            let lp = self.pairs[ix].lp.clone();
            s.rlp.push(self.bal(&ra, &lp));
            let ps = self.psnap(ix);
            let pa = self.pairs[ix].w.address_ref().clone();
            for t in 1..=self.ntok {
                tot[t - 1] += self.bal(&pa, &tok_bytes(t));
            }
            if !ps.lp_valid {
                s.nolp.push(self.pairs[ix].id);
            }
            s.pairs.push(ps);
        }
        for id in self.accts.clone() {
            let a = self.addr_of(id);
            let mut tb = vec![];
            for t in 1..=self.ntok {
                let x = self.bal(&a, &tok_bytes(t));
                tot[t - 1] += &x;
                tb.push(x);
            }
            let mut lb = vec![];
            for p in self.pairs.iter() {
                lb.push(self.bal(&a, &p.lp));
            }
            let mut kb = vec![];
            for k in self.lkeys.iter() {
                kb.push(self.b.get_esdt_balance(&a, &tok_bytes(k.coll as usize), k.nonce));
            }
            s.users.push((tb, lb, kb));
        }
        for t in 1..=self.ntok {
            s.burn.push(if self.init_tot.is_empty() { BigUint::zero() } else { &self.init_tot[t - 1] - &tot[t - 1] });
        }
        if self.init_tot.is_empty() {
            self.init_tot = tot;
        }
        s
    }

    fn join(v: &[BigUint]) -> String {
        v.iter().map(|x| x.to_string()).collect::<Vec<_>>().join(",")
    }
    fn or_dash(s: String) -> String {
        if s.is_empty() {
            "-".into()
        } else {
            s
        }
    }

    fn state_line(&self, s: &Snap) -> String {
        let reg = Self::or_dash(s.reg.iter().map(|e| format!("{}-{}-{}", e.0, e.1, e.2)).collect::<Vec<_>>().join(","));
        let mut ps = vec![];
        for (i, p) in self.pairs.iter().enumerate() {
            let q = &s.pairs[i];
            let st = match q.state {
                0 => "inactive",
                1 => "active",
                _ => "partial",
            };
            ps.push(format!("{}:{}:{}:{}:{}:{}:{}:{}:{}:{}:{}:{}:{}", p.id, p.t1, p.t2, st, q.r1, q.r2, q.s, q.bal1, q.bal2, q.own, q.total, q.special, q.adder));
        }
        let mut us = vec![];
        for (i, id) in self.accts.iter().enumerate() {
            us.push(format!("{}:{}:{}:{}", id, Self::join(&s.users[i].0), Self::or_dash(Self::join(&s.users[i].1)), Self::or_dash(Self::join(&s.users[i].2))));
        }
        let wl = Self::or_dash(s.wl.iter().map(|t| t.to_string()).collect::<Vec<_>>().join(","));
        let cfg = Self::or_dash(s.cfg.iter().map(|c| format!("{}:{}:{}:{}", c.0, c.1, c.2, c.3)).collect::<Vec<_>>().join(","));
        let lks = Self::or_dash(self.lkeys.iter().map(|k| format!("{}/{}/{}", k.coll, k.orig, k.unlock)).collect::<Vec<_>>().join(","));
        format!(
            "act={} cre={} tpl={} ep={} blk={} tper={} tmp={} nolp={} bare={} reg={} rb={} rlk={} burn={} wl={} cfg={} lks={} pairs={} users={}",
            s.active as u8, s.cre as u8, s.tpl as u8, s.epoch, s.blk, s.tper,
            Self::or_dash(s.tmp.iter().map(|e| format!("{}:{}:{}", e.0, e.1, e.2)).collect::<Vec<_>>().join(",")),
            Self::or_dash(s.nolp.iter().map(|x| x.to_string()).collect::<Vec<_>>().join(",")), s.bare as u8, reg, Self::join(&s.rb), Self::or_dash(Self::join(&s.rlk)),
            Self::join(&s.burn), wl, cfg, lks, Self::or_dash(ps.join(";")), us.join(";")
        )
    }

    /// invariant clauses of C14 evaluated on the real state after every transaction
    fn oracle_registry(&mut self, tr: &mut Trace, site: &str, s: &Snap) {
        // one entry per unordered token pair
        for i in 0..s.reg.len() {
            for j in (i + 1)..s.reg.len() {
                let (a, b) = (&s.reg[i], &s.reg[j]);
                if (a.0 == b.0 && a.1 == b.1) || (a.0 == b.1 && a.1 == b.0) {
                    tr.fail("C14", "registry_unique", site, &format!("entries {:?} and {:?} are the same unordered pair", a, b));
                }
                if a.2 == b.2 {
                    tr.fail("C14", "registry_addr_unique", site, &format!("entries {:?} and {:?} share an address", a, b));
                }
            }
        }
        if s.reg.len() != s.reg_addrs.len() {
            tr.fail("C14", "registry_views_agree", site, "getAllPairTokens and getAllPairsManagedAddresses differ in length");
        }
        // every entry points to a pair contract that reports the same tokens; lookups are order-insensitive
        let n = self.ntok;
        let mut table: Vec<(usize, usize, Address)> = vec![];
        self.b
            .execute_query(&self.router, |sc| {
                for a in 0..=(n + 1) {
                    for b2 in 0..=(n + 1) {
                        let x = sc.get_pair(managed_token_id!(tok_bytes(a)), managed_token_id!(tok_bytes(b2)));
                        table.push((a, b2, x.to_address()));
                    }
                }
            })
            .assert_ok();
        let zero = Address::zero();
        let mut look: HashMap<(usize, usize), u64> = HashMap::new();
        for (a, b2, x) in table.iter() {
            let id = if *x == zero { 0 } else { self.id_of(x) };
            look.insert((*a, *b2), id);
        }
        for a in 0..=(n + 1) {
            for b2 in 0..=(n + 1) {
                if look[&(a, b2)] != look[&(b2, a)] {
                    tr.fail("C14", "getPair_symmetric", site, &format!("getPair({a},{b2})={} getPair({b2},{a})={}", look[&(a, b2)], look[&(b2, a)]));
                }
                let expect = s.reg.iter().find(|e| (e.0 as usize == a && e.1 as usize == b2) || (e.0 as usize == b2 && e.1 as usize == a)).map(|e| e.2).unwrap_or(0);
                if look[&(a, b2)] != expect {
                    tr.fail("C14", "getPair_is_registry_entry", site, &format!("getPair({a},{b2})={} registry says {}", look[&(a, b2)], expect));
                }
            }
        }
        for e in s.reg.iter() {
            match self.pair_ix(e.2) {
                None => tr.fail("C14", "registry_entry_is_pair", site, &format!("entry {:?} is not a deployed pair", e)),
                Some(ix) => {
                    let q = &s.pairs[ix];
                    let same = (q.rep1 == e.0 && q.rep2 == e.1) || (q.rep1 == e.1 && q.rep2 == e.0);
                    if !same {
                        tr.fail("C14", "registry_entry_tokens_match", site, &format!("entry {:?} but the pair reports ({},{})", e, q.rep1, q.rep2));
                    }
                }
            }
        }
        // the router never keeps anything
        if s.rb.iter().any(|x| !x.is_zero()) || s.rlp.iter().any(|x| !x.is_zero()) || s.rlk.iter().any(|x| !x.is_zero()) {
            tr.fail("C14", "router_keeps_nothing", site, &format!("router balances {:?} lp {:?} locked {:?}", s.rb, s.rlp, s.rlk));
        }
    }

    fn parse_hops(ws: &[&str]) -> Vec<HopTxt> {
        ws.iter()
            .map(|w| {
                let p: Vec<&str> = w.split(':').collect();
                HopTxt { addr: p[0].parse().unwrap(), kind: p[1].to_string(), tok: p[2].parse().unwrap(), amt: big(p[3]) }
            })
            .collect()
    }

    /// what the pairs' own views promise for the chain, evaluated just before the transaction.
    /// None = some view refused / pair revisited (views cannot be asked in mid-transaction)
    fn view_chain(&mut self, tok_in: usize, amount: &BigUint, hops: &[HopTxt]) -> Option<Vec<(BigUint, BigUint)>> {
        let mut cur_tok = tok_in;
        let mut cur = amount.clone();
        let mut seen: HashSet<u64> = HashSet::new();
        let mut res = vec![];
        for h in hops {
            let ix = self.pair_ix(h.addr)?;
            if !seen.insert(h.addr) {
                return None;
            }
            let mut v = BigUint::zero();
            let (ct, ht) = (tok_bytes(cur_tok), tok_bytes(h.tok));
            let (c2, a2) = (cur.clone(), h.amt.clone());
            let kind = h.kind.clone();
            let r = self.b.execute_query(&self.pairs[ix].w, |sc| {
                let x = if kind == "in" {
                    sc.get_amount_out_view(managed_token_id!(ct), mbig(&c2))
                } else {
                    sc.get_amount_in_view(managed_token_id!(ht), mbig(&a2))
                };
                v = to_big(&x);
            });
            if r.result_status != 0 {
                return None;
            }
            // the view only looks at one token; the swap also needs the other one to match
            let p = &self.pairs[ix];
            let okdir = (cur_tok == p.t1 && h.tok == p.t2) || (cur_tok == p.t2 && h.tok == p.t1);
            if !okdir {
                return None;
            }
            if h.kind == "in" {
                res.push((v.clone(), BigUint::zero()));
                cur = v;
            } else if h.kind == "out" {
                if v > cur {
                    return None;
                }
                res.push((h.amt.clone(), &cur - &v));
                cur = h.amt.clone();
            } else {
                return None;
            }
            cur_tok = h.tok;
        }
        Some(res)
    }

    /// the same chain recomputed from the swap formulas of the property text on the reserves
    /// observed before the transaction.  Returns (per-hop (out, residual), exact?)
    fn formula_chain(&self, pre: &Snap, tok_in: usize, amount: &BigUint, hops: &[HopTxt]) -> Option<(Vec<(BigUint, BigUint)>, bool)> {
        let mut res: HashMap<u64, (BigUint, BigUint)> = HashMap::new();
        let mut touched_fee: HashSet<u64> = HashSet::new();
        let mut cur_tok = tok_in;
        let mut cur = amount.clone();
        let mut out = vec![];
        for h in hops {
            let ix = self.pair_ix(h.addr)?;
            let p = &self.pairs[ix];
            let q = &pre.pairs[ix];
            let (r1, r2) = res.get(&h.addr).cloned().unwrap_or((q.r1.clone(), q.r2.clone()));
            if touched_fee.contains(&h.addr) {
                // fee routing of the earlier visit moved the reserves in a way not recomputed here: no verdict
                return Some((out, false));
            }
            let ab = if cur_tok == p.t1 && h.tok == p.t2 {
                true
            } else if cur_tok == p.t2 && h.tok == p.t1 {
                false
            } else {
                return None;
            };
            let (rin, rout) = if ab { (r1.clone(), r2.clone()) } else { (r2.clone(), r1.clone()) };
            let (o, charged, resid) = if h.kind == "in" {
                let o = f_amount_out(q.total, &cur, &rin, &rout);
                if o.is_zero() || o >= rout || o < h.amt || h.amt.is_zero() {
                    return None;
                }
                (o, cur.clone(), BigUint::zero())
            } else if h.kind == "out" {
                if h.amt.is_zero() {
                    return None;
                }
                let need = f_amount_in(q.total, &h.amt, &rin, &rout)?;
                if need > cur {
                    return None;
                }
                (h.amt.clone(), need.clone(), &cur - &need)
            } else {
                return None;
            };
            let fee = if q.fee_on { &charged * BigUint::from(q.special) / BigUint::from(M) } else { BigUint::zero() };
            if q.fee_on && !fee.is_zero() {
                touched_fee.insert(h.addr);
            }
            let (nin, nout) = (&rin + &charged - &fee, &rout - &o);
            res.insert(h.addr, if ab { (nin, nout) } else { (nout, nin) });
            out.push((o.clone(), resid));
            cur = o;
            cur_tok = h.tok;
        }
        Some((out, true))
    }

    fn expected_pays(tok_in: usize, hops: &[HopTxt], rs: &[(BigUint, BigUint)]) -> Vec<(u64, BigUint)> {
        let mut pays = vec![];
        let mut cur_tok = tok_in;
        let mut last = (tok_in as u64, BigUint::zero());
        for (h, r) in hops.iter().zip(rs.iter()) {
            if !r.1.is_zero() {
                pays.push((cur_tok as u64, r.1.clone()));
            }
            last = (h.tok as u64, r.0.clone());
            cur_tok = h.tok;
        }
        pays.push(last);
        pays
    }

    fn setup_new_pair(&mut self, w: PairW, id: u64, t1: usize, t2: usize, adder: u64, bare: bool) {
        let lp = lp_bytes(id);
        let zero = rust_biguint!(0);
        let owner = self.owner.clone();
        let lpc = lp.clone();
        if !bare {
            self.b
                .execute_tx(&owner, &w, &zero, |sc| {
                    sc.lp_token_identifier().set(&managed_token_id!(lpc));
                })
                .assert_ok();
            self.b.set_esdt_local_roles(w.address_ref(), &lp, &[EsdtLocalRole::Mint, EsdtLocalRole::Burn]);
        }
        self.b.set_esdt_local_roles(w.address_ref(), &tok_bytes(t1), &[EsdtLocalRole::Burn]);
        self.b.set_esdt_local_roles(w.address_ref(), &tok_bytes(t2), &[EsdtLocalRole::Burn]);
        self.ids.insert(w.address_ref().clone(), id);
        self.pairs.push(PairInfo { id, w, t1, t2, lp, dests: vec![], adder });
    }
}

impl World for RouterWorld {
    const NAME: &'static str = "router";

    fn gen_header(rng: &mut Rng, _h: u64, _tier: &str) -> String {
        let users = rng.range(2, 4);
        let tokens = rng.range(3, 5);
        let template = if rng.chance(1, 12) { 0 } else { 1 };
        let nf = match rng.below(4) {
            0 => 0,
            1 | 2 => 1,
            _ => 2,
        };
        let mut f = vec![];
        for _ in 0..nf {
            let a = rng.range(1, tokens);
            let mut b = rng.range(1, tokens);
            if b == a {
                b = a % tokens + 1;
            }
            let total = *rng.pick(&[0u64, 30, 300, 1000, 5000]);
            let special = if rng.chance(1, 2) { total / 6 } else { rng.range(0, total) };
            f.push(format!("{a}:{b}:{total}:{special}"));
        }
        let foreign = if f.is_empty() { "-".to_string() } else { f.join(",") };
        format!("users={users} tokens={tokens} template={template} funds={} foreign={foreign}", pow10(45))
    }

    fn new(header: &str) -> Self {
        let nusers = kv_u64(header, "users", 3);
        let ntok = kv_u64(header, "tokens", 5) as usize;
        let template_set = kv_u64(header, "template", 1) != 0;
        let funds = big(kv(header, "funds").unwrap_or("0"));
        let zero = rust_biguint!(0);
        let mut b = BlockchainStateWrapper::new();
        let owner = b.create_user_account(&zero);
        let stranger = b.create_user_account(&zero);
        let mut users = vec![];
        for _ in 0..nusers {
            users.push(b.create_user_account(&zero));
        }
        for a in users.iter().chain(std::iter::once(&owner)) {
            for t in 1..=ntok {
                b.set_esdt_balance(a, &tok_bytes(t), &funds);
            }
        }
        let router: RouterW = b.create_sc_account(&zero, Some(&owner), router_builder as fn() -> RouterObj, "router.wasm");
        // the template only provides code (deploy_from_source copies code, not storage)
        let template: PairW = b.create_sc_account(&zero, Some(router.address_ref()), pair_builder as fn() -> PairObj, "pair.wasm");
        let ta = template.address_ref().clone();
        b.execute_tx(&owner, &router, &zero, |sc| {
            if template_set {
                sc.init(OptionalValue::Some(managed_address!(&ta)));
            } else {
                sc.init(OptionalValue::None);
            }
        })
        .assert_ok();
        // two real simple-lock contracts, set up as in the repo's own router test
        let mut locks: Vec<LockW> = vec![];
        for coll in [LOCK_A, LOCK_B] {
            let lw: LockW = b.create_sc_account(&zero, Some(&owner), lock_builder as fn() -> LockObj, "simple-lock.wasm");
            let tb = tok_bytes(coll as usize);
            let tb2 = tb.clone();
            b.execute_tx(&owner, &lw, &zero, |sc| {
                sc.init();
                sc.locked_token().set_token_id(managed_token_id!(tb2));
            })
            .assert_ok();
            b.set_esdt_local_roles(lw.address_ref(), &tb, &[EsdtLocalRole::NftCreate, EsdtLocalRole::NftAddQuantity, EsdtLocalRole::NftBurn]);
            locks.push(lw);
        }
        b.set_block_epoch(0);
        b.set_block_nonce(0);
        let mut only_owner = HashMap::new();
        for e in router::AbiProvider::abi().endpoints.iter() {
            only_owner.insert(e.name.to_string(), e.only_owner);
        }
        let mut ids = HashMap::new();
        ids.insert(owner.clone(), OWNER);
        ids.insert(router.address_ref().clone(), ROUTER);
        ids.insert(template.address_ref().clone(), TEMPLATE);
        ids.insert(stranger.clone(), STRANGER);
        for (i, u) in users.iter().enumerate() {
            ids.insert(u.clone(), i as u64 + 1);
        }
        let mut accts: Vec<u64> = (1..=nusers).collect();
        accts.push(OWNER);
        let mut w = RouterWorld {
            b, owner, users, stranger, router, template, pairs: vec![], ids, ntok, funds, accts,
            init_tot: vec![], next_dest: 0, only_owner, pending: vec![],
            locks, lkeys: vec![], epoch: 0, owner_paused: HashSet::new(), bare_next: false, block: 0,
        };
        // foreign pairs: real pair contracts deployed outside the router, naming the router as theirs
        let fspec = kv(header, "foreign").unwrap_or("-").to_string();
        if fspec != "-" {
            for (i, f) in fspec.split(',').enumerate() {
                let p: Vec<u64> = f.split(':').map(|x| x.parse().unwrap()).collect();
                let (t1, t2, total, special) = (p[0] as usize, p[1] as usize, p[2], p[3]);
                let id = FOREIGN_BASE + i as u64;
                let owner = w.owner.clone();
                let pw: PairW = w.b.create_sc_account(&zero, Some(&owner), pair_builder as fn() -> PairObj, "pair.wasm");
                let ra = w.router.address_ref().clone();
                w.b.execute_tx(&owner, &pw, &zero, |sc| {
                    sc.init(
                        managed_token_id!(tok_bytes(t1)),
                        managed_token_id!(tok_bytes(t2)),
                        managed_address!(&ra),
                        managed_address!(&owner),
                        total,
                        special,
                        ManagedAddress::<DebugApi>::zero(),
                        MultiValueEncoded::<DebugApi, ManagedAddress<DebugApi>>::new(),
                    );
                    sc.state().set(State::Active);
                })
                .assert_ok();
                w.setup_new_pair(pw, id, t1, t2, 0, false);
            }
        }
        let _ = w.snap(); // records the initial token totals for the burn ledger
        w
    }

    fn gen_line(&mut self, rng: &mut Rng, step: u64, _tier: &str) -> (char, String) {
        if let Some(p) = self.pending.pop() {
            return ('O', p);
        }
        let s = self.snap();
        let nu = self.users.len() as u64;
        let k = self.ntok as u64;
        let u = if rng.chance(1, 15) { OWNER } else { rng.range(1, nu) };
        let one = BigUint::one();
        let registered: Vec<usize> = s.reg.iter().filter_map(|e| self.pair_ix(e.2)).collect();
        let unregistered: Vec<usize> = (0..self.pairs.len()).filter(|i| !registered.contains(i)).collect();
        let owner_or = |rng: &mut Rng, p_owner: u64| -> u64 { if rng.chance(p_owner, 100) { OWNER } else { rng.range(1, nu) } };

        // ---------- bootstrap priorities ----------
        if !s.tpl && rng.chance(7, 10) {
            return ('O', format!("setTemplate {}", owner_or(rng, 90)));
        }
        if !s.active && rng.chance(3, 10) {
            // the router is paused: the state-gated endpoints must refuse, the two temporary-owner ones must not
            let c = owner_or(rng, 70);
            return match rng.below(5) {
                0 => ('O', format!("setTmpPeriod {c} {}", *rng.pick(&[0u64, 2, 5, 50]))),
                1 => ('O', format!("clearTmp {c}")),
                2 if !s.reg.is_empty() => {
                    let e = rng.pick(&s.reg);
                    ('O', format!("upgradePair {} {} {}", owner_or(rng, 90), e.0, e.1))
                }
                _ => ('O', self.gen_issue(rng, &s, None)),
            };
        }
        if !s.active && rng.chance(7, 10) {
            return ('O', format!("resume {} {}", owner_or(rng, 90), ROUTER));
        }
        let fresh_pair = |rng: &mut Rng, s: &Snap| -> (u64, u64) {
            // a token pair not yet registered if possible
            for _ in 0..8 {
                let a = rng.range(1, k);
                let b = rng.range(1, k);
                if a != b && !s.reg.iter().any(|e| (e.0 == a && e.1 == b) || (e.0 == b && e.1 == a)) {
                    return (a, b);
                }
            }
            (rng.range(1, k), rng.range(1, k))
        };
        if registered.len() < 2 && step < 20 && rng.chance(6, 10) {
            let (a, b) = fresh_pair(rng, &s);
            let adder = if rng.chance(1, 3) { rng.range(1, nu) } else { 0 };
            return ('O', format!("createPair {} {} {} {} 300 50", OWNER, a, b, adder));
        }
        for &ix in registered.iter() {
            let q = &s.pairs[ix];
            if q.s.is_zero() && rng.chance(1, 2) {
                return ('O', self.gen_liquidity(rng, &s, ix, u));
            }
            if !q.s.is_zero() && q.state != 1 {
                if q.adder != 0 {
                    // a pair whose swaps the initial liquidity adder may enable himself: mostly let the
                    // user scenario run (on an owner-paused pair it ends in a call that must be refused)
                    let go = if q.state == 2 { 65 } else { 45 };
                    if rng.chance(go, 100) {
                        return ('O', self.gen_enable_step(rng, &s, ix));
                    }
                    if rng.chance(if q.state == 2 { 15 } else { 50 }, 100) {
                        return ('O', format!("resume {} {}", owner_or(rng, 92), self.pairs[ix].id));
                    }
                } else if rng.chance(6, 10) {
                    return ('O', format!("resume {} {}", owner_or(rng, 92), self.pairs[ix].id));
                }
            }
        }

        let weights = [
            10u64, // 0 createPair
            4,     // 1 removePair
            3,     // 2 setCreation
            6,     // 3 pause / resume
            4,     // 4 setFeeOn / setFeeOff
            22,    // 5 liquidity / direct swaps
            34,    // 6 multi
            6,     // 7 queries
            3,     // 8 malformed
            4,     // 9 enable-by-user configuration (owner and others)
            5,     // 10 lock / unlock in the simple-lock contracts
            7,     // 11 setSwapEnabledByUser by holders of locked tokens, pairs in any state
            3,     // 12 epoch advance
            3,     // 13 owner pauses a pair whose adder holds locked LP tokens, the adder tries to re-enable
            4,     // 14 setTemporaryOwnerPeriod / clearPairTemporaryOwnerStorage
            9,     // 15 issueLpToken / setLocalRoles
            3,     // 16 upgradePair
            6,     // 17 block nonce advance
            4,     // 18 a pair created WITHOUT installing its LP token
        ];
        match rng.weighted(&weights) {
            0 => {
                let c = owner_or(rng, 55);
                let (mut a, mut b) = match rng.below(10) {
                    0 | 1 if !s.reg.is_empty() => {
                        let e = rng.pick(&s.reg);
                        if rng.chance(1, 2) { (e.0, e.1) } else { (e.1, e.0) } // duplicate, either order
                    }
                    _ => fresh_pair(rng, &s),
                };
                match rng.below(30) {
                    0 => b = a,
                    1 => a = 0,
                    2 => b = 0,
                    3 => b = k + 1, // valid id nobody holds
                    _ => {}
                }
                let adder = if rng.chance(1, 3) { rng.range(1, nu) } else { 0 };
                let fees = if c == OWNER {
                    match rng.below(12) {
                        0 => "- -".to_string(),
                        1 => "5000 5000".to_string(),
                        2 => "5001 50".to_string(),
                        3 => "99999 0".to_string(),
                        4 => "100000 0".to_string(),
                        5 => "100 101".to_string(),
                        6 => "0 0".to_string(),
                        7 => {
                            let t = rng.range(0, 5000);
                            format!("{} {}", t, rng.range(0, t))
                        }
                        _ => "300 50".to_string(),
                    }
                } else if rng.chance(1, 4) {
                    "1000 1000".to_string() // ignored for non-owners
                } else {
                    "- -".to_string()
                };
                ('O', format!("createPair {c} {a} {b} {adder} {fees}"))
            }
            1 => {
                let c = owner_or(rng, 75);
                let (a, b) = if !s.reg.is_empty() && rng.chance(8, 10) {
                    let e = rng.pick(&s.reg);
                    if rng.chance(1, 2) { (e.0, e.1) } else { (e.1, e.0) }
                } else {
                    (rng.range(0, k), rng.range(1, k))
                };
                ('O', format!("removePair {c} {a} {b}"))
            }
            2 => ('O', format!("setCreation {} {}", owner_or(rng, 80), if rng.chance(2, 3) { 1 } else { 0 })),
            3 => {
                let c = owner_or(rng, 85);
                let target = match rng.below(20) {
                    0..=10 if !registered.is_empty() => self.pairs[*rng.pick(&registered)].id,
                    11..=14 if !unregistered.is_empty() => self.pairs[*rng.pick(&unregistered)].id,
                    15 | 16 => ROUTER,
                    17 => rng.range(1, nu),
                    18 => TEMPLATE,
                    _ => if !registered.is_empty() { self.pairs[*rng.pick(&registered)].id } else { ROUTER },
                };
                let verb = if target == ROUTER { if rng.chance(1, 3) { "pause" } else { "resume" } } else if rng.chance(1, 4) { "pause" } else { "resume" };
                ('O', format!("{verb} {c} {target}"))
            }
            4 => {
                let c = owner_or(rng, 88);
                let pool: Vec<usize> = if rng.chance(85, 100) && !registered.is_empty() { registered.clone() } else { (0..self.pairs.len()).collect() };
                if pool.is_empty() {
                    return ('O', format!("setFeeOn {c} {} 1", ROUTER));
                }
                let ix = *rng.pick(&pool);
                let p = &self.pairs[ix];
                if !p.dests.is_empty() && rng.chance(1, 3) {
                    let i = rng.below(p.dests.len() as u64) as usize;
                    let tok = if rng.chance(1, 8) { rng.range(1, k) as usize } else { p.dests[i].1 };
                    let i = if rng.chance(1, 12) { p.dests.len() } else { i };
                    ('O', format!("setFeeOff {c} {} {i} {tok}", p.id))
                } else {
                    let tok = match rng.below(8) {
                        0 => rng.range(1, k) as usize,
                        1..=4 => p.t1,
                        _ => p.t2,
                    };
                    ('O', format!("setFeeOn {c} {} {tok}", p.id))
                }
            }
            5 => {
                if self.pairs.is_empty() {
                    let (a, b) = fresh_pair(rng, &s);
                    return ('O', format!("createPair {} {a} {b} 0 300 50", OWNER));
                }
                let ix = if !registered.is_empty() && rng.chance(8, 10) { *rng.pick(&registered) } else { rng.below(self.pairs.len() as u64) as usize };
                ('O', self.gen_liquidity(rng, &s, ix, u))
            }
            6 => self.gen_multi(rng, &s, u, &registered, &unregistered),
            9 => ('O', self.gen_cfg(rng, &s)),
            10 => ('O', self.gen_lock(rng, &s, u)),
            11 => {
                if !registered.is_empty() && rng.chance(1, 3) {
                    let ix = *rng.pick(&registered);
                    return ('O', self.gen_enable_step(rng, &s, ix));
                }
                ('O', self.gen_enable_any(rng, &s, u))
            }
            12 => ('O', format!("advance {}", s.epoch + *rng.pick(&[1u64, 1, 1, 2, 3, 5, 20]))),
            13 => {
                // an adder holding locked LP tokens of his (registered, live) pair
                let mut c: Vec<(usize, u64, usize, BigUint)> = vec![];
                for &ix in registered.iter() {
                    let q = &s.pairs[ix];
                    if q.adder == 0 || q.s.is_zero() {
                        continue;
                    }
                    if let Some(ai) = self.acct_ix(q.adder) {
                        for (ki, key) in self.lkeys.iter().enumerate() {
                            if key.orig == self.pairs[ix].id && !s.users[ai].2[ki].is_zero() {
                                c.push((ix, q.adder, ki, s.users[ai].2[ki].clone()));
                            }
                        }
                    }
                }
                if c.is_empty() {
                    return ('O', self.gen_lock(rng, &s, u));
                }
                let (ix, adder, ki, bal) = rng.pick(&c).clone();
                let key = self.lkeys[ki].clone();
                let id = self.pairs[ix].id;
                self.pending.push(format!("enableByUser {} {} {} {} {} {}", adder, id, key.coll, key.orig, key.unlock, bal));
                if rng.chance(1, 3) {
                    // something harmless in between
                    self.pending.push(format!("advance {}", s.epoch));
                }
                ('O', format!("pause {} {}", OWNER, id))
            }
            14 => {
                let c = owner_or(rng, 80);
                if rng.chance(3, 4) {
                    ('O', format!("setTmpPeriod {c} {}", *rng.pick(&[0u64, 1, 2, 3, 5, 8, 20, 50])))
                } else {
                    ('O', format!("clearTmp {c}"))
                }
            }
            15 => ('O', self.gen_issue(rng, &s, None)),
            16 => {
                let c = owner_or(rng, 85);
                let (a, b) = if !s.reg.is_empty() && rng.chance(8, 10) {
                    let e = rng.pick(&s.reg);
                    if rng.chance(1, 2) { (e.0, e.1) } else { (e.1, e.0) }
                } else {
                    match rng.below(3) {
                        0 => (rng.range(0, k), rng.range(0, k + 1)),
                        1 => { let a = rng.range(1, k); (a, a) }
                        _ => fresh_pair(rng, &s),
                    }
                };
                ('O', format!("upgradePair {c} {a} {b}"))
            }
            17 => ('O', format!("advanceBlock {}", s.blk + *rng.pick(&[0u64, 1, 1, 2, 3, 5, 10, 60]))),
            18 => {
                let c = if s.cre { owner_or(rng, 40) } else { owner_or(rng, 85) };
                let (a, b) = fresh_pair(rng, &s);
                let adder = if rng.chance(1, 4) { rng.range(1, nu) } else { 0 };
                let fees = if c == OWNER { "300 50" } else { "- -" };
                self.pending.push("bareNext 0".to_string());
                self.pending.push(format!("createPair {c} {a} {b} {adder} {fees}"));
                ('O', "bareNext 1".to_string())
            }
            7 => match rng.below(4) {
                3 => ('Q', format!("enableCfg {}", if !s.wl.is_empty() && rng.chance(2, 3) { *rng.pick(&s.wl) } else { rng.range(0, k + 1) })),
                0 => ('Q', format!("getPair {} {}", rng.range(0, k + 1), rng.range(0, k + 1))),
                _ if !self.pairs.is_empty() => {
                    let ix = rng.below(self.pairs.len() as u64) as usize;
                    let p = &self.pairs[ix];
                    let q = &s.pairs[ix];
                    let t = if rng.chance(1, 10) { rng.range(1, k) as usize } else if rng.chance(1, 2) { p.t1 } else { p.t2 };
                    let r = if t == p.t1 { &q.r1 } else { &q.r2 };
                    if rng.chance(1, 2) {
                        ('Q', format!("amountOut {} {} {}", p.id, t, rng.big_range(&BigUint::zero(), &(r + &one))))
                    } else {
                        ('Q', format!("amountIn {} {} {}", p.id, t, rng.big_range(&BigUint::zero(), &(r + &one))))
                    }
                }
                _ => ('Q', format!("getPair {} {}", rng.range(1, k), rng.range(1, k))),
            },
            _ => match rng.below(4) {
                0 => ('O', format!("bad multiNoPayment {u}")),
                1 => ('O', format!("bad multiTwoPayments {u}")),
                2 => ('O', format!("multi {u} {} {}", rng.range(1, k), rng.range(1, 1000))), // empty hop list
                _ => ('O', format!("multi {u} {} {} {}:in:{}:1", rng.range(1, k), &self.funds * 2u32, PAIR_BASE, rng.range(1, k))), // more than the caller owns
            },
        }
    }

    fn exec(&mut self, tr: &mut Trace, text: &str) {
        let n = tr.op(text);
        let w: Vec<&str> = text.split_whitespace().collect();
        let site = w[0].to_string();
        tr.count(&format!("op.{}", site));
        let pre = self.snap();
        let zero = rust_biguint!(0);
        let mut out_addr: u64 = 0;
        let mut out_pays: Vec<(u64, BigUint)> = vec![];
        let mut out_v = (BigUint::zero(), BigUint::zero(), BigUint::zero());
        let mut out_back: Option<(u64, u64, u64, BigUint)> = None;
        let pu = |s: &str| -> u64 { s.parse().unwrap() };
        let ok: bool = match w[0] {
            "createPair" => {
                let (c, t1, t2, adder) = (pu(w[1]), pu(w[2]) as usize, pu(w[3]) as usize, pu(w[4]));
                let fees: Option<(u64, u64)> = if w[5] == "-" { None } else { Some((pu(w[5]), pu(w[6]))) };
                let ca = self.addr_of(c);
                let adder_a = if adder == 0 { None } else { Some(self.addr_of(adder)) };
                // the address the next deploy_from_source of the router will get
                let ra = self.router.address_ref().clone();
                let neww: PairW = self.b.prepare_deploy_from_sc(&ra, pair_builder as fn() -> PairObj);
                let mut got = Address::zero();
                let oo = self.oo("createPair");
                let r = self.b.execute_tx(&ca, &self.router, &zero, |sc| {
                    if oo {
                        sc.blockchain().check_caller_is_owner();
                    }
                    let ad = match &adder_a {
                        Some(a) => managed_address!(a),
                        None => ManagedAddress::<DebugApi>::zero(),
                    };
                    let f = match fees {
                        Some((t, s)) => OptionalValue::Some(MultiValue2::from((t, s))),
                        None => OptionalValue::None,
                    };
                    let a = sc.create_pair_endpoint(
                        managed_token_id!(tok_bytes(t1)),
                        managed_token_id!(tok_bytes(t2)),
                        ad,
                        f,
                        MultiValueEncoded::<DebugApi, ManagedAddress<DebugApi>>::new(),
                    );
                    got = a.to_address();
                });
                let ok = r.result_status == 0;
                if ok {
                    let id = PAIR_BASE + self.pairs.iter().filter(|p| p.id >= PAIR_BASE).count() as u64;
                    if got != *neww.address_ref() {
                        tr.fail("C14", "create_returns_deployed_address", &site, "returned address is not the deployed one");
                    }
                    let bare = self.bare_next;
                    self.setup_new_pair(neww, id, t1, t2, adder, bare);
                    out_addr = id;
                    // C14 create_auth + duplicates, evaluated on what was observed before
                    if c != OWNER && !pre.cre {
                        tr.fail("C14", "create_auth", &site, &format!("non-owner {c} created a pair while creation is disabled"));
                    }
                    if c != OWNER {
                        tr.count("branch.create_by_non_owner");
                    }
                    let dup = pre.reg.iter().any(|e| (e.0 as usize == t1 && e.1 as usize == t2) || (e.0 as usize == t2 && e.1 as usize == t1));
                    if dup || t1 == t2 || t1 == 0 || t2 == 0 {
                        tr.fail("C14", "create_guards", &site, &format!("created ({t1},{t2}) dup={dup}"));
                    }
                    if !pre.active {
                        tr.fail("C14", "paused_router_blocks", &site, "createPair succeeded on a paused router");
                    }
                } else if pre.reg.iter().any(|e| e.0 as usize == t2 && e.1 as usize == t1) {
                    tr.count("branch.create_dup_reversed_rejected");
                }
                ok
            }
            "removePair" => {
                let (c, t1, t2) = (pu(w[1]), pu(w[2]) as usize, pu(w[3]) as usize);
                let ca = self.addr_of(c);
                let mut got = Address::zero();
                let oo = self.oo("removePair");
                let r = self.b.execute_tx(&ca, &self.router, &zero, |sc| {
                    if oo {
                        sc.blockchain().check_caller_is_owner();
                    }
                    got = sc.remove_pair(managed_token_id!(tok_bytes(t1)), managed_token_id!(tok_bytes(t2))).to_address();
                });
                let ok = r.result_status == 0;
                if ok {
                    out_addr = self.id_of(&got);
                    let expect = pre.reg.iter().find(|e| (e.0 as usize == t1 && e.1 as usize == t2) || (e.0 as usize == t2 && e.1 as usize == t1)).map(|e| e.2).unwrap_or(0);
                    if c != OWNER || expect == 0 || expect != out_addr {
                        tr.fail("C14", "remove_auth_and_result", &site, &format!("caller {c} removed {out_addr}, registry had {expect}"));
                    }
                    if pre.reg.iter().any(|e| e.0 as usize == t2 && e.1 as usize == t1) {
                        tr.count("branch.remove_reversed_order");
                    }
                }
                ok
            }
            "setCreation" => {
                let (c, bflag) = (pu(w[1]), w[2] == "1");
                let ca = self.addr_of(c);
                let oo = self.oo("setPairCreationEnabled");
                let ok = self.b.execute_tx(&ca, &self.router, &zero, |sc| {
                    if oo {
                        sc.blockchain().check_caller_is_owner();
                    }
                    sc.set_pair_creation_enabled(bflag);
                }).result_status == 0;
                if ok && c != OWNER {
                    tr.fail("C14", "owner_only", &site, &format!("caller {c} changed pair_creation_enabled"));
                }
                ok
            }
            "setTemplate" => {
                let c = pu(w[1]);
                let ca = self.addr_of(c);
                let ta = self.template.address_ref().clone();
                let oo = self.oo("setPairTemplateAddress");
                let ok = self.b.execute_tx(&ca, &self.router, &zero, |sc| {
                    if oo {
                        sc.blockchain().check_caller_is_owner();
                    }
                    sc.set_pair_template_address(managed_address!(&ta));
                }).result_status == 0;
                if ok && c != OWNER {
                    tr.fail("C14", "owner_only", &site, &format!("caller {c} changed the pair template"));
                }
                ok
            }
            "pause" | "resume" => {
                let (c, a) = (pu(w[1]), pu(w[2]));
                let ca = self.addr_of(c);
                let aa = self.addr_of(a);
                let is_pause = w[0] == "pause";
                let oo = self.oo(w[0]);
                let ok = self.b.execute_tx(&ca, &self.router, &zero, |sc| {
                    if oo {
                        sc.blockchain().check_caller_is_owner();
                    }
                    if is_pause {
                        sc.pause(managed_address!(&aa));
                    } else {
                        sc.resume(managed_address!(&aa));
                    }
                }).result_status == 0;
                if ok {
                    if c != OWNER {
                        tr.fail("C14", "owner_only", &site, &format!("caller {c} paused/resumed {a}"));
                    }
                    if a != ROUTER && !pre.reg_addrs.contains(&a) {
                        tr.fail("C14", "only_registered", &site, &format!("{} of unregistered address {a} succeeded", w[0]));
                    }
                    if a != ROUTER {
                        tr.count("branch.pair_state_via_router");
                    }
                } else if c == OWNER && a != ROUTER && !pre.reg_addrs.contains(&a) {
                    tr.count("branch.unregistered_target_rejected");
                }
                ok
            }
            "setFeeOn" => {
                let (c, a, tok) = (pu(w[1]), pu(w[2]), pu(w[3]) as usize);
                let ca = self.addr_of(c);
                let aa = self.addr_of(a);
                self.next_dest += 1;
                let dest = Address::from(&{
                    let mut x = [9u8; 32];
                    x[0..8].copy_from_slice(&self.next_dest.to_be_bytes());
                    x
                });
                let oo = self.oo("setFeeOn");
                let ok = self.b.execute_tx(&ca, &self.router, &zero, |sc| {
                    if oo {
                        sc.blockchain().check_caller_is_owner();
                    }
                    sc.set_fee_on(managed_address!(&aa), managed_address!(&dest), managed_token_id!(tok_bytes(tok)));
                }).result_status == 0;
                if ok {
                    if c != OWNER || !pre.reg_addrs.contains(&a) {
                        tr.fail("C14", "only_registered", &site, &format!("caller {c} configured {a}"));
                    }
                    if let Some(ix) = self.pair_ix(a) {
                        self.pairs[ix].dests.push((dest, tok));
                    }
                }
                ok
            }
            "setFeeOff" => {
                let (c, a, i, tok) = (pu(w[1]), pu(w[2]), pu(w[3]) as usize, pu(w[4]) as usize);
                let ca = self.addr_of(c);
                let aa = self.addr_of(a);
                let dest = self.pair_ix(a).and_then(|ix| self.pairs[ix].dests.get(i).map(|d| d.0.clone()));
                match dest {
                    None => {
                        // not a destination of that pair: the call is made with an address that is none
                        let bogus = self.stranger.clone();
                        let oo = self.oo("setFeeOff");
                        let ok = self.b.execute_tx(&ca, &self.router, &zero, |sc| {
                            if oo {
                                sc.blockchain().check_caller_is_owner();
                            }
                            sc.set_fee_off(managed_address!(&aa), managed_address!(&bogus), managed_token_id!(tok_bytes(tok)));
                        }).result_status == 0;
                        if ok {
                            tr.fail("C14", "only_registered", &site, "setFeeOff for a non-destination succeeded");
                        }
                        ok
                    }
                    Some(dest) => {
                        let oo = self.oo("setFeeOff");
                        let ok = self.b.execute_tx(&ca, &self.router, &zero, |sc| {
                            if oo {
                                sc.blockchain().check_caller_is_owner();
                            }
                            sc.set_fee_off(managed_address!(&aa), managed_address!(&dest), managed_token_id!(tok_bytes(tok)));
                        }).result_status == 0;
                        if ok {
                            if c != OWNER || !pre.reg_addrs.contains(&a) {
                                tr.fail("C14", "only_registered", &site, &format!("caller {c} configured {a}"));
                            }
                            let ix = self.pair_ix(a).unwrap();
                            self.pairs[ix].dests.remove(i);
                        }
                        ok
                    }
                }
            }
            "multi" => {
                let (c, tok_in, amount) = (pu(w[1]), pu(w[2]) as usize, big(w[3]));
                let hops = Self::parse_hops(&w[4..]);
                let ca = self.addr_of(c);
                let promised = self.view_chain(tok_in, &amount, &hops);
                let formula = self.formula_chain(&pre, tok_in, &amount, &hops);
                let hop_args: Vec<(Address, Vec<u8>, Vec<u8>, BigUint)> = hops
                    .iter()
                    .map(|h| {
                        let f: &[u8] = match h.kind.as_str() {
                            "in" => router::multi_pair_swap::SWAP_TOKENS_FIXED_INPUT_FUNC_NAME,
                            "out" => router::multi_pair_swap::SWAP_TOKENS_FIXED_OUTPUT_FUNC_NAME,
                            _ => b"swapNoFeeAndForward",
                        };
                        (self.addr_of(h.addr), f.to_vec(), tok_bytes(h.tok), h.amt.clone())
                    })
                    .collect();
                let mut got: Vec<(Vec<u8>, BigUint)> = vec![];
                let r = self.b.execute_esdt_transfer(&ca, &self.router, &tok_bytes(tok_in), 0, &amount, |sc| {
                    let mut ops = MultiValueEncoded::new();
                    for x in hop_args.iter() {
                        ops.push(MultiValue4::from((
                            managed_address!(&x.0),
                            managed_buffer!(x.1.as_slice()),
                            managed_token_id!(x.2.as_slice()),
                            mbig(&x.3),
                        )));
                    }
                    let res = sc.multi_pair_swap(ops);
                    for p in res.iter() {
                        got.push((p.token_identifier.to_boxed_bytes().as_slice().to_vec(), to_big(&p.amount)));
                    }
                });
                let ok = r.result_status == 0;
                if !ok && std::env::var("VERIF_ERRLOG").is_ok() {
                    eprintln!("MULTIERR {} :: {}", r.result_message, text);
                }
                if ok {
                    out_pays = got.iter().map(|(t, x)| (tok_id(t), x.clone())).collect();
                    tr.count(&format!("branch.multi_ok_hops_{}", hops.len()));
                    let post = self.snap();
                    // hops must all be registered pairs (independent of check_is_pair_sc: the public view)
                    for h in hops.iter() {
                        if !pre.reg_addrs.contains(&h.addr) {
                            tr.fail("C14", "only_registered", &site, &format!("hop through unregistered address {}", h.addr));
                        }
                    }
                    if !pre.active {
                        tr.fail("C14", "paused_router_blocks", &site, "multiPairSwap succeeded on a paused router");
                    }
                    // router balances unchanged
                    if pre.rb != post.rb || pre.rlp != post.rlp {
                        tr.fail("C14", "router_balance_unchanged", &site, &format!("pre {:?} post {:?}", pre.rb, post.rb));
                    }
                    // what the formulas say
                    match &formula {
                        Some((rs, exact)) => {
                            let exp = Self::expected_pays(tok_in, &hops, rs);
                            if *exact && exp != out_pays {
                                tr.fail("C14", "multihop_payments_formula", &site, &format!("expected {:?} got {:?}", exp, out_pays));
                            }
                            if !*exact {
                                tr.count("branch.multi_inexact_formula");
                            } else {
                                tr.count("branch.multi_formula_checked");
                                if rs.iter().any(|r| !r.1.is_zero()) {
                                    tr.count("branch.multi_residual");
                                }
                                if hops.iter().zip(rs.iter()).any(|(h, r)| h.kind == "out" && r.1.is_zero()) {
                                    tr.count("branch.multi_zero_residual_skipped");
                                }
                                if hops.iter().any(|h| hops.iter().filter(|g| g.addr == h.addr).count() > 1) {
                                    tr.count("branch.multi_pair_revisited");
                                }
                            }
                        }
                        None => tr.fail("C14", "multihop_payments_formula", &site, "formulas say some hop must fail, yet the swap succeeded"),
                    }
                    // what the pairs' own views promised just before
                    if let Some(rs) = &promised {
                        let exp = Self::expected_pays(tok_in, &hops, rs);
                        if exp != out_pays {
                            tr.fail("C14", "hop_eq_pair_view", &site, &format!("views promised {:?} got {:?}", exp, out_pays));
                        }
                        tr.count("branch.multi_view_chain_checked");
                    }
                    // caller receives exactly the returned payments, nobody else anything
                    if let Some(ci) = self.acct_ix(c) {
                        for t in 1..=self.ntok {
                            let mut exp = pre.users[ci].0[t - 1].clone();
                            if t == tok_in {
                                exp -= &amount;
                            }
                            for (pt, x) in out_pays.iter() {
                                if *pt as usize == t {
                                    exp += x;
                                }
                            }
                            if exp != post.users[ci].0[t - 1] {
                                tr.fail("C14", "caller_receives_payments", &site, &format!("token {t}: expected {exp} has {}", post.users[ci].0[t - 1]));
                            }
                        }
                        if pre.users[ci].1 != post.users[ci].1 {
                            tr.fail("C14", "caller_receives_payments", &site, "caller LP balances changed");
                        }
                        for (i, _) in self.accts.iter().enumerate() {
                            if i != ci && pre.users[i] != post.users[i] {
                                tr.fail("C14", "no_credit_to_other_user", &site, &format!("account {} changed", self.accts[i]));
                            }
                        }
                    }
                    // pairs outside the chain untouched; pairs in the chain without fee routing conserve exactly
                    for (ix, p) in self.pairs.iter().enumerate() {
                        let visits = hops.iter().filter(|h| h.addr == p.id).count();
                        if visits == 0 && pre.pairs[ix] != post.pairs[ix] {
                            tr.fail("C14", "untouched_pair_changed", &site, &format!("pair {} changed", p.id));
                        }
                    }
                }
                ok
            }
            "addInitial" | "addLiq" => {
                let (u, a) = (pu(w[1]), pu(w[2]));
                let (a1, a2) = (big(w[3]), big(w[4]));
                let ua = self.addr_of(u);
                match self.pair_ix(a) {
                    None => false,
                    Some(ix) => {
                        let (t1, t2) = (self.pairs[ix].t1, self.pairs[ix].t2);
                        let transfers = vec![
                            TxTokenTransfer { token_identifier: tok_bytes(t1), nonce: 0, value: a1 },
                            TxTokenTransfer { token_identifier: tok_bytes(t2), nonce: 0, value: a2 },
                        ];
                        let mut o = (BigUint::zero(), BigUint::zero(), BigUint::zero());
                        let initial = w[0] == "addInitial";
                        let (m1, m2) = if initial { (BigUint::one(), BigUint::one()) } else { (big(w[5]), big(w[6])) };
                        let r = self.b.execute_esdt_multi_transfer(&ua, &self.pairs[ix].w, &transfers, |sc| {
                            let (lp, f, s2) = if initial {
                                sc.add_initial_liquidity().into_tuple()
                            } else {
                                sc.add_liquidity(mbig(&m1), mbig(&m2)).into_tuple()
                            };
                            o = (to_big(&lp.amount), to_big(&f.amount), to_big(&s2.amount));
                        });
                        out_v = o;
                        r.result_status == 0
                    }
                }
            }
            "removeLiq" => {
                let (u, a) = (pu(w[1]), pu(w[2]));
                let (lp, m1, m2) = (big(w[3]), big(w[4]), big(w[5]));
                let ua = self.addr_of(u);
                match self.pair_ix(a) {
                    None => false,
                    Some(ix) => {
                        let lpt = self.pairs[ix].lp.clone();
                        let mut o = (BigUint::zero(), BigUint::zero());
                        let r = self.b.execute_esdt_transfer(&ua, &self.pairs[ix].w, &lpt, 0, &lp, |sc| {
                            let (f, s2) = sc.remove_liquidity(mbig(&m1), mbig(&m2)).into_tuple();
                            o = (to_big(&f.amount), to_big(&s2.amount));
                        });
                        out_v = (o.0, o.1, BigUint::zero());
                        r.result_status == 0
                    }
                }
            }
            "swapIn" | "swapOut" => {
                let (u, a, ti, x, to, y) = (pu(w[1]), pu(w[2]), pu(w[3]) as usize, big(w[4]), pu(w[5]) as usize, big(w[6]));
                let ua = self.addr_of(u);
                match self.pair_ix(a) {
                    None => false,
                    Some(ix) => {
                        let fixed_in = w[0] == "swapIn";
                        let mut o = (BigUint::zero(), BigUint::zero());
                        let r = self.b.execute_esdt_transfer(&ua, &self.pairs[ix].w, &tok_bytes(ti), 0, &x, |sc| {
                            if fixed_in {
                                let p = sc.swap_tokens_fixed_input(managed_token_id!(tok_bytes(to)), mbig(&y));
                                o = (to_big(&p.amount), BigUint::zero());
                            } else {
                                let (p, q) = sc.swap_tokens_fixed_output(managed_token_id!(tok_bytes(to)), mbig(&y)).into_tuple();
                                o = (to_big(&p.amount), to_big(&q.amount));
                            }
                        });
                        let ok = r.result_status == 0;
                        if ok {
                            out_v = if fixed_in { (o.0, BigUint::zero(), BigUint::zero()) } else { (o.0, &x - &o.1, o.1) };
                        }
                        ok
                    }
                }
            }
            "cfgEnable" => {
                let (c, common, locked, mv, mp) = (pu(w[1]), pu(w[2]) as usize, pu(w[3]) as usize, big(w[4]), pu(w[5]));
                let ca = self.addr_of(c);
                let oo = self.oo("configEnableByUserParameters");
                let ok = self.b.execute_tx(&ca, &self.router, &zero, |sc| {
                    if oo {
                        sc.blockchain().check_caller_is_owner();
                    }
                    sc.config_enable_by_user_parameters(managed_token_id!(tok_bytes(common)), managed_token_id!(tok_bytes(locked)), mbig(&mv), mp);
                }).result_status == 0;
                if ok {
                    if c != OWNER {
                        tr.fail("C14", "enable_config_owner_only", &site, &format!("caller {c} configured enable-by-user for token {common}"));
                    }
                    if !pre.wl.contains(&(common as u64)) || tok_id(&tok_bytes(common)) == 0 || tok_id(&tok_bytes(locked)) == 0 {
                        tr.fail("C14", "enable_config_guards", &site, &format!("config accepted for common {common} locked {locked}, whitelist {:?}", pre.wl));
                    }
                } else if c != OWNER {
                    tr.count("branch.cfg_non_owner_rejected");
                }
                ok
            }
            "addCommon" | "removeCommon" => {
                let c = pu(w[1]);
                let toks: Vec<usize> = w[2..].iter().map(|x| pu(x) as usize).collect();
                let ca = self.addr_of(c);
                let add = w[0] == "addCommon";
                let oo = self.oo(if add { "addCommonTokensForUserPairs" } else { "removeCommonTokensForUserPairs" });
                let ok = self.b.execute_tx(&ca, &self.router, &zero, |sc| {
                    if oo {
                        sc.blockchain().check_caller_is_owner();
                    }
                    let mut mv = MultiValueEncoded::new();
                    for t in toks.iter() {
                        mv.push(managed_token_id!(tok_bytes(*t)));
                    }
                    if add {
                        sc.add_common_tokens_for_user_pairs(mv);
                    } else {
                        sc.remove_common_tokens_for_user_pairs(mv);
                    }
                }).result_status == 0;
                if ok && c != OWNER {
                    tr.fail("C14", "enable_config_owner_only", &site, &format!("caller {c} changed the common-token whitelist"));
                }
                if !ok && c != OWNER {
                    tr.count("branch.cfg_non_owner_rejected");
                }
                ok
            }
            "advance" => {
                let e = pu(w[1]);
                if e < self.epoch {
                    false
                } else {
                    self.epoch = e;
                    self.b.set_block_epoch(e);
                    true
                }
            }
            "advanceBlock" => {
                let n2 = pu(w[1]);
                if n2 < self.block {
                    false
                } else {
                    self.block = n2;
                    self.b.set_block_nonce(n2);
                    true
                }
            }
            "bareNext" => {
                self.bare_next = w[1] == "1";
                true
            }
            "setTmpPeriod" => {
                let (c, period) = (pu(w[1]), pu(w[2]));
                let ca = self.addr_of(c);
                let oo = self.oo("setTemporaryOwnerPeriod");
                let ok = self.b.execute_tx(&ca, &self.router, &zero, |sc| {
                    if oo {
                        sc.blockchain().check_caller_is_owner();
                    }
                    sc.set_temporary_owner_period(period);
                }).result_status == 0;
                if ok && c != OWNER {
                    tr.fail("C14", "owner_only", &site, &format!("caller {c} changed the temporary owner period"));
                }
                if ok && !pre.active {
                    tr.count("branch.tmp_admin_while_router_paused");
                }
                ok
            }
            "clearTmp" => {
                let c = pu(w[1]);
                let ca = self.addr_of(c);
                let oo = self.oo("clearPairTemporaryOwnerStorage");
                let mut size = 0usize;
                let ok = self.b.execute_tx(&ca, &self.router, &zero, |sc| {
                    if oo {
                        sc.blockchain().check_caller_is_owner();
                    }
                    size = sc.clear_pair_temporary_owner_storage();
                }).result_status == 0;
                if ok {
                    out_v.0 = BigUint::from(size as u64);
                    if c != OWNER {
                        tr.fail("C14", "owner_only", &site, &format!("caller {c} cleared the temporary owners"));
                    }
                    if size != pre.tmp.len() {
                        tr.fail("C14", "clear_tmp_size", &site, &format!("returned {size}, the map had {} entries", pre.tmp.len()));
                    }
                    if !pre.active {
                        tr.count("branch.tmp_admin_while_router_paused");
                    }
                    if size > 0 {
                        tr.count("branch.clear_tmp_nonempty");
                    }
                }
                ok
            }
            "issueLp" => {
                let (c, a) = (pu(w[1]), pu(w[2]));
                let ca = self.addr_of(c);
                let pa = self.addr_of(a);
                let ok = self.b.execute_tx(&ca, &self.router, &zero, |sc| {
                    sc.issue_lp_token(managed_address!(&pa), managed_buffer!(b"LpToken"), managed_buffer!(b"LPT"));
                }).result_status == 0;
                // the documented conditions, evaluated on what was observed before the call
                let registered = pre.reg_addrs.contains(&a);
                let entry = pre.tmp.iter().find(|e| e.0 == a).cloned();
                let live = entry.map(|e| (e.1, e.2.saturating_add(pre.tper) > pre.blk));
                let nolp = pre.nolp.contains(&a);
                if ok {
                    if !pre.active {
                        tr.fail("C14", "paused_router_blocks", &site, "issueLpToken succeeded on a paused router");
                    }
                    if c != OWNER && !pre.cre {
                        tr.fail("C14", "issue_auth", &site, &format!("non-owner {c} issued an LP token while pair creation is disabled"));
                    }
                    if !registered {
                        tr.fail("C14", "only_registered", &site, &format!("issueLpToken for the unregistered address {a} succeeded"));
                    }
                    if let Some((t, true)) = live {
                        if t != c {
                            tr.fail("C14", "issue_tmp_owner", &site, &format!("{c} issued the LP token of {a} during the period of its creator {t}"));
                        }
                        tr.count("branch.issue_ok.by_creator_in_period");
                    }
                    if !nolp {
                        tr.fail("C14", "issue_once", &site, &format!("issueLpToken for {a} succeeded although its LP token exists"));
                    }
                    match live {
                        Some((_, false)) => {
                            tr.count("branch.issue_ok.expired_entry_removed");
                            if post_has_tmp(self, a) {
                                tr.fail("C14", "issue_tmp_expiry", &site, "the expired temporary owner entry is still there");
                            }
                            if c != OWNER {
                                tr.count("branch.issue_ok.by_non_owner_after_expiry");
                            }
                        }
                        None => tr.count("branch.issue_ok.no_entry"),
                        _ => {}
                    }
                    if c == OWNER {
                        tr.count("branch.issue_ok.by_owner");
                    }
                } else if !pre.active {
                    tr.count("branch.issue_rej.router_paused");
                } else if c != OWNER && !pre.cre {
                    tr.count("branch.issue_rej.creation_disabled");
                } else if !registered {
                    tr.count("branch.issue_rej.unregistered");
                } else if matches!(live, Some((t, true)) if t != c) {
                    tr.count(if c == OWNER { "branch.issue_rej.owner_during_creators_period" } else { "branch.issue_rej.tmp_owner_differs" });
                } else if !nolp {
                    tr.count("branch.issue_rej.already_issued");
                } else {
                    tr.fail("C14", "issue_unexplained_refusal", &site, &format!("issueLpToken {c} {a} refused although every documented condition holds"));
                }
                ok
            }
            "setLocalRoles" => {
                let (c, a) = (pu(w[1]), pu(w[2]));
                let ca = self.addr_of(c);
                let pa = self.addr_of(a);
                let ok = self.b.execute_tx(&ca, &self.router, &zero, |sc| {
                    sc.set_local_roles(managed_address!(&pa));
                }).result_status == 0;
                let registered = pre.reg_addrs.contains(&a);
                let nolp = pre.nolp.contains(&a);
                if ok {
                    if !pre.active {
                        tr.fail("C14", "paused_router_blocks", &site, "setLocalRoles succeeded on a paused router");
                    }
                    if !registered {
                        tr.fail("C14", "only_registered", &site, &format!("setLocalRoles for the unregistered address {a} succeeded"));
                    }
                    if nolp {
                        tr.fail("C14", "roles_need_token", &site, &format!("setLocalRoles for {a} succeeded without an LP token"));
                    }
                    if c != OWNER {
                        tr.count("branch.roles_ok.by_non_owner");
                    }
                } else if !pre.active {
                    tr.count("branch.roles_rej.router_paused");
                } else if !registered {
                    tr.count("branch.roles_rej.unregistered");
                } else if nolp {
                    tr.count("branch.roles_rej.not_issued");
                } else {
                    tr.fail("C14", "roles_unexplained_refusal", &site, &format!("setLocalRoles {c} {a} refused although every documented condition holds"));
                }
                ok
            }
            "upgradePair" => {
                let (c, t1, t2) = (pu(w[1]), pu(w[2]) as usize, pu(w[3]) as usize);
                let ca = self.addr_of(c);
                let oo = self.oo("upgradePair");
                let ok = self.b.execute_tx(&ca, &self.router, &zero, |sc| {
                    if oo {
                        sc.blockchain().check_caller_is_owner();
                    }
                    sc.upgrade_pair_endpoint(managed_token_id!(tok_bytes(t1)), managed_token_id!(tok_bytes(t2)));
                }).result_status == 0;
                let known = pre.reg.iter().any(|e| (e.0 as usize == t1 && e.1 as usize == t2) || (e.0 as usize == t2 && e.1 as usize == t1));
                if ok {
                    if c != OWNER {
                        tr.fail("C14", "owner_only", &site, &format!("caller {c} upgraded a pair"));
                    }
                    if !pre.active {
                        tr.fail("C14", "paused_router_blocks", &site, "upgradePair succeeded on a paused router");
                    }
                    if !known || t1 == t2 {
                        tr.fail("C14", "only_registered", &site, &format!("upgradePair({t1},{t2}) succeeded without a registry entry"));
                    }
                } else if c != OWNER {
                    tr.count("branch.upgrade_rej.not_owner");
                } else if !pre.active {
                    tr.count("branch.upgrade_rej.router_paused");
                } else if !known {
                    tr.count("branch.upgrade_rej.no_such_pair");
                }
                ok
            }
            "lock" => {
                let (u, coll, orig, amount, unlock) = (pu(w[1]), pu(w[2]), pu(w[3]), big(w[4]), pu(w[5]));
                let ua = self.addr_of(u);
                match Self::lock_ix(coll) {
                    Some(li) if !amount.is_zero() => {
                        let ab = self.asset_bytes(orig);
                        let mut got: (Vec<u8>, u64, BigUint) = (vec![], 0, BigUint::zero());
                        let r = self.b.execute_esdt_transfer(&ua, &self.locks[li], &ab, 0, &amount, |sc| {
                            let p = sc.lock_tokens_endpoint(unlock, OptionalValue::None);
                            got = (p.token_identifier.into_name().to_boxed_bytes().as_slice().to_vec(), p.token_nonce, to_big(&p.amount));
                        });
                        let ok = r.result_status == 0;
                        if ok {
                            if got.1 == 0 {
                                // the epoch has passed: the payment came straight back
                                out_pays = vec![(orig, got.2.clone())];
                                tr.count("branch.lock_passthrough");
                            } else {
                                match self.lkey_ix(coll, orig, unlock) {
                                    Some(i) => {
                                        if self.lkeys[i].nonce != got.1 {
                                            tr.fail("C14", "lock_class_nonce_stable", &site, &format!("class {coll}/{orig}/{unlock} had nonce {} now {}", self.lkeys[i].nonce, got.1));
                                        }
                                    }
                                    None => self.lkeys.push(LKey { coll, orig, unlock, nonce: got.1 }),
                                }
                                if tok_id(&got.0) != coll {
                                    tr.fail("C14", "lock_returns_locked_token", &site, &format!("got token {}", String::from_utf8_lossy(&got.0)));
                                }
                                out_back = Some((coll, orig, unlock, got.2.clone()));
                                if orig >= FOREIGN_BASE {
                                    tr.count("branch.lock_lp");
                                }
                            }
                        }
                        ok
                    }
                    _ => false,
                }
            }
            "unlock" => {
                let (u, coll, orig, unlock, amount) = (pu(w[1]), pu(w[2]), pu(w[3]), pu(w[4]), big(w[5]));
                let ua = self.addr_of(u);
                match (Self::lock_ix(coll), self.lkey_ix(coll, orig, unlock)) {
                    (Some(li), Some(ki)) if !amount.is_zero() => {
                        let nonce = self.lkeys[ki].nonce;
                        let mut got: (Vec<u8>, BigUint) = (vec![], BigUint::zero());
                        let r = self.b.execute_esdt_transfer(&ua, &self.locks[li], &tok_bytes(coll as usize), nonce, &amount, |sc| {
                            let p = sc.unlock_tokens_endpoint(OptionalValue::None);
                            got = (p.token_identifier.into_name().to_boxed_bytes().as_slice().to_vec(), to_big(&p.amount));
                        });
                        let ok = r.result_status == 0;
                        if ok {
                            out_pays = vec![(tok_id(&got.0), got.1.clone())];
                        }
                        ok
                    }
                    _ => false,
                }
            }
            "enableByUser" => {
                let (c, a, coll, orig, unlock, amount) = (pu(w[1]), pu(w[2]), pu(w[3]), pu(w[4]), pu(w[5]), big(w[6]));
                let ca = self.addr_of(c);
                let pa = self.addr_of(a);
                let reasons = self.enable_reasons(&pre, c, a, coll, orig, unlock, &amount);
                match self.lkey_ix(coll, orig, unlock) {
                    Some(ki) if !amount.is_zero() => {
                        let nonce = self.lkeys[ki].nonce;
                        let r = self.b.execute_esdt_transfer(&ca, &self.router, &tok_bytes(coll as usize), nonce, &amount, |sc| {
                            sc.set_swap_enabled_by_user(managed_address!(&pa));
                        });
                        let ok = r.result_status == 0;
                        if !ok && std::env::var("VERIF_ERRLOG").is_ok() {
                            eprintln!("ENABLEERR {} :: {} :: {:?}", r.result_message, text, reasons);
                        }
                        if ok {
                            tr.count("branch.enable_ok");
                            // (a) what a successful call implies, from the property text
                            for why in reasons.iter() {
                                tr.fail("C14", "enable_requires", &site, &format!("setSwapEnabledByUser succeeded although: {why}"));
                                if why.starts_with("state_") {
                                    tr.fail("C19", "enable_requires_partial_active", &site, &format!("setSwapEnabledByUser succeeded although: {why}"));
                                }
                            }
                            // (b) its effect
                            let post = self.snap();
                            if let Some(ix) = self.pair_ix(a) {
                                let q = &post.pairs[ix];
                                if q.state != 1 || q.total != USER_TOTAL_FEE || q.special != USER_SPECIAL_FEE {
                                    tr.fail("C14", "enable_effect", &site, &format!("pair {a} after: state {} fees {}/{}", q.state, q.total, q.special));
                                }
                                let mut exp = pre.clone();
                                exp.pairs[ix].state = 1;
                                exp.pairs[ix].total = USER_TOTAL_FEE;
                                exp.pairs[ix].special = USER_SPECIAL_FEE;
                                if exp != post {
                                    tr.fail("C14", "enable_effect", &site, "something else than the pair's state and fee percents changed (locked tokens not returned in full?)");
                                }
                            }
                            if post.rlk.iter().any(|x| !x.is_zero()) {
                                tr.fail("C14", "enable_effect", &site, &format!("router kept locked tokens {:?}", post.rlk));
                            }
                            if let Some(ci) = self.acct_ix(c) {
                                // returned = what the caller holds now − (what it held − what it sent)
                                let back = &post.users[ci].2[ki] + &amount - &pre.users[ci].2[ki];
                                out_back = Some((coll, orig, unlock, back));
                            }
                        } else {
                            for why in reasons.iter() {
                                tr.count(&format!("branch.enable_reason.{}", why));
                            }
                            match reasons.first() {
                                Some(why) => {
                                    tr.count(&format!("branch.enable_rej.{}", why));
                                    if reasons.len() == 1 {
                                        tr.count(&format!("branch.enable_rej_only.{}", why));
                                    }
                                }
                                None => tr.fail("C14", "enable_no_extra_failure", &site, "every documented condition holds, yet setSwapEnabledByUser failed"),
                            }
                        }
                        ok
                    }
                    _ => {
                        tr.count("branch.enable_rej.no_such_locked_token");
                        false
                    }
                }
            }
            "enablePlain" => {
                let (c, a, t, amount) = (pu(w[1]), pu(w[2]), pu(w[3]), big(w[4]));
                let ca = self.addr_of(c);
                let pa = self.addr_of(a);
                if amount.is_zero() {
                    false
                } else {
                    let ab = self.asset_bytes(t);
                    let ok = self.b.execute_esdt_transfer(&ca, &self.router, &ab, 0, &amount, |sc| {
                        sc.set_swap_enabled_by_user(managed_address!(&pa));
                    }).result_status == 0;
                    if ok {
                        tr.fail("C14", "enable_requires", &site, &format!("setSwapEnabledByUser succeeded with the plain token {t}"));
                    } else {
                        tr.count("branch.enable_rej.plain_token");
                    }
                    ok
                }
            }
            "bad" if w[1] == "enableNoPayment" => {
                let (u, a) = (pu(w[2]), pu(w[3]));
                let ua = self.addr_of(u);
                let pa = self.addr_of(a);
                let ok = self.b.execute_tx(&ua, &self.router, &zero, |sc| {
                    sc.set_swap_enabled_by_user(managed_address!(&pa));
                }).result_status == 0;
                if ok {
                    tr.fail("C14", "enable_requires", &site, "setSwapEnabledByUser succeeded without a payment");
                } else {
                    tr.count("branch.enable_rej.no_payment");
                }
                ok
            }
            "bad" => {
                let u = pu(w[2]);
                let ua = self.addr_of(u);
                let target = self.pairs.first().map(|p| p.w.address_ref().clone()).unwrap_or(self.stranger.clone());
                let mk = move |sc: &RouterObj| {
                    let mut ops = MultiValueEncoded::new();
                    ops.push(MultiValue4::from((
                        managed_address!(&target),
                        managed_buffer!(router::multi_pair_swap::SWAP_TOKENS_FIXED_INPUT_FUNC_NAME),
                        managed_token_id!(tok_bytes(2)),
                        mbig(&BigUint::one()),
                    )));
                    let _ = sc.multi_pair_swap(ops);
                };
                match w[1] {
                    "multiNoPayment" => self.b.execute_tx(&ua, &self.router, &zero, |sc| mk(&sc)).result_status == 0,
                    _ => {
                        let transfers = vec![
                            TxTokenTransfer { token_identifier: tok_bytes(1), nonce: 0, value: rust_biguint!(1000) },
                            TxTokenTransfer { token_identifier: tok_bytes(2), nonce: 0, value: rust_biguint!(1000) },
                        ];
                        self.b.execute_esdt_multi_transfer(&ua, &self.router, &transfers, |sc| mk(&sc)).result_status == 0
                    }
                }
            }
            other => panic!("unknown op {other}"),
        };
        let post = self.snap();
        if !ok {
            // a failed transaction (in particular a failed multi-hop) leaves every balance, reserve and the registry unchanged
            if pre != post {
                tr.fail("C14", "failed_tx_changes_state", &site, "observable state differs after a failed transaction");
            }
            if w[0] == "multi" {
                tr.count("branch.multi_err");
            }
        }
        self.oracle_registry(tr, &site, &post);
        // a successful removePair(x, y) leaves no registry entry for the unordered pair {x, y}, whatever the order the
        // owner named the tokens in, and removes exactly one entry
        if ok && w[0] == "removePair" {
            let (t1, t2) = (pu(w[2]), pu(w[3]));
            if let Some(e) = post.reg.iter().find(|e| (e.0 == t1 && e.1 == t2) || (e.0 == t2 && e.1 == t1)) {
                tr.fail("C14", "remove_effective", &site, &format!("removePair({t1},{t2}) succeeded, yet the registry still holds {:?}", e));
            }
            if post.reg.len() + 1 != pre.reg.len() {
                tr.fail("C14", "remove_effective", &site, &format!("registry had {} entries, has {} after a successful removePair", pre.reg.len(), post.reg.len()));
            }
        }
        // (c) a pair the owner paused stays Inactive until the owner resumes it
        let owner_state_op = ok && (w[0] == "pause" || w[0] == "resume") && pu(w[1]) == OWNER;
        if !owner_state_op {
            let paused: Vec<u64> = self.owner_paused.iter().copied().collect();
            for id in paused {
                if let Some(ix) = self.pair_ix(id) {
                    if post.pairs[ix].state != 0 {
                        let st = if post.pairs[ix].state == 1 { "Active" } else { "PartialActive" };
                        let d = format!("pair {id} was paused by the owner and is {st} after `{text}`");
                        tr.fail("C14", "paused_stays_paused", &site, &d);
                        tr.fail("C19", "paused_stays_paused", &site, &d);
                        self.owner_paused.remove(&id);
                    }
                }
            }
            if !self.owner_paused.is_empty() {
                tr.count("branch.op_while_some_pair_owner_paused");
            }
        } else {
            let a = pu(w[2]);
            if let Some(ix) = self.pair_ix(a) {
                if w[0] == "pause" && !post.pairs[ix].s.is_zero() {
                    self.owner_paused.insert(a);
                }
                if w[0] == "resume" {
                    self.owner_paused.remove(&a);
                }
            }
        }
        if ok {
            tr.count(&format!("ok.{}", site));
            let pays = Self::or_dash(out_pays.iter().map(|(t, x)| format!("{t}:{x}")).collect::<Vec<_>>().join(","));
            let back = match &out_back {
                Some((c, o, u, x)) => format!("{c}/{o}/{u}:{x}"),
                None => "-".to_string(),
            };
            let outs = format!("a={} p={} v={},{},{} lk={}", out_addr, pays, out_v.0, out_v.1, out_v.2, back);
            let line = self.state_line(&post);
            tr.res_ok(n, &outs, &line);
        } else {
            tr.count(&format!("err.{}", site));
            tr.res_err(n);
        }
    }

    fn query(&mut self, tr: &mut Trace, text: &str) {
        let n = tr.query(text);
        let w: Vec<&str> = text.split_whitespace().collect();
        tr.count(&format!("view.{}", w[0]));
        let pu = |s: &str| -> u64 { s.parse().unwrap() };
        let mut val: Option<String> = None;
        match w[0] {
            "getPair" => {
                let (a, b2) = (pu(w[1]) as usize, pu(w[2]) as usize);
                let mut x = Address::zero();
                let r = self.b.execute_query(&self.router, |sc| {
                    x = sc.get_pair(managed_token_id!(tok_bytes(a)), managed_token_id!(tok_bytes(b2))).to_address();
                });
                if r.result_status == 0 {
                    val = Some(format!("{}", if x == Address::zero() { 0 } else { self.id_of(&x) }));
                }
            }
            "amountOut" | "amountIn" => {
                let (a, t, x) = (pu(w[1]), pu(w[2]) as usize, big(w[3]));
                if let Some(ix) = self.pair_ix(a) {
                    let is_out = w[0] == "amountOut";
                    let mut v = BigUint::zero();
                    let r = self.b.execute_query(&self.pairs[ix].w, |sc| {
                        let y = if is_out {
                            sc.get_amount_out_view(managed_token_id!(tok_bytes(t)), mbig(&x))
                        } else {
                            sc.get_amount_in_view(managed_token_id!(tok_bytes(t)), mbig(&x))
                        };
                        v = to_big(&y);
                    });
                    if r.result_status == 0 {
                        val = Some(format!("{}", v));
                    }
                }
            }
            "enableCfg" => {
                let t = pu(w[1]) as usize;
                let mut got: (Vec<u8>, BigUint, u64) = (vec![], BigUint::zero(), 0);
                let r = self.b.execute_query(&self.router, |sc| {
                    let c = sc.try_get_config(&managed_token_id!(tok_bytes(t)));
                    got = (c.locked_token_id.to_boxed_bytes().as_slice().to_vec(), to_big(&c.min_locked_token_value), c.min_lock_period_epochs);
                });
                if r.result_status == 0 {
                    val = Some(format!("{} {} {}", tok_id(&got.0), got.1, got.2));
                }
            }
            other => panic!("unknown view {other}"),
        }
        match val {
            Some(v) => tr.view_ok(n, &v),
            None => tr.view_err(n),
        }
    }
}

// --- generator helpers ---------------------------------------------------------------------
impl RouterWorld {
    /// Why `setSwapEnabledByUser(a)` by `c` paying `amount` of the locked class must be refused,
    /// in the words of the property (evaluated on the state observed before the call, never on
    /// the model): empty = every documented condition holds.
    fn enable_reasons(&self, pre: &Snap, c: u64, a: u64, coll: u64, orig: u64, unlock: u64, amount: &BigUint) -> Vec<String> {
        let mut why: Vec<String> = vec![];
        let held = match (self.acct_ix(c), self.lkey_ix(coll, orig, unlock)) {
            (Some(ci), Some(ki)) => pre.users[ci].2.get(ki).cloned().unwrap_or_default(),
            _ => BigUint::zero(),
        };
        if &held < amount || amount.is_zero() {
            why.push("insufficient_funds".into());
        }
        if !pre.active {
            why.push("router_paused".into());
        }
        if !pre.reg_addrs.contains(&a) {
            why.push("unregistered".into());
        }
        let ix = match self.pair_ix(a) {
            Some(ix) => ix,
            None => return why,
        };
        let (p, q) = (&self.pairs[ix], &pre.pairs[ix]);
        match (q.state, q.s.is_zero()) {
            (0, true) => why.push("state_inactive_fresh".into()),
            (0, false) => why.push("state_inactive_paused".into()),
            (1, _) => why.push("state_active".into()),
            _ => {}
        }
        if orig != a {
            why.push("wrong_lp".into());
        }
        let common = if pre.wl.contains(&(p.t1 as u64)) {
            Some((p.t1 as u64, &q.r1))
        } else if pre.wl.contains(&(p.t2 as u64)) {
            Some((p.t2 as u64, &q.r2))
        } else {
            None
        };
        match common {
            None => why.push("no_common_token".into()),
            Some((ct, reserve)) => match pre.cfg.iter().find(|x| x.0 == ct) {
                None => why.push("no_config".into()),
                Some(cfg) => {
                    if cfg.1 != coll {
                        why.push("wrong_locked_token".into());
                    }
                    let value = if q.s.is_zero() { BigUint::zero() } else { amount * reserve / &q.s };
                    if value < cfg.2 {
                        why.push("low_value".into());
                    }
                    let remaining = if pre.epoch < unlock { unlock - pre.epoch } else { 0 };
                    if remaining < cfg.3 {
                        why.push("short_lock".into());
                    }
                }
            },
        }
        if q.adder == 0 || q.adder != c {
            why.push("not_adder".into());
        }
        why
    }

    /// (common token, its reserve) the router would value pair `ix`'s LP tokens in
    fn common_of<'a>(&self, s: &'a Snap, ix: usize) -> Option<(u64, &'a BigUint)> {
        let p = &self.pairs[ix];
        if s.wl.contains(&(p.t1 as u64)) {
            Some((p.t1 as u64, &s.pairs[ix].r1))
        } else if s.wl.contains(&(p.t2 as u64)) {
            Some((p.t2 as u64, &s.pairs[ix].r2))
        } else {
            None
        }
    }

    /// the next step of the scenario "the initial liquidity adder of pair `ix` enables swaps":
    /// whitelist a common token, configure, lock LP tokens, call setSwapEnabledByUser — each with
    /// boundary / malformed variants.  Does not look at the pair's state, so the same chain ends
    /// in an otherwise valid call on Inactive / Active pairs too.
    fn gen_enable_step(&mut self, rng: &mut Rng, s: &Snap, ix: usize) -> String {
        let p = &self.pairs[ix];
        let q = &s.pairs[ix];
        let nu = self.users.len() as u64;
        let k = self.ntok as u64;
        let one = BigUint::one();
        let owner_or = |rng: &mut Rng, p_owner: u64| -> u64 { if rng.chance(p_owner, 100) { OWNER } else { rng.range(1, nu) } };
        let (ct, reserve) = match self.common_of(s, ix) {
            None => {
                let toks = match rng.below(8) {
                    0 => format!("{} {}", p.t1, p.t2),
                    1 => format!("{} 0", p.t2), // one invalid id reverts the whole call
                    2..=4 => format!("{}", p.t1),
                    _ => format!("{}", p.t2),
                };
                return format!("addCommon {} {}", owner_or(rng, 92), toks);
            }
            Some(x) => x,
        };
        let adder = if q.adder != 0 { q.adder } else { rng.range(1, nu) };
        let ai = self.acct_ix(adder).unwrap_or(0);
        let lp_have = s.users[ai].1[ix].clone();
        let locked: Vec<(usize, BigUint)> = self.lkeys.iter().enumerate()
            .filter(|(i, key)| key.orig == p.id && !s.users[ai].2[*i].is_zero())
            .map(|(i, _)| (i, s.users[ai].2[i].clone()))
            .collect();
        let total_lp: BigUint = &lp_have + locked.iter().map(|x| x.1.clone()).sum::<BigUint>();
        let value_of = |lp: &BigUint| -> BigUint { if q.s.is_zero() { BigUint::zero() } else { lp * reserve / &q.s } };
        let value_all = value_of(&total_lp);
        let new_cfg = |rng: &mut Rng| -> String {
            let coll = match rng.below(20) {
                0 => 0,
                1 => rng.range(1, k + 1),
                2 | 3 => LOCK_B,
                _ => LOCK_A,
            };
            let mv = match rng.below(10) {
                0 => BigUint::zero(),
                1 => one.clone(),
                2 | 3 => &value_all / 2u32,
                4..=7 => value_all.clone(),
                8 => &value_all + &one,
                _ => rng.magnitude(12),
            };
            let mp = *rng.pick(&[0u64, 1, 1, 3, 5, 10]);
            format!("cfgEnable {} {} {} {} {}", owner_or(rng, 92), ct, coll, mv, mp)
        };
        let cfg = match s.cfg.iter().find(|x| x.0 == ct) {
            None => {
                if !lp_have.is_zero() && rng.chance(15, 100) {
                    // locked LP tokens first, no config yet: "No config set" is the only obstacle
                    let unlock = s.epoch + rng.range(1, 8);
                    self.pending.push(format!("enableByUser {} {} {} {} {} {}", adder, p.id, LOCK_A, p.id, unlock, lp_have));
                    return format!("lock {} {} {} {} {}", adder, LOCK_A, p.id, lp_have, unlock);
                }
                return new_cfg(rng);
            }
            Some(c) => c.clone(),
        };
        let remaining = |unlock: u64| -> u64 { if s.epoch < unlock { unlock - s.epoch } else { 0 } };
        let good: Vec<(usize, BigUint)> = locked.iter()
            .filter(|(i, bal)| self.lkeys[*i].coll == cfg.1 && remaining(self.lkeys[*i].unlock) >= cfg.3 && value_of(bal) >= cfg.2)
            .cloned()
            .collect();
        if !good.is_empty() || (!locked.is_empty() && rng.chance(1, 6)) {
            let (ki, bal) = if !good.is_empty() { rng.pick(&good).clone() } else { rng.pick(&locked).clone() };
            let key = self.lkeys[ki].clone();
            let txt = |c: u64, a: u64, x: &BigUint| format!("enableByUser {} {} {} {} {} {}", c, a, key.coll, key.orig, key.unlock, x);
            return match rng.below(27) {
                20 | 25 | 26 => {
                    // another user provides liquidity (doubling the pool mints exactly S LP tokens), locks
                    // them just as well and calls: everything holds except "caller is the adder"
                    let v = adder % nu + 1;
                    let unlock = s.epoch + cfg.3 + rng.range(0, 3);
                    self.pending.push(format!("enableByUser {} {} {} {} {} {}", v, p.id, cfg.1, p.id, unlock, q.s));
                    self.pending.push(format!("lock {} {} {} {} {}", v, cfg.1, p.id, q.s, unlock));
                    format!("addLiq {} {} {} {} 1 1", v, p.id, q.r1, q.r2)
                }
                21 => {
                    // the right collection, enough value, long enough — wrapping a pool token, not the LP token
                    let unlock = s.epoch + cfg.3 + rng.range(0, 3);
                    self.pending.push(format!("enableByUser {} {} {} {} {} {}", adder, p.id, cfg.1, p.t1, unlock, bal));
                    format!("lock {} {} {} {} {}", adder, cfg.1, p.t1, bal, unlock)
                }
                22 => {
                    // the owner takes the common tokens off the whitelist first
                    self.pending.push(txt(adder, p.id, &bal));
                    format!("removeCommon {} {} {}", OWNER, p.t1, p.t2)
                }
                23 if cfg.3 > 0 && key.unlock >= cfg.3 && key.unlock - cfg.3 + 1 > s.epoch => {
                    // time passes until the remaining lock is one epoch short
                    self.pending.push(txt(adder, p.id, &bal));
                    format!("advance {}", key.unlock - cfg.3 + 1)
                }
                24 => {
                    // the router itself is paused
                    self.pending.push(txt(adder, p.id, &bal));
                    format!("pause {} {}", OWNER, ROUTER)
                }
                0 => txt(adder % nu + 1, p.id, &bal),                 // somebody who does not hold it
                1 => txt(adder, p.id, &one),                          // too little value (unless min is tiny)
                2 => txt(adder, p.id, &(&bal + &one)),                // more than held
                3 => format!("enablePlain {} {} {} {}", adder, p.id, if rng.chance(1, 2) { p.id } else { p.t1 as u64 }, rng.range(1, 1000)),
                4 => {
                    let other = self.pairs[rng.below(self.pairs.len() as u64) as usize].id;
                    txt(adder, other, &bal)                            // another (or an unregistered) pair
                }
                5 => format!("bad enableNoPayment {} {}", adder, p.id),
                6 => txt(adder, *rng.pick(&[ROUTER, TEMPLATE, STRANGER, 1]), &bal), // not a pair at all
                _ => txt(adder, p.id, &bal),
            };
        }
        if !lp_have.is_zero() && Self::lock_ix(cfg.1).is_some() && value_all >= cfg.2 {
            // lock enough LP tokens for long enough (or just not)
            let need_lp = if reserve.is_zero() { lp_have.clone() } else { (&cfg.2 * &q.s + reserve - &one) / reserve };
            let amount = match rng.below(10) {
                0..=5 => lp_have.clone(),
                6 | 7 => need_lp.clone().min(lp_have.clone()).max(one.clone()),
                8 => if need_lp > one { (&need_lp - &one).min(lp_have.clone()) } else { one.clone() },
                _ => rng.big_range(&one, &lp_have),
            };
            let unlock = match rng.below(10) {
                0..=4 => s.epoch + cfg.3,
                5..=7 => s.epoch + cfg.3 + rng.range(1, 6),
                8 => (s.epoch + cfg.3).saturating_sub(1),
                _ => s.epoch + rng.range(0, 12),
            };
            if rng.chance(8, 100) {
                // the other simple-lock's collection: only "Invalid locked token" stands in the way
                let other = if cfg.1 == LOCK_A { LOCK_B } else { LOCK_A };
                let unlock = s.epoch + cfg.3 + rng.range(0, 3);
                self.pending.push(format!("enableByUser {} {} {} {} {} {}", adder, p.id, other, p.id, unlock, lp_have));
                return format!("lock {} {} {} {} {}", adder, other, p.id, lp_have, unlock);
            }
            return format!("lock {} {} {} {} {}", adder, cfg.1, p.id, amount, unlock);
        }
        if lp_have.is_zero() && locked.is_empty() {
            // the adder owns no LP token of this pair (yet / any more)
            return self.gen_liquidity(rng, s, ix, adder);
        }
        // the stored config cannot be met: the owner replaces it
        new_cfg(rng)
    }

    /// `setSwapEnabledByUser` by whoever holds locked tokens, on whatever pair they wrap
    fn gen_enable_any(&mut self, rng: &mut Rng, s: &Snap, u: u64) -> String {
        let one = BigUint::one();
        let mut holders: Vec<(u64, usize, BigUint)> = vec![];
        for (ai, id) in self.accts.iter().enumerate() {
            for (ki, _) in self.lkeys.iter().enumerate() {
                if !s.users[ai].2[ki].is_zero() {
                    holders.push((*id, ki, s.users[ai].2[ki].clone()));
                }
            }
        }
        if holders.is_empty() || self.pairs.is_empty() {
            if self.pairs.is_empty() {
                return format!("enablePlain {} {} 1 {}", u, PAIR_BASE, rng.range(1, 1000));
            }
            let p = &self.pairs[rng.below(self.pairs.len() as u64) as usize];
            return match rng.below(3) {
                0 => format!("enablePlain {} {} {} {}", u, p.id, p.t1, rng.range(1, 100000)),
                1 => format!("bad enableNoPayment {} {}", u, p.id),
                _ => format!("enableByUser {} {} {} {} {} {}", u, p.id, LOCK_A, p.id, s.epoch + 5, rng.range(1, 100000)),
            };
        }
        let (c, ki, bal) = rng.pick(&holders).clone();
        let key = self.lkeys[ki].clone();
        let target = if key.orig >= FOREIGN_BASE && rng.chance(9, 10) { key.orig } else { self.pairs[rng.below(self.pairs.len() as u64) as usize].id };
        let amount = match rng.below(10) {
            0 => one.clone(),
            1 => &bal / 2u32 + &one,
            _ => bal.clone(),
        };
        format!("enableByUser {} {} {} {} {} {}", c, target, key.coll, key.orig, key.unlock, amount)
    }

    /// users lock (mostly LP) tokens in a simple-lock / unlock them again
    fn gen_lock(&mut self, rng: &mut Rng, s: &Snap, u: u64) -> String {
        let one = BigUint::one();
        let k = self.ntok as u64;
        if rng.chance(1, 4) {
            // unlock: somebody holding locked tokens, mostly after the unlock epoch
            let mut holders: Vec<(u64, usize, BigUint)> = vec![];
            for (ai, id) in self.accts.iter().enumerate() {
                for (ki, key) in self.lkeys.iter().enumerate() {
                    if !s.users[ai].2[ki].is_zero() && (key.unlock <= s.epoch || rng.chance(1, 5)) {
                        holders.push((*id, ki, s.users[ai].2[ki].clone()));
                    }
                }
            }
            if !holders.is_empty() {
                let (c, ki, bal) = rng.pick(&holders).clone();
                let key = &self.lkeys[ki];
                let amount = if rng.chance(1, 6) { &bal + &one } else if rng.chance(1, 2) { bal.clone() } else { rng.big_range(&one, &bal) };
                return format!("unlock {} {} {} {} {}", c, key.coll, key.orig, key.unlock, amount);
            }
        }
        // lock: an account with LP tokens of some pair, for an epoch that suits that pair's config
        let mut have: Vec<(u64, usize, BigUint)> = vec![];
        for (ai, id) in self.accts.iter().enumerate() {
            for ix in 0..self.pairs.len() {
                if !s.users[ai].1[ix].is_zero() {
                    have.push((*id, ix, s.users[ai].1[ix].clone()));
                }
            }
        }
        if have.is_empty() || rng.chance(1, 8) {
            let coll = *rng.pick(&[LOCK_A, LOCK_A, LOCK_B, 0, 7]);
            return format!("lock {} {} {} {} {}", u, coll, rng.range(1, k), rng.magnitude(20), s.epoch + rng.range(0, 8));
        }
        let (c, ix, bal) = rng.pick(&have).clone();
        let cfg = self.common_of(s, ix).and_then(|(ct, _)| s.cfg.iter().find(|x| x.0 == ct).cloned());
        let (coll, period) = match cfg {
            Some(cf) if Self::lock_ix(cf.1).is_some() && rng.chance(9, 10) => (cf.1, cf.3),
            _ => (if rng.chance(3, 4) { LOCK_A } else { LOCK_B }, rng.range(0, 5)),
        };
        let amount = match rng.below(6) {
            0 => &bal + &one,
            1 => rng.big_range(&one, &bal),
            2 => &bal / 2u32 + &one,
            _ => bal.clone(),
        };
        format!("lock {} {} {} {} {}", c, coll, self.pairs[ix].id, amount, s.epoch + period + rng.range(0, 3))
    }

    /// the owner-only configuration endpoints of the enable-by-user module, by anybody
    fn gen_cfg(&mut self, rng: &mut Rng, s: &Snap) -> String {
        let nu = self.users.len() as u64;
        let k = self.ntok as u64;
        let c = if rng.chance(70, 100) { OWNER } else { rng.range(1, nu) };
        match rng.below(10) {
            0..=3 => {
                let n = rng.range(0, 3);
                let toks: Vec<String> = (0..n).map(|_| (if rng.chance(1, 12) { 0 } else { rng.range(1, k + 1) }).to_string()).collect();
                format!("addCommon {} {}", c, toks.join(" ")).trim_end().to_string()
            }
            4 | 5 => {
                let n = rng.range(0, 2);
                let toks: Vec<String> = (0..n).map(|_| (if !s.wl.is_empty() && rng.chance(3, 4) { *rng.pick(&s.wl) } else { rng.range(0, k + 1) }).to_string()).collect();
                format!("removeCommon {} {}", c, toks.join(" ")).trim_end().to_string()
            }
            _ => {
                let common = if !s.wl.is_empty() && rng.chance(8, 10) { *rng.pick(&s.wl) } else { rng.range(0, k + 1) };
                let locked = match rng.below(12) {
                    0 => 0,
                    1 => rng.range(1, k + 1),
                    2..=4 => LOCK_B,
                    _ => LOCK_A,
                };
                let pw = rng.range(0, 24) as u32;
                format!("cfgEnable {} {} {} {} {}", c, common, locked, rng.magnitude(pw) - BigUint::one(), *rng.pick(&[0u64, 0, 1, 2, 5, 10]))
            }
        }
    }
    /// `issueLpToken` / `setLocalRoles`: mostly on a registered pair without LP token by somebody entitled,
    /// with every guard approached from both sides
    fn gen_issue(&mut self, rng: &mut Rng, s: &Snap, want: Option<usize>) -> String {
        let nu = self.users.len() as u64;
        let registered: Vec<u64> = s.reg_addrs.clone();
        let bare_reg: Vec<u64> = s.nolp.iter().copied().filter(|a| registered.contains(a)).collect();
        let issued_reg: Vec<u64> = registered.iter().copied().filter(|a| !s.nolp.contains(a)).collect();
        let others: Vec<u64> = self.pairs.iter().map(|p| p.id).filter(|a| !registered.contains(a)).collect();
        let a = match want {
            Some(ix) => self.pairs[ix].id,
            None => match rng.below(20) {
                0..=10 if !bare_reg.is_empty() => *rng.pick(&bare_reg),
                11..=14 if !issued_reg.is_empty() => *rng.pick(&issued_reg),
                15 | 16 if !others.is_empty() => *rng.pick(&others),
                17 => ROUTER,
                18 => rng.range(1, nu),
                _ => if !registered.is_empty() { *rng.pick(&registered) } else { PAIR_BASE },
            },
        };
        let entry = s.tmp.iter().find(|e| e.0 == a).cloned();
        let c = match (entry, rng.below(10)) {
            (Some(e), 0..=4) => e.1,
            (_, 5 | 6) => OWNER,
            (_, 7) => STRANGER,
            _ => rng.range(1, nu),
        };
        let op = if s.nolp.contains(&a) && rng.chance(5, 6) || rng.chance(1, 3) {
            format!("issueLp {c} {a}")
        } else {
            format!("setLocalRoles {c} {a}")
        };
        if let Some(e) = entry {
            if rng.chance(3, 10) {
                // move the block nonce to the expiry boundary of the entry first (expired iff created + period <= now)
                let exp = e.2.saturating_add(s.tper);
                let target = if rng.chance(2, 3) { exp } else { exp.saturating_sub(1) };
                if target >= s.blk {
                    self.pending.push(op);
                    return format!("advanceBlock {target}");
                }
            }
        }
        op
    }

    fn gen_liquidity(&mut self, rng: &mut Rng, s: &Snap, ix: usize, u: u64) -> String {
        if !s.pairs[ix].lp_valid {
            // a pair without LP token cannot take liquidity (the model does not know): drive the issue flow instead
            return self.gen_issue(rng, s, Some(ix));
        }
        let p = &self.pairs[ix];
        let q = &s.pairs[ix];
        let one = BigUint::one();
        let nu = self.users.len() as u64;
        let amt = |rng: &mut Rng| -> BigUint {
            match rng.below(8) {
                0 => BigUint::from(rng.range(1001, 5000)),
                1 => pow10(30) + rng.magnitude(25),
                2 => BigUint::from(rng.range(1, 1500)),
                _ => rng.magnitude(22) + BigUint::from(1000u32),
            }
        };
        if q.s.is_zero() {
            let a1 = amt(rng);
            let a2 = if rng.chance(1, 4) { &a1 * pow10(rng.range(0, 8) as u32) } else { amt(rng) };
            if q.state == 0 && rng.chance(9, 10) {
                let who = if p.adder != 0 && rng.chance(9, 10) { p.adder } else if rng.chance(1, 6) { rng.range(1, nu) } else { u };
                return format!("addInitial {} {} {} {}", who, p.id, a1, a2);
            }
            return format!("addLiq {} {} {} {} 1 1", u, p.id, a1, a2);
        }
        let ab = rng.chance(1, 2);
        let (tin, tout, rin, rout) = if ab { (p.t1, p.t2, &q.r1, &q.r2) } else { (p.t2, p.t1, &q.r2, &q.r1) };
        match rng.below(10) {
            0..=2 => {
                let a1 = match rng.below(4) {
                    0 => one.clone(),
                    1 => &q.r1 * rng.range(1, 3),
                    _ => rng.big_range(&one, &(&q.r1 * 2u32)),
                };
                let a2 = match rng.below(4) {
                    0 => (&a1 * &q.r2 / &q.r1).max(one.clone()),
                    1 => &a1 * &q.r2 / &q.r1 + &one,
                    _ => rng.big_range(&one, &(&q.r2 * 2u32)),
                };
                let (m1, m2) = if rng.chance(1, 6) { (a1.clone(), a2.clone()) } else { (one.clone(), one.clone()) };
                format!("addLiq {} {} {} {} {} {}", u, p.id, a1, a2, m1, m2)
            }
            3 | 4 => {
                let ui = self.acct_ix(u).unwrap_or(0);
                let have = s.users[ui].1[ix].clone();
                if have.is_zero() {
                    return format!("addLiq {} {} {} {} 1 1", u, p.id, &q.r1 / 3u32 + &one, &q.r2 / 3u32 + &one);
                }
                let lp = match rng.below(5) {
                    0 => have.clone(),
                    1 => &have + &one,
                    _ => rng.big_range(&one, &have),
                };
                format!("removeLiq {} {} {} 1 1", u, p.id, lp)
            }
            5..=7 => {
                let a = match rng.below(6) {
                    0 => one.clone(),
                    1 => rin / BigUint::from(1000u32) + &one,
                    2 => rin.clone(),
                    3 => BigUint::zero(),
                    _ => rng.big_range(&one, &(rin * 2u32 + &one)),
                };
                let qo = f_amount_out(q.total, &a, rin, rout);
                let min = match rng.below(6) {
                    0 => &qo + &one,
                    1 => qo.clone().max(one.clone()),
                    _ => one.clone(),
                };
                let tout = if rng.chance(1, 15) { tin } else { tout };
                format!("swapIn {} {} {} {} {} {}", u, p.id, tin, a, tout, min)
            }
            _ => {
                let out = match rng.below(5) {
                    0 => one.clone(),
                    1 => rout.clone(),
                    _ => rng.big_range(&one, rout),
                };
                let need = f_amount_in(q.total, &out, rin, rout).unwrap_or(pow10(20));
                let mx = match rng.below(5) {
                    0 => if need > one { &need - &one } else { one.clone() },
                    1 => need.clone(),
                    _ => &need + rng.big_range(&one, &(&need + &one)),
                };
                format!("swapOut {} {} {} {} {} {}", u, p.id, tin, mx, tout, out)
            }
        }
    }

    fn gen_multi(&mut self, rng: &mut Rng, s: &Snap, u: u64, registered: &[usize], unregistered: &[usize]) -> (char, String) {
        let one = BigUint::one();
        let k = self.ntok as u64;
        let nu = self.users.len() as u64;
        let live: Vec<usize> = registered.iter().copied().filter(|&ix| s.pairs[ix].state == 1 && !s.pairs[ix].s.is_zero()).collect();
        if live.is_empty() {
            // nothing to trade through yet: either push the world forward or try a hop that must fail
            if !registered.is_empty() && rng.chance(1, 2) {
                let ix = *rng.pick(registered);
                return ('O', self.gen_liquidity(rng, s, ix, u));
            }
            if !self.pairs.is_empty() && rng.chance(1, 2) {
                let p = &self.pairs[rng.below(self.pairs.len() as u64) as usize];
                return ('O', format!("multi {} {} {} {}:in:{}:1", u, p.t1, rng.range(1, 100000), p.id, p.t2));
            }
            let a = rng.range(1, k);
            let b = a % k + 1;
            return ('O', format!("createPair {} {} {} 0 300 50", OWNER, a, b));
        }
        // local copy of reserves for planning
        let mut res: HashMap<usize, (BigUint, BigUint)> = HashMap::new();
        let first = *rng.pick(&live);
        let mut cur_tok = if rng.chance(1, 2) { self.pairs[first].t1 } else { self.pairs[first].t2 };
        let tok_in = cur_tok;
        let nh = match rng.below(10) {
            0..=2 => 1,
            3..=5 => 2,
            6..=8 => 3,
            _ => 4,
        };
        let mut hops: Vec<String> = vec![];
        let mut amount = BigUint::zero();
        let mut cur = BigUint::zero();
        let mut last_ix: Option<usize> = None;
        for hi in 0..nh {
            let mut cands: Vec<usize> = live.iter().copied().filter(|&ix| self.pairs[ix].t1 == cur_tok || self.pairs[ix].t2 == cur_tok).collect();
            if hi == 0 {
                cands = vec![first];
            }
            // now and then an otherwise perfectly valid hop through a pair that is NOT registered
            // (removed or foreign, active, with liquidity): only check_is_pair_sc stops it
            if rng.chance(8, 100) {
                let un: Vec<usize> = unregistered.iter().copied()
                    .filter(|&ix| s.pairs[ix].state == 1 && !s.pairs[ix].s.is_zero() && (self.pairs[ix].t1 == cur_tok || self.pairs[ix].t2 == cur_tok))
                    .collect();
                if !un.is_empty() {
                    cands = un;
                }
            }
            if cands.len() > 1 && rng.chance(7, 10) {
                if let Some(l) = last_ix {
                    cands.retain(|&c| c != l);
                }
            }
            if cands.is_empty() {
                break;
            }
            let ix = *rng.pick(&cands);
            last_ix = Some(ix);
            let p = &self.pairs[ix];
            let q = &s.pairs[ix];
            let (r1, r2) = res.get(&ix).cloned().unwrap_or((q.r1.clone(), q.r2.clone()));
            let ab = cur_tok == p.t1;
            let (rin, rout) = if ab { (r1.clone(), r2.clone()) } else { (r2.clone(), r1.clone()) };
            let tout = if ab { p.t2 } else { p.t1 };
            let mut fixed_in = rng.chance(6, 10);
            let careful = rng.chance(85, 100); // mostly plan hops that can succeed
            if hi == 0 {
                amount = match rng.below(10) {
                    0 => one.clone(),
                    1 => rng.big_range(&one, &BigUint::from(1000u32)),
                    2 | 3 => &rin / BigUint::from(1000u32) + &one,
                    4 => rin.clone(),
                    5 => &rin * BigUint::from(rng.range(2, 50)),
                    6 => pow10(rng.range(3, 30) as u32),
                    _ => rng.big_range(&one, &(&rin + &one)),
                };
                if careful && f_amount_out(q.total, &amount, &rin, &rout).is_zero() {
                    // the smallest payment that buys something, or a bit more
                    let need1 = f_amount_in(q.total, &one, &rin, &rout).unwrap_or_else(|| rin.clone());
                    amount = &need1 * BigUint::from(rng.range(1, 50));
                }
                cur = amount.clone();
            }
            if !fixed_in && hi > 0 && careful {
                // a fixed-output hop needs the forwarded amount to cover the charge
                let w1 = f_amount_out(q.total, &(&cur / 2u32), &rin, &rout);
                if w1.is_zero() {
                    fixed_in = true;
                }
            }
            if fixed_in && hi > 0 && careful && f_amount_out(q.total, &cur, &rin, &rout).is_zero() {
                break;
            }
            let (o, charged, wanted) = if fixed_in {
                let o = f_amount_out(q.total, &cur, &rin, &rout);
                let min = match rng.below(40) {
                    0..=22 => one.clone(),
                    23..=30 => o.clone().max(one.clone()), // tight
                    31 | 32 => &o + &one,                    // just too tight: must fail
                    33 => BigUint::zero(),                   // invalid
                    _ => (&o / 2u32).max(one.clone()),
                };
                (o, cur.clone(), min)
            } else {
                let frac = *rng.pick(&[10u64, 50, 90, 99, 100]);
                let base = f_amount_out(q.total, &(&cur * BigUint::from(frac) / BigUint::from(100u32)), &rin, &rout);
                let mut want = base.max(one.clone());
                if rng.chance(1, 30) {
                    want = rout.clone(); // not enough reserve
                }
                let need = f_amount_in(q.total, &want, &rin, &rout).unwrap_or_else(|| &cur + &one);
                if hi == 0 {
                    // the first payment can be chosen: exact (zero residual), loose, or one short
                    amount = match rng.below(12) {
                        0..=3 => need.clone(),
                        4 => if need > one { &need - &one } else { one.clone() },
                        _ => &need + rng.big_range(&one, &(&need + &one)),
                    };
                }
                (want.clone(), need, want)
            };
            hops.push(format!("{}:{}:{}:{}", p.id, if fixed_in { "in" } else { "out" }, tout, wanted));
            let fee = if q.fee_on { &charged * BigUint::from(q.special) / BigUint::from(M) } else { BigUint::zero() };
            let nin = &rin + &charged - &fee;
            let nout = if rout > o { &rout - &o } else { BigUint::zero() };
            res.insert(ix, if ab { (nin, nout) } else { (nout, nin) });
            cur = o;
            cur_tok = tout;
            if cur.is_zero() {
                break;
            }
        }
        // malformed variants (~12 %)
        if rng.chance(12, 100) && !hops.is_empty() {
            let i = rng.below(hops.len() as u64) as usize;
            let mut parts: Vec<String> = hops[i].split(':').map(|x| x.to_string()).collect();
            match rng.below(7) {
                0 | 1 if !unregistered.is_empty() => parts[0] = self.pairs[*rng.pick(unregistered)].id.to_string(),
                2 => parts[0] = rng.range(1, nu).to_string(),
                3 => parts[0] = (*rng.pick(&[ROUTER, TEMPLATE, STRANGER])).to_string(),
                4 => parts[1] = "bad".to_string(),
                5 => parts[2] = rng.range(0, k + 1).to_string(),
                _ => parts[3] = "0".to_string(),
            }
            hops[i] = parts.join(":");
        }
        ('O', format!("multi {} {} {} {}", u, tok_in, amount, hops.join(" ")))
    }
}

fn main() {
    run_world::<RouterWorld>();
}
