//! World `fees`: the real `fees-collector` + the real `energy-factory` (on the simple-lock base)
//! + the real `token-unstake` (needed by `unlockEarly`), driven through the white-box VM.
//! Serves C10.  Model: lean/MxModel/Core/{Weekly,FeesCollector}.lean, driver `drv_fees`.
//!
//! Addresses: u1..un users, d1 (known depositor) d2 (unknown until `addContract d2`),
//! p1 (on the collector's SC whitelist) p2 (not).  Tokens: 0 = LOCKED (SFT), 1..3 fungible
//! (3 is unknown to the collector until `addToken 3`).
//!
//! The energy factory is an INPUT of the model: an `fop` line carries the real outcome of a real
//! factory transaction (`= ok <amount> <lastUpdateEpoch> <totalLocked>` = the user's stored entry
//! afterwards, or `= err`).  In `gen` mode the factory transaction is executed while the line is
//! being generated (the text cannot be written before its outcome is known) and not a second
//! time by `exec`; in `replay` mode `exec` executes it and prints the entry it really got.

#![allow(deprecated)]

use mxharness::*;
use num_bigint::{BigInt, BigUint, Sign};
use num_traits::{One, Signed, ToPrimitive, Zero};
use std::collections::{BTreeMap, BTreeSet};

use multiversx_sc::codec::multi_types::OptionalValue;
use multiversx_sc::storage::mappers::StorageTokenWrapper;
use multiversx_sc::types::{Address, EsdtLocalRole, MultiValueEncoded};
use multiversx_sc_scenario::{
    managed_address, managed_token_id, managed_token_id_wrapped, rust_biguint,
    whitebox_legacy::*, DebugApi,
};

use energy_factory::energy::EnergyModule as _;
use energy_factory::unlock_with_penalty::UnlockWithPenaltyModule as _;
use energy_factory::unstake::UnstakeModule as _;
use energy_factory::SimpleLockEnergy as _;
use energy_query::EnergyQueryModule as _;
use fees_collector::additional_locked_tokens::AdditionalLockedTokensModule as _;
use fees_collector::config::ConfigModule as _;
use fees_collector::fees_accumulation::FeesAccumulationModule as _;
use fees_collector::FeesCollector as _;
use locking_module::lock_with_energy_module::LockWithEnergyModule as _;
use multiversx_sc_modules::pause::PauseModule as _;
use sc_whitelist_module::SCWhitelistModule as _;
use simple_lock::locked_token::{LockedTokenAttributes, LockedTokenModule as _};
use token_unstake::TokenUnstakeModule as _;
use week_timekeeping::WeekTimekeepingModule as _;
use weekly_rewards_splitting::global_info::WeeklyRewardsGlobalInfo as _;
use weekly_rewards_splitting::locked_token_buckets::WeeklyRewardsLockedTokenBucketsModule as _;
use weekly_rewards_splitting::update_claim_progress_energy::UpdateClaimProgressEnergyModule as _;

const LOCKED: &[u8] = b"LOCKED-abcdef";
const FIRST: &[u8] = b"FIRST-abcdef";
const SECOND: &[u8] = b"SECOND-abcdef";
const THIRD: &[u8] = b"THIRD-abcdef";
const MEX: &[u8] = b"MEX-abcdef";
const LEGACY: &[u8] = b"LEGACY-abcdef";
const NTOK: usize = 4;
const BUCKET_SPAN: u64 = 216;
const BLOCKS_IN_WEEK: u64 = 100_800;
const DEP_NONCE: u64 = 900_000;
const LOCK_OPTIONS: [u64; 3] = [360, 720, 1440];
const PENALTIES: [u64; 3] = [4_000, 6_000, 8_000];

type FcObj = fees_collector::ContractObj<DebugApi>;
type FcW = ContractObjWrapper<FcObj, fn() -> FcObj>;
type EfObj = energy_factory::ContractObj<DebugApi>;
type EfW = ContractObjWrapper<EfObj, fn() -> EfObj>;
type UnObj = token_unstake::ContractObj<DebugApi>;
type UnW = ContractObjWrapper<UnObj, fn() -> UnObj>;

fn fc_builder() -> FcObj {
    fees_collector::contract_obj()
}
fn ef_builder() -> EfObj {
    energy_factory::contract_obj()
}
fn un_builder() -> UnObj {
    token_unstake::contract_obj()
}

fn tok_bytes(t: usize) -> &'static [u8] {
    match t {
        0 => LOCKED,
        1 => FIRST,
        2 => SECOND,
        _ => THIRD,
    }
}
fn tok_role(id: &[u8]) -> usize {
    if id == LOCKED {
        0
    } else if id == FIRST {
        1
    } else if id == SECOND {
        2
    } else if id == THIRD {
        3
    } else {
        9
    }
}

fn to_big(x: &multiversx_sc::types::BigUint<DebugApi>) -> BigUint {
    BigUint::from_bytes_be(x.to_bytes_be().as_slice())
}
fn to_bigint(x: &multiversx_sc::types::BigInt<DebugApi>) -> BigInt {
    let mag = to_big(&x.magnitude());
    if *x < 0 {
        BigInt::from_biguint(Sign::Minus, mag)
    } else {
        BigInt::from_biguint(Sign::Plus, mag)
    }
}
fn mbig(x: &BigUint) -> multiversx_sc::types::BigUint<DebugApi> {
    multiversx_sc::types::BigUint::from_bytes_be(&x.to_bytes_be())
}

#[derive(Clone, Debug, PartialEq)]
struct En {
    amount: BigInt,
    last: u64,
    locked: BigUint,
}
impl En {
    fn show(&self) -> String {
        format!("{}:{}:{}", self.amount, self.last, self.locked)
    }
    /// energy amount (clamped at 0) after `weeks` whole weeks of decay — written from the
    /// property text: energy falls by `locked` per epoch, a week has 7 epochs
    fn decayed(&self, weeks: u64) -> BigUint {
        let v = &self.amount - BigInt::from(self.locked.clone()) * BigInt::from(7 * weeks);
        if v.is_positive() {
            v.to_biguint().unwrap()
        } else {
            BigUint::zero()
        }
    }
    fn decayed_raw(&self, weeks: u64) -> BigInt {
        &self.amount - BigInt::from(self.locked.clone()) * BigInt::from(7 * weeks)
    }
}

#[derive(Clone, Debug, Default, PartialEq)]
struct WeekInfo {
    energy: BigUint,
    locked: BigUint,
    rewards: Vec<(usize, BigUint)>,
    acc: Vec<BigUint>,
}

#[derive(Clone, Debug, Default, PartialEq)]
struct Snap {
    epoch: u64,
    week: u64,
    lgw: u64,
    fb: u64,
    law: u64,
    pb: BigUint,
    paused: bool,
    toks: Vec<usize>,
    bal: Vec<BigUint>,
    weeks: BTreeMap<u64, WeekInfo>,
    buckets: Vec<(u64, BigUint, BigUint)>,
    progress: Vec<Option<(u64, En)>>, // every address of the world, index = address index
    entry: Vec<Option<En>>,           // factory entries, same indexing
}

struct FeesWorld {
    b: BlockchainStateWrapper,
    owner: Address,
    nusers: usize,
    addrs: Vec<Address>, // users, then d1 d2, then p1 p2
    fc: FcW,
    ef: EfW,
    #[allow(dead_code)]
    un: UnW,
    epoch: u64,
    /// locked SFTs held per address index: (nonce, amount, unlock epoch)
    nfts: Vec<Vec<(u64, BigUint, u64)>>,
    locked_minted: BigUint,
    // ---- oracle ledgers (real-code observations only) ----
    deposited: BTreeMap<(u64, usize), BigUint>,
    collected: BTreeMap<(u64, usize), BigUint>,
    paid: BTreeMap<(u64, usize), BigUint>,
    paid_weeks: BTreeSet<(usize, u64)>,
    past_energy: BTreeMap<u64, BigUint>,
    pre_executed: Option<(String, bool)>,
    pending: Vec<String>,
    mode: u64,
    lock: u64,
}

impl FeesWorld {
    fn name(&self, i: usize) -> String {
        if i < self.nusers {
            format!("u{}", i + 1)
        } else if i < self.nusers + 2 {
            format!("d{}", i - self.nusers + 1)
        } else {
            format!("p{}", i - self.nusers - 1)
        }
    }
    fn idx(&self, name: &str) -> usize {
        let (k, n) = name.split_at(1);
        let n: usize = n.parse().unwrap_or(1);
        let i = match k {
            "u" => n.wrapping_sub(1),
            "d" => self.nusers + n - 1,
            "p" => self.nusers + 2 + n - 1,
            _ => 0,
        };
        if (k == "u" && i >= self.nusers) || i >= self.addrs.len() {
            0
        } else {
            i
        }
    }

    fn snap(&mut self) -> Snap {
        let mut s = Snap::default();
        s.epoch = self.epoch;
        let addrs = self.addrs.clone();
        let epoch = self.epoch;
        self.b
            .execute_query(&self.fc, |sc| {
                let first = sc.first_week_start_epoch().get();
                s.week = if epoch >= first { (epoch - first) / 7 + 1 } else { 0 };
                s.lgw = sc.last_global_update_week().get() as u64;
                s.fb = sc.first_bucket_id().get();
                s.law = sc.last_locked_token_add_week().get() as u64;
                s.pb = to_big(&sc.locked_tokens_per_block().get());
                s.paused = sc.is_paused();
                for t in sc.all_tokens().get().iter() {
                    s.toks.push(tok_role(t.to_boxed_bytes().as_slice()));
                }
                let lo = s.week.saturating_sub(6);
                for k in lo..=s.week {
                    let mut wi = WeekInfo::default();
                    wi.energy = to_big(&sc.total_energy_for_week(k as usize).get());
                    wi.locked = to_big(&sc.total_locked_tokens_for_week(k as usize).get());
                    for p in sc.total_rewards_for_week(k as usize).get().iter() {
                        wi.rewards.push((
                            tok_role(p.token_identifier.to_boxed_bytes().as_slice()),
                            to_big(&p.amount),
                        ));
                    }
                    for t in 0..NTOK {
                        wi.acc.push(to_big(
                            &sc.accumulated_fees(k as usize, &managed_token_id!(tok_bytes(t))).get(),
                        ));
                    }
                    s.weeks.insert(k, wi);
                }
                for id in s.fb..s.fb + BUCKET_SPAN {
                    let m = sc.locked_tokens_in_bucket(id);
                    if !m.is_empty() {
                        let bk = m.get();
                        let (tk, su) = (to_big(&bk.token_amount), to_big(&bk.surplus_energy_amount));
                        if !tk.is_zero() || !su.is_zero() {
                            s.buckets.push((id, tk, su));
                        }
                    }
                }
                for a in addrs.iter() {
                    let m = sc.current_claim_progress(&managed_address!(a));
                    if m.is_empty() {
                        s.progress.push(None);
                    } else {
                        let p = m.get();
                        s.progress.push(Some((
                            p.week as u64,
                            En {
                                amount: to_bigint(p.energy.get_energy_amount_raw()),
                                last: p.energy.get_last_update_epoch(),
                                locked: to_big(p.energy.get_total_locked_tokens()),
                            },
                        )));
                    }
                }
            })
            .assert_ok();
        self.b
            .execute_query(&self.ef, |sc| {
                for a in addrs.iter() {
                    let m = sc.user_energy(&managed_address!(a));
                    if m.is_empty() {
                        s.entry.push(None);
                    } else {
                        let e = m.get();
                        s.entry.push(Some(En {
                            amount: to_bigint(e.get_energy_amount_raw()),
                            last: e.get_last_update_epoch(),
                            locked: to_big(e.get_total_locked_tokens()),
                        }));
                    }
                }
            })
            .assert_ok();
        let fca = self.fc.address_ref().clone();
        for t in 0..NTOK {
            let v = if t == 0 {
                self.b.get_esdt_balance(&fca, LOCKED, DEP_NONCE)
            } else {
                self.b.get_esdt_balance(&fca, tok_bytes(t), 0)
            };
            s.bal.push(v);
        }
        s
    }

    fn state_line(&self, s: &Snap) -> String {
        let join = |v: &Vec<BigUint>| v.iter().map(|x| x.to_string()).collect::<Vec<_>>().join(",");
        let mut out = format!(
            "ep={} wk={} lgw={} fb={} law={} pb={} paused={} toks={} bal={} lm={}",
            s.epoch,
            s.week,
            s.lgw,
            s.fb,
            s.law,
            s.pb,
            if s.paused { 1 } else { 0 },
            s.toks.iter().map(|x| x.to_string()).collect::<Vec<_>>().join(","),
            join(&s.bal),
            self.locked_minted
        );
        for (k, wi) in s.weeks.iter() {
            let rew = if wi.rewards.is_empty() {
                "-".to_string()
            } else {
                wi.rewards.iter().map(|(t, a)| format!("{}:{}", t, a)).collect::<Vec<_>>().join("+")
            };
            out += &format!(" w{}={}/{}/{}/{}", k, wi.energy, wi.locked, rew, join(&wi.acc));
        }
        let bk = if s.buckets.is_empty() {
            "-".to_string()
        } else {
            s.buckets.iter().map(|(i, t, u)| format!("{}:{}:{}", i, t, u)).collect::<Vec<_>>().join("+")
        };
        out += &format!(" bk={}", bk);
        for i in 0..self.nusers {
            let p = match &s.progress[i] {
                Some((w, e)) => format!("{}:{}", w, e.show()),
                None => "-".into(),
            };
            let e = match &s.entry[i] {
                Some(e) => e.show(),
                None => "-".into(),
            };
            out += &format!(" u{}={} e{}={}", i + 1, p, i + 1, e);
        }
        // the harness's own per-(week, token) ledgers (`record_frozen`: totals seen frozen in `totalRewardsForWeek`; `claim_oracle`:
        // the payments of every claim, split by week with the harness's own recomputation and checked against what the real
        // claim returned), ALL weeks, zero entries dropped, ascending; the model driver prints its ghosts `a.collected` /
        // `a.paid` in the same format
        let wtmap = |m: &BTreeMap<(u64, usize), BigUint>| -> String {
            let v: Vec<String> = m.iter().filter(|(_, a)| !a.is_zero()).map(|((w, t), a)| format!("{}.{}:{}", w, t, a)).collect();
            if v.is_empty() { "-".to_string() } else { v.join(",") }
        };
        out += &format!(" led=coll:{};paid:{}", wtmap(&self.collected), wtmap(&self.paid));
        out
    }

    // ------------------------------------------------------------ real factory operations
    /// executes a factory op for real; returns success
    fn factory_op(&mut self, tr: &mut Option<&mut Trace>, who: usize, w: &[&str]) -> bool {
        let user = self.addrs[who].clone();
        let zero = rust_biguint!(0);
        let _ = zero;
        match w[0] {
            "lock" => {
                let amount = big(w[1]);
                let epochs: u64 = w[2].parse().unwrap();
                let mut out: Option<(u64, BigUint)> = None;
                let r = self.b.execute_esdt_transfer(&user, &self.ef, MEX, 0, &amount, |sc| {
                    let p = sc.lock_tokens_endpoint(epochs, OptionalValue::None);
                    out = Some((p.token_nonce, to_big(&p.amount)));
                });
                let ok = r.result_status == 0;
                if ok {
                    let (nonce, amt) = out.unwrap();
                    let unlock = (self.epoch + epochs) - (self.epoch + epochs) % 30;
                    self.add_nft(who, nonce, amt, unlock);
                }
                if let Some(t) = tr {
                    t.count(if ok { "fop.lock.ok" } else { "fop.lock.err" });
                }
                ok
            }
            "extend" => {
                let nonce: u64 = w[1].parse().unwrap();
                let amount = big(w[2]);
                let epochs: u64 = w[3].parse().unwrap();
                let mut out: Option<(u64, BigUint)> = None;
                let r = self.b.execute_esdt_transfer(&user, &self.ef, LOCKED, nonce, &amount, |sc| {
                    let p = sc.lock_tokens_endpoint(epochs, OptionalValue::None);
                    out = Some((p.token_nonce, to_big(&p.amount)));
                });
                let ok = r.result_status == 0;
                if ok {
                    self.sub_nft(who, nonce, &amount);
                    let (n2, amt) = out.unwrap();
                    let unlock = (self.epoch + epochs) - (self.epoch + epochs) % 30;
                    self.add_nft(who, n2, amt, unlock);
                }
                if let Some(t) = tr {
                    t.count(if ok { "fop.extend.ok" } else { "fop.extend.err" });
                }
                ok
            }
            "unlock" => {
                let nonce: u64 = w[1].parse().unwrap();
                let amount = big(w[2]);
                let r = self.b.execute_esdt_transfer(&user, &self.ef, LOCKED, nonce, &amount, |sc| {
                    let _ = sc.unlock_tokens_endpoint();
                });
                let ok = r.result_status == 0;
                if ok {
                    self.sub_nft(who, nonce, &amount);
                }
                if let Some(t) = tr {
                    t.count(if ok { "fop.unlock.ok" } else { "fop.unlock.err" });
                }
                ok
            }
            "unlockEarly" => {
                let nonce: u64 = w[1].parse().unwrap();
                let amount = big(w[2]);
                let r = self.b.execute_esdt_transfer(&user, &self.ef, LOCKED, nonce, &amount, |sc| {
                    sc.unlock_early();
                });
                let ok = r.result_status == 0;
                if ok {
                    self.sub_nft(who, nonce, &amount);
                }
                if let Some(t) = tr {
                    t.count(if ok { "fop.unlockEarly.ok" } else { "fop.unlockEarly.err" });
                }
                ok
            }
            _ => false,
        }
    }

    fn add_nft(&mut self, who: usize, nonce: u64, amt: BigUint, unlock: u64) {
        for e in self.nfts[who].iter_mut() {
            if e.0 == nonce {
                e.1 += &amt;
                return;
            }
        }
        self.nfts[who].push((nonce, amt, unlock));
    }
    fn sub_nft(&mut self, who: usize, nonce: u64, amt: &BigUint) {
        for e in self.nfts[who].iter_mut() {
            if e.0 == nonce {
                if &e.1 >= amt {
                    e.1 -= amt;
                } else {
                    e.1 = BigUint::zero();
                }
            }
        }
        self.nfts[who].retain(|e| !e.1.is_zero());
    }

    fn raw_entry(&mut self, who: usize) -> Option<En> {
        let a = self.addrs[who].clone();
        let mut out = None;
        self.b
            .execute_query(&self.ef, |sc| {
                let m = sc.user_energy(&managed_address!(&a));
                if !m.is_empty() {
                    let e = m.get();
                    out = Some(En {
                        amount: to_bigint(e.get_energy_amount_raw()),
                        last: e.get_last_update_epoch(),
                        locked: to_big(e.get_total_locked_tokens()),
                    });
                }
            })
            .assert_ok();
        out
    }

    // ------------------------------------------------------------ property oracles (C10)
    /// what the property text says a claim by `orig` must pay, from the pre-claim progress of
    /// `orig` and the (post-claim) weekly totals: per week the list of (token, amount)
    fn spec_claim(&self, pre: &Snap, post: &Snap, orig: usize) -> Vec<(u64, Vec<(usize, BigUint)>)> {
        let mut out = vec![];
        let w_now = post.week;
        let (week_u, en) = match &pre.progress[orig] {
            Some((w, e)) => (*w, e.clone()),
            None => return out,
        };
        let mut w = week_u;
        while w < w_now {
            // only the four most recent completed weeks
            if w + 4 >= w_now {
                let e_u = en.decayed(w - week_u);
                let mut pays = vec![];
                if let Some(wi) = post.weeks.get(&w) {
                    if !e_u.is_zero() && !wi.energy.is_zero() {
                        for (t, total) in wi.rewards.iter() {
                            let share = total * &e_u / &wi.energy;
                            if !share.is_zero() {
                                pays.push((*t, share));
                            }
                        }
                    }
                }
                out.push((w, pays));
            }
            w += 1;
        }
        out
    }

    /// frozen totals: record them, they must not change while they exist and never exceed deposits
    fn record_frozen(&mut self, tr: &mut Trace, site: &str, post: &Snap) {
        for (k, wi) in post.weeks.iter() {
            if !wi.rewards.is_empty() {
                let mut seen = BTreeSet::new();
                for (t, a) in wi.rewards.iter() {
                    if !seen.insert(*t) {
                        tr.fail("C10", "total_frozen", site, &format!("week {k}: token {t} listed twice"));
                    }
                    match self.collected.get(&(*k, *t)) {
                        Some(c) if c != a => {
                            tr.fail("C10", "total_frozen", site,
                                &format!("totalRewardsForWeek({k}) token {t} changed {c} -> {a}"));
                        }
                        Some(_) => {}
                        None => {
                            self.collected.insert((*k, *t), a.clone());
                            tr.count("branch.week_frozen");
                        }
                    }
                    let dep = self.deposited.get(&(*k, *t)).cloned().unwrap_or_default();
                    if a > &dep {
                        tr.fail("C10", "collected_le_deposited", site,
                            &format!("week {k} token {t}: frozen total {a} > deposited {dep}"));
                    }
                }
            }
        }
    }

    fn oracles_after(&mut self, tr: &mut Trace, site: &str, pre: &Snap, post: &Snap, ok: bool) {
        if !ok {
            if pre != post {
                tr.fail("C10", "failed_tx_changes_state", site, "state differs after a failed transaction");
            }
            return;
        }
        let w_now = post.week;
        self.record_frozen(tr, site, post);
        for (k, wi) in post.weeks.iter() {
            // energies of completed weeks never change any more
            if *k < w_now && *k + 4 >= w_now {
                match self.past_energy.get(k) {
                    Some(e) if e != &wi.energy => {
                        tr.fail("C10", "past_energy_frozen", site,
                            &format!("totalEnergyForWeek({k}) changed {e} -> {} after the week ended", wi.energy));
                    }
                    _ => {}
                }
            }
        }
        if let Some(wi) = post.weeks.get(&w_now) {
            // remember the running value of the current week; it is final once the week ends
            if post.lgw == w_now {
                self.past_energy.insert(w_now, wi.energy.clone());
            }
        }
        // the denominator = sum of the recorded energies decayed to that week
        if post.lgw > 0 {
            let mut sum = BigUint::zero();
            let mut toks = BigUint::zero();
            for p in post.progress.iter() {
                if let Some((wk, e)) = p {
                    if *wk <= post.lgw {
                        sum += e.decayed(post.lgw - wk);
                        if !e.locked.is_zero() && !e.decayed_raw(post.lgw - wk).is_negative() && e.amount.is_positive() {
                            toks += &e.locked;
                        }
                    } else {
                        tr.fail("C10", "progress_week_le_global", site,
                            &format!("progress week {wk} > lastGlobalUpdateWeek {}", post.lgw));
                    }
                }
            }
            let tot = post.weeks.get(&post.lgw).map(|w| w.energy.clone());
            if let Some(tot) = tot {
                if tot != sum {
                    tr.fail("C10", "global_energy_eq_sum", site,
                        &format!("totalEnergyForWeek({}) = {tot} but the recorded energies decayed to that week sum to {sum}", post.lgw));
                } else if !tot.is_zero() {
                    tr.count("oracle.global_energy_eq_sum.nonzero");
                }
                let tl = post.weeks.get(&post.lgw).map(|w| w.locked.clone()).unwrap_or_default();
                if tl < toks {
                    tr.fail("C10", "global_tokens_ge_sum", site,
                        &format!("totalLockedTokensForWeek({}) = {tl} < sum of live users' tokens {toks}", post.lgw));
                } else if tl > toks {
                    tr.count("branch.orphan_lot_tokens");
                }
            }
        }
        // solvency: every non-locked token, balance >= what can still be claimed or collected
        for t in 1..NTOK {
            let mut need = BigUint::zero();
            for (k, wi) in post.weeks.iter() {
                if *k + 4 >= w_now {
                    need += &wi.acc[t];
                    if let Some((_, a)) = wi.rewards.iter().find(|(tt, _)| *tt == t) {
                        let pd = self.paid.get(&(*k, t)).cloned().unwrap_or_default();
                        if a >= &pd {
                            need += a - &pd;
                        }
                    }
                }
            }
            if post.bal[t] < need {
                tr.fail("C10", "collector_solvent", site,
                    &format!("token {t}: balance {} < unclaimed {need}", post.bal[t]));
            }
        }
    }

    fn claim_oracle(
        &mut self,
        tr: &mut Trace,
        site: &str,
        pre: &Snap,
        post: &Snap,
        orig: usize,
        pays: &[(usize, BigUint)],
    ) {
        let spec = self.spec_claim(pre, post, orig);
        // expected return value: non-locked payments in order, locked ones summed at the end
        let mut exp: Vec<(usize, BigUint)> = vec![];
        let mut locked = BigUint::zero();
        for (_, ps) in spec.iter() {
            for (t, a) in ps.iter() {
                if *t == 0 {
                    locked += a;
                } else {
                    exp.push((*t, a.clone()));
                }
            }
        }
        if !locked.is_zero() {
            exp.push((0, locked));
        }
        if exp.as_slice() != pays {
            tr.fail("C10", "share_formula", site,
                &format!("claim for {} paid {:?}, the energy-share formula over the four most recent completed weeks gives {:?}",
                    self.name(orig), pays, exp));
            return;
        }
        if spec.len() > 4 {
            tr.fail("C10", "four_weeks", site, &format!("{} weeks paid in one claim", spec.len()));
        }
        for (w, ps) in spec.iter() {
            if !(w + 4 >= post.week && *w < post.week) {
                tr.fail("C10", "four_weeks", site, &format!("week {w} paid in week {}", post.week));
            }
            if !ps.is_empty() {
                tr.count("branch.week_paid");
                if !self.paid_weeks.insert((orig, *w)) {
                    tr.fail("C10", "claim_once", site, &format!("{} paid twice for week {w}", self.name(orig)));
                }
            }
            for (t, a) in ps.iter() {
                let e = self.paid.entry((*w, *t)).or_default();
                *e += a;
                let c = self.collected.get(&(*w, *t)).cloned().unwrap_or_default();
                if *e > c {
                    tr.fail("C10", "week_sum_bound", site,
                        &format!("week {w} token {t}: paid so far {} > collected {c}", e));
                }
            }
        }
        // progress afterwards: at the current week, or cleared
        match &post.progress[orig] {
            Some((w, _)) if *w != post.week => {
                tr.fail("C10", "claim_once", site, &format!("progress week {w} != current week {} after claim", post.week));
            }
            _ => {}
        }
        if let Some((wk, _)) = &pre.progress[orig] {
            let behind = post.week - wk;
            if behind > 4 {
                tr.count("branch.skipped_more_than_4_weeks");
            }
            if behind >= 1 {
                tr.count("branch.claim_with_weeks_behind");
            }
            if let Some((_, e)) = &pre.progress[orig] {
                if behind >= 1 && e.decayed(behind).is_zero() {
                    tr.count("branch.energy_expired_between_claims");
                }
            }
        } else if post.week > 1 {
            tr.count("branch.first_time_user_mid_history");
        }
    }
}

impl World for FeesWorld {
    const NAME: &'static str = "fees";

    fn gen_header(rng: &mut Rng, _h: u64, _tier: &str) -> String {
        let users = rng.range(2, 4);
        let epoch = *rng.pick(&[5u64, 5, 0, 29, 100, 363]);
        let lock = *rng.pick(&[1440u64, 1440, 720, 360]);
        let known = *rng.pick(&["1,2", "1,2", "1", "1,2,3"]);
        // mode: 0 normal pace, 1 long jumps (expiry of whole locks), 2 dense (many ops per week)
        let mode = rng.weighted(&[5, 3, 2]);
        format!("epoch={epoch} lock={lock} users={users} known={known} mode={mode}")
    }

    fn new(header: &str) -> Self {
        let epoch0 = kv_u64(header, "epoch", 5);
        let lock = kv_u64(header, "lock", 1440);
        let nusers = kv_u64(header, "users", 3) as usize;
        let known: Vec<usize> = kv(header, "known")
            .unwrap_or("1,2")
            .split(',')
            .filter_map(|x| x.parse().ok())
            .collect();
        let zero = rust_biguint!(0);
        let mut b = BlockchainStateWrapper::new();
        let owner = b.create_user_account(&zero);
        let mut addrs = vec![];
        let funds = pow10(40);
        for _ in 0..nusers {
            let u = b.create_user_account(&zero);
            b.set_esdt_balance(&u, MEX, &funds);
            addrs.push(u);
        }
        for _ in 0..2 {
            let d = b.create_user_account(&zero);
            for t in 1..NTOK {
                b.set_esdt_balance(&d, tok_bytes(t), &funds);
            }
            addrs.push(d);
        }
        for _ in 0..2 {
            let p = b.create_user_account(&zero);
            addrs.push(p);
        }
        // users may also try to deposit (malformed stream)
        for i in 0..nusers {
            b.set_esdt_balance(&addrs[i], FIRST, &funds);
        }
        let fc: FcW = b.create_sc_account(&zero, Some(&owner), fc_builder as fn() -> FcObj, "fc.wasm");
        let ef: EfW = b.create_sc_account(&zero, Some(&owner), ef_builder as fn() -> EfObj, "ef.wasm");
        let un: UnW = b.create_sc_account(&zero, Some(&owner), un_builder as fn() -> UnObj, "un.wasm");

        b.set_esdt_local_roles(ef.address_ref(), MEX, &[EsdtLocalRole::Mint, EsdtLocalRole::Burn]);
        b.set_esdt_local_roles(
            ef.address_ref(),
            LOCKED,
            &[EsdtLocalRole::NftCreate, EsdtLocalRole::NftAddQuantity, EsdtLocalRole::NftBurn, EsdtLocalRole::Transfer],
        );
        b.set_esdt_local_roles(ef.address_ref(), LEGACY, &[EsdtLocalRole::NftBurn]);
        b.set_esdt_local_roles(fc.address_ref(), LOCKED, &[EsdtLocalRole::NftBurn]);
        b.set_esdt_local_roles(un.address_ref(), MEX, &[EsdtLocalRole::Burn]);
        b.set_esdt_local_roles(un.address_ref(), LOCKED, &[EsdtLocalRole::NftBurn]);

        DebugApi::dummy();
        for k in 0..2 {
            b.set_nft_balance(
                &addrs[nusers + k],
                LOCKED,
                DEP_NONCE,
                &funds,
                &LockedTokenAttributes::<DebugApi> {
                    original_token_id: managed_token_id_wrapped!(MEX),
                    original_token_nonce: 0,
                    unlock_epoch: 100_000,
                },
            );
        }
        b.set_block_epoch(epoch0);

        let (fca, efa, una) = (fc.address_ref().clone(), ef.address_ref().clone(), un.address_ref().clone());
        b.execute_tx(&owner, &ef, &zero, |sc| {
            let mut lock_options = MultiValueEncoded::new();
            for (o, p) in LOCK_OPTIONS.iter().zip(PENALTIES.iter()) {
                lock_options.push((*o, *p).into());
            }
            sc.init(
                managed_token_id!(MEX),
                managed_token_id!(LEGACY),
                managed_address!(&una),
                0,
                lock_options,
            );
            sc.locked_token().set_token_id(managed_token_id!(LOCKED));
            sc.set_paused(false);
            sc.set_token_unstake_address(managed_address!(&una));
            sc.add_sc_address_to_whitelist(managed_address!(&fca));
        })
        .assert_ok();
        b.execute_tx(&owner, &un, &zero, |sc| {
            sc.init(10, managed_address!(&efa), 5_000, managed_address!(&fca));
        })
        .assert_ok();
        let d1 = addrs[nusers].clone();
        let p1 = addrs[nusers + 2].clone();
        b.execute_tx(&owner, &fc, &zero, |sc| {
            sc.init(managed_token_id!(LOCKED), managed_address!(&efa));
            let _ = sc.known_contracts().insert(managed_address!(&d1));
            let mut tokens = MultiValueEncoded::new();
            for t in known.iter() {
                if *t >= 1 && *t < NTOK {
                    tokens.push(managed_token_id!(tok_bytes(*t)));
                }
            }
            sc.add_known_tokens(tokens);
            sc.set_energy_factory_address(managed_address!(&efa));
            sc.set_locking_sc_address(managed_address!(&efa));
            sc.set_lock_epochs(lock);
            sc.add_sc_address_to_whitelist(managed_address!(&p1));
        })
        .assert_ok();

        let n = addrs.len();
        FeesWorld {
            b,
            owner,
            nusers,
            addrs,
            fc,
            ef,
            un,
            epoch: epoch0,
            nfts: vec![vec![]; n],
            locked_minted: BigUint::zero(),
            deposited: BTreeMap::new(),
            collected: BTreeMap::new(),
            paid: BTreeMap::new(),
            paid_weeks: BTreeSet::new(),
            past_energy: BTreeMap::new(),
            pre_executed: None,
            pending: vec![],
            mode: kv_u64(header, "mode", 0),
            lock,
        }
    }

    fn gen_line(&mut self, rng: &mut Rng, step: u64, _tier: &str) -> (char, String) {
        if let Some(p) = self.pending.pop() {
            return ('O', p);
        }
        let s = self.snap();
        let nu = self.nusers as u64;
        let u = rng.range(1, nu) as usize - 1;
        let mode = self.mode;
        if s.paused && rng.chance(1, 2) {
            return ('O', "pause 0".into());
        }
        let amount = |rng: &mut Rng| -> BigUint {
            match rng.below(8) {
                0 => BigUint::one(),
                1 => BigUint::from(rng.range(1, 1000)),
                2 => pow10(18) * rng.range(1, 1000),
                3 => rng.magnitude(24),
                4 => BigUint::from(rng.range(1, 7) * 7),
                _ => rng.magnitude(12),
            }
        };
        // bootstrap: give users energy early
        let no_energy = s.entry[u].is_none();
        let weights: [u64; 7] = if step < 4 { [1, 2, 2, 6, 0, 1, 0] } else { [14, 14, 22, 14, 5, 7, 9] };
        let mut k = rng.weighted(&weights);
        if no_energy && rng.chance(1, 2) {
            k = 3;
        }
        match k {
            0 => {
                // advance
                let n = match mode {
                    1 => match rng.below(10) {
                        0..=2 => rng.range(1, 7),
                        3..=5 => rng.range(7, 40),
                        6..=7 => rng.range(40, 200),
                        8 => rng.range(200, 800),
                        _ => 7,
                    },
                    2 => match rng.below(10) {
                        0..=5 => 1,
                        6..=7 => rng.range(2, 6),
                        8 => 7,
                        _ => rng.range(7, 36),
                    },
                    _ => match rng.below(12) {
                        0..=3 => rng.range(1, 3),
                        4..=6 => rng.range(3, 7),
                        7..=8 => 7,
                        9 => rng.range(8, 28),
                        10 => rng.range(29, 60),
                        _ => rng.range(60, 400),
                    },
                };
                // targeted: reach exactly the week in which some user's recorded energy hits 0
                if rng.chance(1, 6) {
                    if let Some((wk, e)) = &s.progress[u] {
                        if !e.locked.is_zero() && e.amount.is_positive() {
                            let per_week = &e.locked * 7u32;
                            let a = e.amount.to_biguint().unwrap();
                            let kq = (&a / &per_week).to_u64().unwrap_or(0);
                            let exact = (&a % &per_week).is_zero();
                            let target_week = wk + kq + if exact || rng.chance(1, 2) { 0 } else { 1 };
                            if target_week > s.week && target_week - s.week < 300 {
                                let first_epoch_of = self.epoch - (self.epoch - self.first_epoch()) % 7 + (target_week - s.week) * 7;
                                let n2 = first_epoch_of - self.epoch + rng.below(7);
                                self.pending.push(format!("claim u{} -", u + 1));
                                return ('O', format!("advance {}", n2));
                            }
                        }
                    }
                }
                ('O', format!("advance {}", n))
            }
            1 => {
                // deposit
                let caller = match rng.below(12) {
                    0 => "d2".to_string(),
                    1 => format!("u{}", u + 1),
                    _ => "d1".to_string(),
                };
                let (tok, nonce) = match rng.below(14) {
                    0 => (0usize, DEP_NONCE),
                    1 => (0, DEP_NONCE),
                    2 => (3, 0),
                    3 => (1, DEP_NONCE), // fungible with a nonce: malformed
                    4..=8 => (1, 0),
                    _ => (2, 0),
                };
                let a = if rng.chance(1, 30) { BigUint::zero() } else { amount(rng) };
                ('O', format!("deposit {} {} {} {}", caller, tok, nonce, a))
            }
            2 => {
                // claims
                let me = format!("u{}", u + 1);
                let other = format!("u{}", rng.range(1, nu));
                match rng.below(20) {
                    0 => ('O', format!("claim p1 {}", other)),
                    1 => ('O', format!("claim p2 {}", other)),
                    2 => ('O', format!("claim {} {}", me, other)),
                    3 => ('O', format!("claimB {} -", me)),
                    4 | 5 => ('O', format!("claimB {} {}", me, other)),
                    6 => ('O', "claim d1 -".to_string()),
                    _ => ('O', format!("claim {} -", me)),
                }
            }
            3 => {
                // real factory operation, executed now; the line carries its outcome
                let mut words: Vec<String> = vec![];
                let mine = self.nfts[u].clone();
                let choice = if mine.is_empty() { 0 } else { rng.below(10) };
                match choice {
                    0..=3 => {
                        let opt = if rng.chance(1, 15) { 100 } else { *rng.pick(&LOCK_OPTIONS) };
                        let a = if rng.chance(1, 25) { BigUint::zero() } else { amount(rng) };
                        words.push("lock".into());
                        words.push(a.to_string());
                        words.push(opt.to_string());
                    }
                    4 | 5 => {
                        let (nonce, amt, _) = rng.pick(&mine).clone();
                        let a = if rng.chance(1, 2) { amt.clone() } else { rng.big_range(&BigUint::one(), &amt) };
                        words.push("extend".into());
                        words.push(nonce.to_string());
                        words.push(a.to_string());
                        words.push(rng.pick(&LOCK_OPTIONS).to_string());
                    }
                    6 | 7 => {
                        // unlock: prefer an expired one
                        let exp: Vec<_> = mine.iter().filter(|e| e.2 <= self.epoch).cloned().collect();
                        let (nonce, amt, _) = if !exp.is_empty() && rng.chance(4, 5) { rng.pick(&exp).clone() } else { rng.pick(&mine).clone() };
                        let a = if rng.chance(2, 3) { amt.clone() } else { rng.big_range(&BigUint::one(), &amt) };
                        words.push("unlock".into());
                        words.push(nonce.to_string());
                        words.push(a.to_string());
                    }
                    _ => {
                        let (nonce, amt, _) = rng.pick(&mine).clone();
                        let a = if rng.chance(2, 3) { amt.clone() } else { rng.big_range(&BigUint::one(), &amt) };
                        words.push("unlockEarly".into());
                        words.push(nonce.to_string());
                        words.push(a.to_string());
                    }
                }
                let ws: Vec<&str> = words.iter().map(|x| x.as_str()).collect();
                let ok = self.factory_op(&mut None, u, &ws);
                let text = if ok {
                    let e = self.raw_entry(u).expect("entry after a successful factory op");
                    format!("fop u{} {} = ok {} {} {}", u + 1, words.join(" "), e.amount, e.last, e.locked)
                } else {
                    format!("fop u{} {} = err", u + 1, words.join(" "))
                };
                self.pre_executed = Some((text.clone(), ok));
                ('O', text)
            }
            4 => {
                // anybody may call updateEnergyForUser for anybody: aim it, half of the time, at a user whose claim progress is
                // BEHIND the current week (the guarded case — it must be refused while the user is still owed a share)
                let behind: Vec<usize> = (0..self.nusers).filter(|i| matches!(&s.progress[*i], Some((w, _)) if *w < s.week)).collect();
                if !behind.is_empty() && rng.chance(1, 2) {
                    ('O', format!("updateEnergy u{}", rng.pick(&behind) + 1))
                } else {
                    ('O', format!("updateEnergy u{}", rng.range(1, nu)))
                }
            }
            5 => match rng.below(10) {
                0..=2 => {
                    let v = match rng.below(4) {
                        0 => BigUint::zero(),
                        1 => BigUint::from(rng.range(1, 100)),
                        _ => rng.magnitude(15),
                    };
                    ('O', format!("setPerBlock {}", v))
                }
                3 => ('O', "addToken 3".into()),
                4 => ('O', format!("removeToken {}", rng.range(1, 3))),
                5 => ('O', format!("addToken {}", rng.range(1, 3))),
                6 => ('O', format!("addContract d{}", rng.range(1, 2))),
                7 => ('O', format!("removeContract d{}", rng.range(1, 2))),
                8 => ('O', format!("allowExternal u{} {}", rng.range(1, nu), rng.below(2))),
                _ => {
                    self.pending.push("pause 0".into());
                    if rng.chance(1, 2) {
                        self.pending.push(format!("claim u{} -", u + 1));
                    }
                    ('O', "pause 1".into())
                }
            },
            _ => {
                // a "regular week": time moves on by one week, fees arrive, everyone claims
                // (keeps several users in step, so that sums over users are exercised)
                let mut order: Vec<usize> = (0..self.nusers).collect();
                for i in (1..order.len()).rev() {
                    order.swap(i, rng.below(i as u64 + 1) as usize);
                }
                for i in order {
                    if rng.chance(5, 6) {
                        self.pending.push(format!("claim u{} -", i + 1));
                    }
                }
                for _ in 0..rng.range(1, 3) {
                    let (tok, nonce) = match rng.below(5) {
                        0 => (0usize, DEP_NONCE),
                        1 | 2 => (1, 0),
                        _ => (2, 0),
                    };
                    self.pending.push(format!("deposit d1 {} {} {}", tok, nonce, amount(rng)));
                }
                ('O', format!("advance {}", rng.range(5, 8)))
            }
        }
    }

    fn exec(&mut self, tr: &mut Trace, text: &str) {
        let n = tr.op(text);
        let w: Vec<&str> = text.split_whitespace().collect();
        let site = w[0].to_string();
        tr.count(&format!("op.{}", site));
        let zero = rust_biguint!(0);
        let owner = self.owner.clone();
        let pre = self.snap();
        let mut pays: Vec<(usize, BigUint)> = vec![];
        let mut claim_orig: Option<usize> = None;
        let ok: bool = match w[0] {
            "advance" => {
                let k: u64 = w[1].parse().unwrap();
                self.epoch += k;
                self.b.set_block_epoch(self.epoch);
                true
            }
            "deposit" => {
                let c = self.idx(w[1]);
                let caller = self.addrs[c].clone();
                let tok: usize = w[2].parse().unwrap();
                let nonce: u64 = w[3].parse().unwrap();
                let a = big(w[4]);
                let r = self.b.execute_esdt_transfer(&caller, &self.fc, tok_bytes(tok.min(3)), nonce, &a, |sc| {
                    sc.deposit_swap_fees();
                });
                let ok = r.result_status == 0;
                if ok {
                    *self.deposited.entry((pre.week, tok)).or_default() += &a;
                    if nonce > 0 {
                        tr.count("branch.locked_deposit_burned");
                    }
                }
                ok
            }
            "claim" | "claimB" => {
                let c = self.idx(w[1]);
                let caller = self.addrs[c].clone();
                let orig: Option<usize> = if w[2] == "-" { None } else { Some(self.idx(w[2])) };
                let orig_addr = orig.map(|i| self.addrs[i].clone());
                let boosted = w[0] == "claimB";
                let mut got: Vec<(Vec<u8>, u64, BigUint)> = vec![];
                let r = self.b.execute_tx(&caller, &self.fc, &zero, |sc| {
                    let arg = match &orig_addr {
                        Some(a) => OptionalValue::Some(managed_address!(a)),
                        None => OptionalValue::None,
                    };
                    let res = if boosted { sc.claim_boosted_rewards(arg) } else { sc.claim_rewards_endpoint(arg) };
                    for p in res.iter() {
                        got.push((p.token_identifier.to_boxed_bytes().as_slice().to_vec(), p.token_nonce, to_big(&p.amount)));
                    }
                });
                let ok = r.result_status == 0;
                if ok {
                    let receiver = if boosted { orig.unwrap_or(c) } else { c };
                    for (id, nonce, a) in got.iter() {
                        let t = tok_role(id);
                        pays.push((t, a.clone()));
                        if t == 0 {
                            self.locked_minted += a;
                            let unlock_lock = self.lock;
                            let unlock = (self.epoch + unlock_lock) - (self.epoch + unlock_lock) % 30;
                            self.add_nft(receiver, *nonce, a.clone(), unlock);
                            tr.count("branch.locked_reward_via_lockVirtual");
                        }
                    }
                    claim_orig = Some(orig.unwrap_or(c));
                    if pre.law != pre.week {
                        // the contract's once-per-week top-up of the previous week (locked token)
                        let add = &pre.pb * BLOCKS_IN_WEEK;
                        if !add.is_zero() {
                            *self.deposited.entry((pre.week - 1, 0)).or_default() += add;
                            tr.count("branch.additional_locked_tokens");
                        }
                    }
                    if !pays.is_empty() {
                        tr.count("branch.claim_paid");
                    }
                }
                ok
            }
            "updateEnergy" => {
                let u = self.idx(w[1]);
                let ua = self.addrs[u].clone();
                let caller = self.addrs[self.nusers].clone();
                let r = self.b.execute_tx(&caller, &self.fc, &zero, |sc| {
                    sc.update_energy_for_user(managed_address!(&ua));
                });
                r.result_status == 0
            }
            "fop" => {
                let u = self.idx(w[1]);
                let eq = w.iter().position(|x| *x == "=").unwrap_or(w.len());
                match self.pre_executed.take() {
                    Some((t, ok)) if t == text => ok,
                    _ => {
                        let args: Vec<&str> = w[2..eq].to_vec();
                        self.factory_op(&mut Some(tr), u, &args)
                    }
                }
            }
            "setPerBlock" => {
                let v = big(w[1]);
                let r = self.b.execute_tx(&owner, &self.fc, &zero, |sc| {
                    sc.set_locked_tokens_per_block(mbig(&v));
                });
                let ok = r.result_status == 0;
                if ok && pre.law != pre.week {
                    let add = &pre.pb * BLOCKS_IN_WEEK;
                    if !add.is_zero() {
                        *self.deposited.entry((pre.week - 1, 0)).or_default() += add;
                    }
                }
                ok
            }
            "addToken" | "removeToken" => {
                let t: usize = w[1].parse().unwrap();
                let add = w[0] == "addToken";
                let r = self.b.execute_tx(&owner, &self.fc, &zero, |sc| {
                    let mut tokens = MultiValueEncoded::new();
                    tokens.push(managed_token_id!(tok_bytes(t.min(3))));
                    if add {
                        sc.add_known_tokens(tokens);
                    } else {
                        sc.remove_known_tokens(tokens);
                    }
                });
                r.result_status == 0
            }
            "addContract" | "removeContract" => {
                let c = self.idx(w[1]);
                let ca = self.addrs[c].clone();
                let add = w[0] == "addContract";
                // as in the repo's own test setup the depositor is a plain account, so the set is
                // written directly (the endpoint insists on a smart-contract address)
                let r = self.b.execute_tx(&owner, &self.fc, &zero, |sc| {
                    if add {
                        let _ = sc.known_contracts().insert(managed_address!(&ca));
                    } else {
                        let _ = sc.known_contracts().swap_remove(&managed_address!(&ca));
                    }
                });
                r.result_status == 0
            }
            "allowExternal" => {
                let u = self.idx(w[1]);
                let ua = self.addrs[u].clone();
                let v = w[2] == "1";
                let r = self.b.execute_tx(&ua, &self.fc, &zero, |sc| {
                    sc.allow_external_claim_rewards(&managed_address!(&ua)).set(v);
                });
                r.result_status == 0
            }
            "pause" => {
                let v = w[1] == "1";
                let r = self.b.execute_tx(&owner, &self.fc, &zero, |sc| {
                    if v {
                        sc.pause_endpoint();
                    } else {
                        sc.unpause_endpoint();
                    }
                });
                r.result_status == 0
            }
            _ => false,
        };
        tr.count(&format!("{}.{}", site, if ok { "ok" } else { "err" }));
        let post = self.snap();
        // a factory op whose line says `= err` is an `err` line for the model as well
        let line_says_err = w[0] == "fop" && text.trim_end().ends_with("= err");
        // the result line is written AFTER the oracle ledgers were updated by this op (its state part ends with them: `led=`)
        let emit = |this: &Self, tr: &mut Trace| {
            if ok && !line_says_err {
                let outs = if pays.is_empty() {
                    "pays=-".to_string()
                } else {
                    format!("pays={}", pays.iter().map(|(t, a)| format!("{}:{}", t, a)).collect::<Vec<_>>().join(","))
                };
                let st = this.state_line(&post);
                tr.res_ok(n, &outs, &st);
            } else {
                tr.res_err(n);
            }
        };
        if w[0] == "fop" {
            emit(self, tr);
            // the collector must not be touched by factory operations
            let mut a = pre.clone();
            a.entry = post.entry.clone();
            if a != post {
                tr.fail("C10", "factory_op_touches_collector", &site, "collector state changed by a factory operation");
            }
            return;
        }
        if ok {
            if let Some(o) = claim_orig {
                self.record_frozen(tr, &site, &post);
                self.claim_oracle(tr, &site, &pre, &post, o, &pays);
            }
        }
        // nobody can make a user's share of a still claimable week disappear: `updateEnergyForUser` is open to anybody, so
        // it must not move the progress of a user to whom the formula still owes something for a completed week
        if ok && w[0] == "updateEnergy" {
            let u = self.idx(w[1]);
            let owed: Vec<(u64, Vec<(usize, BigUint)>)> = self.spec_claim(&pre, &post, u).into_iter().filter(|(_, ps)| !ps.is_empty()).collect();
            if !owed.is_empty() && pre.progress[u] != post.progress[u] {
                tr.fail("C10", "share_not_forfeitable", &site,
                    &format!("updateEnergyForUser moved the claim progress of {} ({:?} -> {:?}) although the formula still owes it {:?}",
                        self.name(u), pre.progress[u].as_ref().map(|x| x.0), post.progress[u].as_ref().map(|x| x.0), owed));
            }
        }
        self.oracles_after(tr, &site, &pre, &post, ok);
        emit(self, tr);
    }

    fn query(&mut self, tr: &mut Trace, text: &str) {
        let n = tr.query(text);
        tr.view_err(n);
    }
}

impl FeesWorld {
    fn first_epoch(&mut self) -> u64 {
        let mut f = 0;
        self.b
            .execute_query(&self.fc, |sc| {
                f = sc.first_week_start_epoch().get();
            })
            .assert_ok();
        f
    }
}

fn main() {
    run_world::<FeesWorld>()
}
