//! World `safeprice`: the real `dex/pair` contract exercised for its price-observation ring
//! buffer (`safe_price.rs`) and the safe-price views (`safe_price_view.rs`), driven through
//! the white-box VM.  Serves C13.  Model: lean/MxModel/Core/{Pair,SafePrice}.lean.
//!
//! Histories: several operations per round, gaps of thousands of rounds, observation buffers
//! that are empty / partly filled (organic or pre-filled) / exactly full / wrapped.  Large
//! buffers are installed by ONE storage-writing closure (`prefill`), never by 65 536
//! transactions; `MAX_OBSERVATIONS` is a constant of the contract, so full and wrapped buffers
//! always have 65 536 entries and such histories are kept short.
//!
//! Oracle (C13), independent of the model and of the contract's accumulators: the harness keeps
//! its own per-round log of the reserves and LP supply in effect at the START of every round
//! (piecewise constant: one segment per `advance`), and recomputes every accepted view result
//! as the brute-force time-weighted average over the window in the documented integer
//! arithmetic; every rejected view is checked against the guard rules.

use mxharness::*;
use num_bigint::BigUint;
use num_traits::{One, Zero};
use std::collections::VecDeque;

use multiversx_sc::types::{Address, EsdtLocalRole, EsdtTokenPayment, ManagedAddress, MultiValueEncoded};
use multiversx_sc_scenario::{
    managed_address, managed_token_id, rust_biguint, whitebox_legacy::*, DebugApi,
};

use pair::config::ConfigModule as _;
use pair::fee::FeeModule as _;
use pair::pair_actions::add_liq::AddLiquidityModule as _;
use pair::pair_actions::remove_liq::RemoveLiquidityModule as _;
use pair::pair_actions::swap::SwapModule as _;
use pair::pair_actions::views::ViewsModule as _;
use pair::safe_price::{PriceObservation, SafePriceModule as _};
use pair::safe_price_view::SafePriceViewModule as _;
use pair::Pair as _;
use pausable::{PausableModule as _, State};

const FIRST: &[u8] = b"FIRST-abcdef";
const SECOND: &[u8] = b"SECOND-abcdef";
const CTOK: &[u8] = b"CTOK-abcdef";
const DTOK: &[u8] = b"DTOK-abcdef";
const LP: &[u8] = b"LPTOK-abcdef";
const LPV: &[u8] = b"LPVIEW-abcdef";
const CAP: usize = 65_536; // pair::safe_price::MAX_OBSERVATIONS
const DEFAULT_OFFSET: u64 = 600;
const SECONDS_PER_ROUND: u64 = 6;

type PairObj = pair::ContractObj<DebugApi>;
type PairW = ContractObjWrapper<PairObj, fn() -> PairObj>;
type MBig = multiversx_sc::types::BigUint<DebugApi>;

fn to_big(x: &MBig) -> BigUint {
    BigUint::from_bytes_be(x.to_bytes_be().as_slice())
}
fn mbig(x: &BigUint) -> MBig {
    MBig::from_bytes_be(&x.to_bytes_be())
}
fn pair_builder() -> PairObj {
    pair::contract_obj()
}

/// an observation as the harness sees / expects it
#[derive(Clone, Default, Debug, PartialEq)]
struct Ob {
    a1: BigUint,
    a2: BigUint,
    a_s: BigUint,
    w: u64,
    round: u64,
}

/// what the real contract reports after a line
#[derive(Clone, Default, Debug, PartialEq)]
struct Snap {
    r1: BigUint,
    r2: BigUint,
    s: BigUint,
    cur: usize,
    len: usize,
    last: Ob,
}

/// rounds `(from, to]` all started with these reserves / LP supply
#[derive(Clone, Debug)]
struct Seg {
    from: u64,
    to: u64,
    r1: BigUint,
    r2: BigUint,
    s: BigUint,
}

struct SpWorld {
    b: BlockchainStateWrapper,
    owner: Address,
    users: Vec<Address>,
    pair: PairW,
    viewer: PairW,
    kind: String,
    round: u64,
    snap: Snap,
    // ---- the harness's own record of the history (never read back from the contract) ----
    log: Vec<Seg>,             // start-of-round reserves, contiguous, ends at `round`
    obs_rounds: VecDeque<u64>, // rounds of the retained observations, oldest first
    origin: Option<Ob>,        // first observation ever made (absolute offset of the accumulators)
    cum: Ob,                   // origin + Σ log over (origin.round, round]
    phys_first: usize,         // logical position (in obs_rounds) of physical index 1
    // ---- generator state ----
    pending: Vec<(char, String)>,
    prefilled: bool,
    lines: u64,
    whitelisted: Vec<u64>,
}

#[derive(Clone, Debug)]
struct Fill {
    n: u64,
    cur: u64,
    base: u64,
    g: u64,
    p: u64,
    q: u64,
    x: [BigUint; 3],
    y: [BigUint; 3],
    z: [BigUint; 3],
}

impl Fill {
    fn parse(w: &[&str]) -> Option<Fill> {
        if w.len() != 15 {
            return None;
        }
        let u = |i: usize| w[i].parse::<u64>().ok();
        let bg = |i: usize| w[i].parse::<BigUint>().ok();
        Some(Fill {
            n: u(0)?,
            cur: u(1)?,
            base: u(2)?,
            g: u(3)?,
            p: u(4)?,
            q: u(5)?,
            x: [bg(6)?, bg(9)?, bg(12)?],
            y: [bg(7)?, bg(10)?, bg(13)?],
            z: [bg(8)?, bg(11)?, bg(14)?],
        })
    }
    fn gap(&self, k: u64) -> u64 {
        // Lean: 1 + (k*g + p) % q  with  x % 0 = x
        let t = (k as u128) * (self.g as u128) + self.p as u128;
        let m = if self.q == 0 { t } else { t % self.q as u128 };
        1 + m as u64
    }
    fn res(&self, i: usize, k: u64) -> BigUint {
        let t = BigUint::from(k) * &self.y[i];
        let m = if self.z[i].is_zero() { t } else { t % &self.z[i] };
        &self.x[i] + m
    }
    /// logical order, oldest first; also the reserves each observation was recorded from
    fn logical(&self) -> Vec<(Ob, [BigUint; 3])> {
        let mut v: Vec<(Ob, [BigUint; 3])> = Vec::with_capacity(self.n as usize);
        for k in 0..self.n {
            let r = [self.res(0, k), self.res(1, k), self.res(2, k)];
            if k == 0 {
                v.push((Ob { a1: r[0].clone(), a2: r[1].clone(), a_s: r[2].clone(), w: 1, round: self.base }, r));
            } else {
                let p = &v[(k - 1) as usize].0;
                let gp = self.gap(k);
                let gb = BigUint::from(gp);
                let o = Ob {
                    a1: &p.a1 + &gb * &r[0],
                    a2: &p.a2 + &gb * &r[1],
                    a_s: &p.a_s + &gb * &r[2],
                    w: p.w + gp,
                    round: p.round + gp,
                };
                v.push((o, r));
            }
        }
        v
    }
}

impl SpWorld {
    fn user(&self, id: u64) -> Address {
        if id >= 1 && (id as usize) <= self.users.len() {
            self.users[(id - 1) as usize].clone()
        } else {
            self.users[0].clone()
        }
    }
    fn bal(&self, a: &Address, t: &[u8]) -> BigUint {
        self.b.get_esdt_balance(a, t, 0)
    }

    fn setup_pair(b: &mut BlockchainStateWrapper, owner: &Address, t1: &[u8], t2: &[u8], lp: &[u8], total: u64, special: u64) -> PairW {
        let zero = rust_biguint!(0);
        let w: PairW = b.create_sc_account(&zero, Some(owner), pair_builder as fn() -> PairObj, "pair.wasm");
        b.execute_tx(owner, &w, &zero, |sc| {
            sc.init(
                managed_token_id!(t1),
                managed_token_id!(t2),
                managed_address!(owner),
                managed_address!(owner),
                total,
                special,
                ManagedAddress::<DebugApi>::zero(),
                MultiValueEncoded::<DebugApi, ManagedAddress<DebugApi>>::new(),
            );
            sc.lp_token_identifier().set(&managed_token_id!(lp));
            sc.state().set(State::Active);
        })
        .assert_ok();
        b.set_esdt_local_roles(w.address_ref(), lp, &[EsdtLocalRole::Mint, EsdtLocalRole::Burn]);
        b.set_esdt_local_roles(w.address_ref(), t1, &[EsdtLocalRole::Burn]);
        b.set_esdt_local_roles(w.address_ref(), t2, &[EsdtLocalRole::Burn]);
        w
    }

    /// one query: reserves, supply, ring position and the newest stored observation
    fn read_snap(&mut self) -> Snap {
        let mut s = Snap::default();
        self.b
            .execute_query(&self.pair, |sc| {
                let (a, b, c) = sc.get_reserves_and_total_supply().into_tuple();
                s.r1 = to_big(&a);
                s.r2 = to_big(&b);
                s.s = to_big(&c);
                s.cur = sc.safe_price_current_index().get();
                s.len = sc.price_observations().len();
                if s.len != 0 && s.cur != 0 {
                    let o = sc.price_observations().get(s.cur);
                    s.last = Ob {
                        a1: to_big(&o.first_token_reserve_accumulated),
                        a2: to_big(&o.second_token_reserve_accumulated),
                        a_s: to_big(&o.lp_supply_accumulated),
                        w: o.weight_accumulated,
                        round: o.recording_round,
                    };
                }
            })
            .assert_ok();
        s
    }

    fn state_line(&self, s: &Snap) -> String {
        format!(
            "r={},{} S={} round={} sp={},{},{},{},{},{},{}",
            s.r1, s.r2, s.s, self.round, s.cur, s.len, s.last.a1, s.last.a2, s.last.a_s, s.last.w, s.last.round
        )
    }

    // ------------------------------------------------------------------ the harness's log --
    /// Σ over rounds k in (s, e] of the start-of-round (r1, r2, S); needs log_start ≤ s ≤ e ≤ round
    fn sum_log(&self, s: u64, e: u64) -> [BigUint; 3] {
        let mut acc = [BigUint::zero(), BigUint::zero(), BigUint::zero()];
        if e <= s {
            return acc;
        }
        let i0 = self.log.partition_point(|g| g.to <= s);
        for g in &self.log[i0..] {
            if g.from >= e {
                break;
            }
            let lo = g.from.max(s);
            let hi = g.to.min(e);
            if hi > lo {
                let n = BigUint::from(hi - lo);
                acc[0] += &n * &g.r1;
                acc[1] += &n * &g.r2;
                acc[2] += &n * &g.s;
            }
        }
        acc
    }

    /// the same sum, literally round by round (used to cross-check `sum_log` on short windows)
    fn sum_log_per_round(&self, s: u64, e: u64) -> [BigUint; 3] {
        let mut acc = [BigUint::zero(), BigUint::zero(), BigUint::zero()];
        let mut i = self.log.partition_point(|g| g.to <= s);
        for k in (s + 1)..=e {
            while i < self.log.len() && self.log[i].to < k {
                i += 1;
            }
            if i >= self.log.len() {
                break;
            }
            let g = &self.log[i];
            acc[0] += &g.r1;
            acc[1] += &g.r2;
            acc[2] += &g.s;
        }
        acc
    }

    fn oldest(&self) -> Option<u64> {
        self.obs_rounds.front().copied()
    }
    fn newest(&self) -> Option<u64> {
        self.obs_rounds.back().copied()
    }

    /// where does round q sit relative to the retained observations
    fn classify(&self, q: u64) -> &'static str {
        match (self.oldest(), self.newest()) {
            (Some(o), Some(n)) => {
                if q < o {
                    "old"
                } else if q > self.round {
                    "future"
                } else if q > n {
                    "extra"
                } else {
                    let i = self.obs_rounds.partition_point(|r| *r < q);
                    if self.obs_rounds[i] == q {
                        if q == n {
                            "last"
                        } else {
                            "hit"
                        }
                    } else {
                        "interp"
                    }
                }
            }
            _ => "empty",
        }
    }
    /// logical position of the newest retained observation at or before q
    fn pos_of(&self, q: u64) -> usize {
        self.obs_rounds.partition_point(|r| *r <= q).saturating_sub(1)
    }

    /// the harness's own bookkeeping of what `update_safe_price` must have done
    fn note_touch(&mut self, pre: &Snap) -> bool {
        if pre.r1.is_zero() || pre.r2.is_zero() || pre.s.is_zero() {
            return false;
        }
        let last = self.newest().unwrap_or(0);
        if last == self.round {
            return false;
        }
        if self.origin.is_none() {
            let o = Ob { a1: pre.r1.clone(), a2: pre.r2.clone(), a_s: pre.s.clone(), w: 1, round: self.round };
            self.origin = Some(o.clone());
            self.cum = o;
            // the log only matters from the first observation on
            self.log.retain(|g| g.to > self.round);
        }
        if self.obs_rounds.len() == CAP {
            self.obs_rounds.pop_front();
            // the overwritten slot was the oldest: physical index 1 moves one step towards the front
            self.phys_first = if self.phys_first == 0 { CAP - 1 } else { self.phys_first - 1 };
        }
        self.obs_rounds.push_back(self.round);
        true
    }

    /// C13 write-side oracle: after a reserve-changing transaction the newest stored observation
    /// is the harness's own accumulator at the current round, and ring position/length moved by
    /// exactly one slot when (and only when) a new round was observed
    fn oracle_write(&mut self, tr: &mut Trace, site: &str, pre: &Snap, post: &Snap, recorded: bool) {
        if recorded {
            let exp_len = if pre.len == CAP { CAP } else { pre.len + 1 };
            let exp_cur = if pre.len == 0 { 1 } else { pre.cur % CAP + 1 };
            if post.len != exp_len || post.cur != exp_cur {
                tr.fail("C13", "one_obs_per_round.ring_position", site,
                    &format!("len {}→{} (expected {exp_len}) cur {}→{} (expected {exp_cur})", pre.len, post.len, pre.cur, post.cur));
            }
            if post.last != self.cum {
                tr.fail("C13", "acc_inv.new_observation", site,
                    &format!("stored newest observation {:?} but the start-of-round log gives {:?}", post.last, self.cum));
            }
        } else if post.len != pre.len || post.cur != pre.cur || post.last != pre.last {
            tr.fail("C13", "one_obs_per_round.unexpected_write", site,
                &format!("observation buffer changed: ({},{},{:?}) → ({},{},{:?})", pre.cur, pre.len, pre.last, post.cur, post.len, post.last));
        }
    }

    /// expected observation at round q (oldest ≤ q ≤ now) from the harness's log alone
    fn expected_obs(&self, q: u64) -> Ob {
        let o = self.origin.clone().unwrap_or_default();
        let d = self.sum_log(o.round, q);
        Ob { a1: &o.a1 + &d[0], a2: &o.a2 + &d[1], a_s: &o.a_s + &d[2], w: o.w + (q - o.round), round: q }
    }

    /// C13 read-side oracle for a window query.
    /// `res`: None = rejected, Some(values) = accepted.  `want`: how to compute the expected values.
    #[allow(clippy::too_many_arguments)]
    fn oracle_window(&mut self, tr: &mut Trace, site: &str, s: u64, e: u64, extra_guard: bool, bad_token: bool, res: &Option<Vec<BigUint>>, want: &dyn Fn(&[BigUint; 3]) -> Vec<BigUint>) {
        let guard = extra_guard
            || s >= e
            || self.obs_rounds.is_empty()
            || s < self.oldest().unwrap_or(0)
            || e > self.round
            || bad_token;
        match res {
            None => {
                if !guard {
                    tr.fail("C13", "query_guards.rejected_valid_window", site,
                        &format!("window ({s},{e}] is inside [{:?}, {}] but the view failed", self.oldest(), self.round));
                } else {
                    tr.count("guard.rejected");
                }
            }
            Some(vals) => {
                if guard {
                    tr.fail("C13", "query_guards.accepted_bad_window", site,
                        &format!("window ({s},{e}] violates a guard (oldest {:?}, now {}) but the view answered {:?}", self.oldest(), self.round, vals));
                    return;
                }
                let sums = self.sum_log(s, e);
                if e - s <= 3000 {
                    let slow = self.sum_log_per_round(s, e);
                    if slow != sums {
                        tr.fail("C13", "oracle_self_check", site, "per-round sum differs from per-segment sum");
                    }
                    tr.count("oracle.per_round_sum");
                }
                let n = BigUint::from(e - s);
                let avg = [&sums[0] / &n, &sums[1] / &n, &sums[2] / &n];
                let exp = want(&avg);
                if &exp != vals {
                    tr.fail("C13", "safe_price_eq", site,
                        &format!("window ({s},{e}] start={} end={}: view {:?}, brute-force TWAP {:?} (averages {:?})", self.classify(s), self.classify(e), vals, exp, avg));
                }
                let (cs, ce) = (self.classify(s), self.classify(e));
                tr.count(&format!("window.start.{cs}"));
                tr.count(&format!("window.end.{ce}"));
                if self.snap.len == CAP && self.snap.cur < CAP {
                    // wrapped: physical order differs from logical order
                    tr.count("window.on_wrapped_buffer");
                    let (ps, pe) = (self.pos_of(s), self.pos_of(e.min(self.newest().unwrap_or(0))));
                    if ps < self.phys_first && pe >= self.phys_first {
                        tr.count("window.across_wrap");
                    }
                    if cs == "interp" && ps + 1 == self.phys_first || ce == "interp" && pe + 1 == self.phys_first {
                        tr.count("window.interp_over_wrap_seam");
                    }
                } else if self.snap.len == CAP {
                    tr.count("window.on_exactly_full_buffer");
                } else {
                    tr.count("window.on_partly_filled_buffer");
                }
            }
        }
    }

    fn in_token(t: &str) -> &'static [u8] {
        match t {
            "ab" => FIRST,
            "ba" => SECOND,
            _ => CTOK,
        }
    }
}

fn dir_tokens(d: &str) -> (&'static [u8], &'static [u8]) {
    if d == "ab" {
        (FIRST, SECOND)
    } else {
        (SECOND, FIRST)
    }
}

impl World for SpWorld {
    const NAME: &'static str = "safeprice";

    fn gen_header(rng: &mut Rng, h: u64, _tier: &str) -> String {
        let total = *rng.pick(&[0u64, 30, 300, 300, 1000, 5000]);
        let special = rng.range(0, total);
        let users = rng.range(2, 3);
        // buffer regime of this history; the expensive 65 536-entry regimes are rare
        let forced = std::env::var("VERIF_SP_KIND").ok();
        let kind = if let Some(k) = forced.as_deref() {
            k
        } else if h % 10 == 3 {
            *rng.pick(&["full", "wrapped", "wrapped", "nearfull", "wrapped"])
        } else if rng.chance(1, 2) {
            "small"
        } else {
            "organic"
        };
        format!("total={total} special={special} users={users} cap={CAP} kind={kind}")
    }

    fn new(header: &str) -> Self {
        let total = kv_u64(header, "total", 300);
        let special = kv_u64(header, "special", 50);
        let nusers = kv_u64(header, "users", 2);
        let kind = kv(header, "kind").unwrap_or("organic").to_string();
        let zero = rust_biguint!(0);
        let mut b = BlockchainStateWrapper::new();
        let owner = b.create_user_account(&zero);
        let funds = pow10(45);
        let mut users = vec![];
        for _ in 0..nusers {
            let u = b.create_user_account(&zero);
            b.set_esdt_balance(&u, FIRST, &funds);
            b.set_esdt_balance(&u, SECOND, &funds);
            b.set_esdt_balance(&u, CTOK, &funds);
            users.push(u);
        }
        let pair = Self::setup_pair(&mut b, &owner, FIRST, SECOND, LP, total, special);
        // a second pair contract on other tokens plays the "view factory": it answers the
        // safe-price views for `pair` by reading `pair`'s storage
        let viewer = Self::setup_pair(&mut b, &owner, CTOK, DTOK, LPV, 300, 50);
        let mut w = SpWorld {
            b, owner, users, pair, viewer, kind, round: 0, snap: Snap::default(),
            log: vec![], obs_rounds: VecDeque::new(), origin: None, cum: Ob::default(), phys_first: 0,
            pending: vec![], prefilled: false, lines: 0, whitelisted: vec![],
        };
        w.snap = w.read_snap();
        w
    }

    fn gen_line(&mut self, rng: &mut Rng, _step: u64, _tier: &str) -> (char, String) {
        self.lines += 1;
        if let Some(p) = self.pending.pop() {
            return p;
        }
        let s = self.snap.clone();
        let nu = self.users.len() as u64;
        let u = rng.range(1, nu);
        let one = BigUint::one();
        if s.s.is_zero() {
            // first deposit (needs min > 1000); sometimes start at round 0, sometimes later
            if self.round == 0 && rng.chance(2, 3) {
                return ('O', format!("advance {}", rng.range(1, 2000)));
            }
            let a1 = rng.magnitude(22) + BigUint::from(1001u32);
            let a2 = if rng.chance(1, 3) { &a1 * pow10(rng.range(0, 9) as u32) } else { rng.magnitude(22) + BigUint::from(1001u32) };
            if rng.chance(1, 10) {
                return ('O', format!("addLiq {u} {} {} 1 1", rng.range(1, 1000), a2));
            }
            return ('O', format!("addLiq {u} {a1} {a2} 1 1"));
        }
        let big = matches!(self.kind.as_str(), "full" | "wrapped" | "nearfull");
        if !self.prefilled && self.kind != "organic" && (self.lines >= 3 || rng.chance(1, 2)) {
            self.prefilled = true;
            return self.gen_prefill(rng);
        }
        let weights = [
            10, // 0 swapIn
            8,  // 1 swapOut
            5,  // 2 addLiq
            5,  // 3 removeLiq
            16, // 4 advance
            3,  // 5 swapNoFee
            3,  // 6 buyback
            2,  // 7 whitelist
            3,  // 8 updPrice / updPos
            45, // 9 views
        ];
        let mut k = rng.weighted(&weights);
        if k == 9 && self.obs_rounds.len() < 2 && rng.chance(3, 4) {
            // hardly anything to ask yet: make history instead
            k = *rng.pick(&[0usize, 1, 4, 4]);
        }
        let d = if rng.chance(1, 2) { "ab" } else { "ba" };
        let (rin, rout) = if d == "ab" { (s.r1.clone(), s.r2.clone()) } else { (s.r2.clone(), s.r1.clone()) };
        match k {
            0 => {
                let a = match rng.below(5) {
                    0 => one.clone(),
                    1 => &rin / BigUint::from(1000u32) + &one,
                    2 => rin.clone(),
                    3 => &rin * BigUint::from(rng.range(2, 50)),
                    _ => rng.big_range(&one, &(&rin * 2u32 + &one)),
                };
                let min = if rng.chance(1, 12) { BigUint::zero() } else { one.clone() };
                ('O', format!("swapIn {u} {d} {a} {min}"))
            }
            1 => {
                let out = match rng.below(5) {
                    0 => one.clone(),
                    1 => rout.clone(),
                    2 => &rout / 2u32 + &one,
                    _ => rng.big_range(&one, &rout),
                };
                let need = if out < rout {
                    &rin * &out * BigUint::from(100_000u32) / ((&rout - &out) * BigUint::from(100_000u32 - 5000)) + BigUint::from(2u32)
                } else {
                    pow10(20)
                };
                let mx = if rng.chance(1, 10) { one.clone() } else { need * 2u32 };
                ('O', format!("swapOut {u} {d} {mx} {out}"))
            }
            2 => {
                let a1 = match rng.below(4) {
                    0 => one.clone(),
                    1 => &s.r1 * rng.range(1, 5),
                    _ => rng.big_range(&one, &(&s.r1 * 2u32)),
                };
                let a2 = (&a1 * &s.r2 / &s.r1 + BigUint::from(rng.below(3))).max(one.clone());
                ('O', format!("addLiq {u} {a1} {a2} 1 1"))
            }
            3 => {
                let have = self.bal(&self.user(u), LP);
                if have.is_zero() {
                    return ('O', format!("addLiq {u} {} {} 1 1", &s.r1 / 3u32 + &one, &s.r2 / 3u32 + &one));
                }
                let lp = match rng.below(4) {
                    0 => one.clone(),
                    1 => have.clone(),
                    _ => rng.big_range(&one, &have),
                };
                ('O', format!("removeLiq {u} {lp} 1 1"))
            }
            4 => {
                let gap = match rng.below(8) {
                    0 => 0,
                    1 | 2 => 1,
                    3 => rng.range(2, 20),
                    4 => rng.range(100, 700),
                    5 => rng.range(1000, 9000),
                    6 => rng.range(10_000, 5_000_000),
                    _ => rng.range(1, 3),
                };
                ('O', format!("advance {}", self.round + gap))
            }
            5 => {
                let c = if rng.chance(3, 4) && !self.whitelisted.is_empty() { *rng.pick(&self.whitelisted) } else { u };
                let a = rng.big_range(&one, &(&rin / 10u32 + &one));
                ('O', format!("swapNoFee {c} {d} {a}"))
            }
            6 => {
                let c = if rng.chance(3, 4) && !self.whitelisted.is_empty() { *rng.pick(&self.whitelisted) } else { u };
                let have = self.bal(&self.user(c), LP);
                if have.is_zero() {
                    return ('O', format!("addLiq {c} {} {} 1 1", &s.r1 / 3u32 + &one, &s.r2 / 3u32 + &one));
                }
                let lp = rng.big_range(&one, &(&have / 4u32 + &one));
                ('O', format!("buyback {c} {lp} {}", rng.pick(&["first", "second"])))
            }
            7 => ('O', format!("whitelist {u}")),
            8 => {
                let amt = rng.magnitude(24);
                if rng.chance(1, 2) {
                    ('O', format!("updPrice {u} {} {amt}", rng.pick(&["ab", "ba", "ab", "ba", "x"])))
                } else {
                    ('O', format!("updPos {u} {amt}"))
                }
            }
            _ => self.gen_view(rng, big),
        }
    }

    fn exec(&mut self, tr: &mut Trace, text: &str) {
        let n = tr.op(text);
        let w: Vec<&str> = text.split_whitespace().collect();
        let site = w[0].to_string();
        tr.count(&format!("op.{}", site));
        let pre = self.snap.clone();
        let zero = rust_biguint!(0);
        let owner = self.owner.clone();
        let mut outs = String::from("0 0 0");
        let mut touches = false; // does a successful call run update_safe_price
        let ok: bool = match w[0] {
            "addLiq" => {
                touches = true;
                let c = self.user(w[1].parse().unwrap());
                let (a1, a2, m1, m2) = (big(w[2]), big(w[3]), big(w[4]), big(w[5]));
                let transfers = vec![
                    TxTokenTransfer { token_identifier: FIRST.to_vec(), nonce: 0, value: a1 },
                    TxTokenTransfer { token_identifier: SECOND.to_vec(), nonce: 0, value: a2 },
                ];
                let mut o = (BigUint::zero(), BigUint::zero(), BigUint::zero());
                let r = self.b.execute_esdt_multi_transfer(&c, &self.pair, &transfers, |sc| {
                    let (lp, f, s2) = sc.add_liquidity(mbig(&m1), mbig(&m2)).into_tuple();
                    o = (to_big(&lp.amount), to_big(&f.amount), to_big(&s2.amount));
                });
                outs = format!("{} {} {}", o.0, o.1, o.2);
                r.result_status == 0
            }
            "removeLiq" => {
                touches = true;
                let c = self.user(w[1].parse().unwrap());
                let (lp, m1, m2) = (big(w[2]), big(w[3]), big(w[4]));
                let mut o = (BigUint::zero(), BigUint::zero());
                let r = self.b.execute_esdt_transfer(&c, &self.pair, LP, 0, &lp, |sc| {
                    let (f, s2) = sc.remove_liquidity(mbig(&m1), mbig(&m2)).into_tuple();
                    o = (to_big(&f.amount), to_big(&s2.amount));
                });
                outs = format!("{} {} 0", o.0, o.1);
                r.result_status == 0
            }
            "swapIn" => {
                touches = true;
                let c = self.user(w[1].parse().unwrap());
                let (tin, tout) = dir_tokens(w[2]);
                let (a, min) = (big(w[3]), big(w[4]));
                let mut o = BigUint::zero();
                let r = self.b.execute_esdt_transfer(&c, &self.pair, tin, 0, &a, |sc| {
                    let p = sc.swap_tokens_fixed_input(managed_token_id!(tout), mbig(&min));
                    o = to_big(&p.amount);
                });
                outs = format!("{} 0 0", o);
                r.result_status == 0
            }
            "swapOut" => {
                touches = true;
                let c = self.user(w[1].parse().unwrap());
                let (tin, tout) = dir_tokens(w[2]);
                let (mx, want) = (big(w[3]), big(w[4]));
                let mut o = (BigUint::zero(), BigUint::zero());
                let r = self.b.execute_esdt_transfer(&c, &self.pair, tin, 0, &mx, |sc| {
                    let (p, q) = sc.swap_tokens_fixed_output(managed_token_id!(tout), mbig(&want)).into_tuple();
                    o = (to_big(&p.amount), to_big(&q.amount));
                });
                let ok = r.result_status == 0;
                let charged = if ok { &mx - &o.1 } else { BigUint::zero() };
                outs = format!("{} {} {}", o.0, charged, o.1);
                ok
            }
            "swapNoFee" => {
                touches = true;
                let c = self.user(w[1].parse().unwrap());
                let (tin, tout) = dir_tokens(w[2]);
                let a = big(w[3]);
                let r = self.b.execute_esdt_transfer(&c, &self.pair, tin, 0, &a, |sc| {
                    sc.swap_no_fee(managed_token_id!(tout), ManagedAddress::<DebugApi>::zero());
                });
                r.result_status == 0
            }
            "buyback" => {
                touches = true;
                let c = self.user(w[1].parse().unwrap());
                let lp = big(w[2]);
                let tok: &[u8] = if w[3] == "first" { FIRST } else { SECOND };
                let r = self.b.execute_esdt_transfer(&c, &self.pair, LP, 0, &lp, |sc| {
                    sc.remove_liquidity_and_burn_token(managed_token_id!(tok));
                });
                let ok = r.result_status == 0;
                if ok {
                    outs = format!("{} {} 0", &lp * &pre.r1 / &pre.s, &lp * &pre.r2 / &pre.s);
                }
                ok
            }
            "whitelist" => {
                let id: u64 = w[1].parse().unwrap();
                let c = self.user(id);
                let ok = self.b.execute_tx(&owner, &self.pair, &zero, |sc| sc.whitelist_endpoint(managed_address!(&c))).result_status == 0;
                if ok {
                    self.whitelisted.push(id);
                }
                ok
            }
            "advance" => {
                let r: u64 = w[1].parse().unwrap();
                if r >= self.round {
                    if r > self.round {
                        // rounds (round, r] start with the reserves in effect right now
                        self.log.push(Seg { from: self.round, to: r, r1: pre.r1.clone(), r2: pre.r2.clone(), s: pre.s.clone() });
                        if self.origin.is_some() {
                            let g = BigUint::from(r - self.round);
                            self.cum.a1 += &g * &pre.r1;
                            self.cum.a2 += &g * &pre.r2;
                            self.cum.a_s += &g * &pre.s;
                            self.cum.w += r - self.round;
                            self.cum.round = r;
                        }
                    }
                    self.round = r;
                    self.b.set_block_round(r);
                    true
                } else {
                    false
                }
            }
            "prefill" => self.exec_prefill(tr, &w[1..]),
            "updPrice" => {
                let c = self.user(w[1].parse().unwrap());
                let tok = Self::in_token(w[2]);
                let amt = big(w[3]);
                let mut o = BigUint::zero();
                let r = self.b.execute_tx(&c, &self.pair, &zero, |sc| {
                    let p = sc.update_and_get_safe_price(EsdtTokenPayment::new(managed_token_id!(tok), 0, mbig(&amt)));
                    o = to_big(&p.amount);
                });
                let ok = r.result_status == 0;
                let (now, off) = (self.round, self.default_offset());
                let res = if ok { Some(vec![o.clone()]) } else { None };
                let t = w[2].to_string();
                self.oracle_window(tr, &site, now - off.min(now), now, false, t == "x", &res, &|avg| price_from(avg, &t, &amt));
                outs = format!("{} 0 0", o);
                ok
            }
            "updPos" => {
                let c = self.user(w[1].parse().unwrap());
                let liq = big(w[2]);
                let mut o = (BigUint::zero(), BigUint::zero());
                let r = self.b.execute_tx(&c, &self.pair, &zero, |sc| {
                    let (a, b2) = sc.update_and_get_tokens_for_given_position_with_safe_price(mbig(&liq)).into_tuple();
                    o = (to_big(&a.amount), to_big(&b2.amount));
                });
                let ok = r.result_status == 0;
                let (now, off) = (self.round, self.default_offset());
                let res = if ok { Some(vec![o.0.clone(), o.1.clone()]) } else { None };
                self.oracle_window(tr, &site, now - off.min(now), now, false, false, &res, &|avg| lp_from(avg, &liq));
                outs = format!("{} {} 0", o.0, o.1);
                ok
            }
            other => panic!("unknown op {other}"),
        };
        let post = if w[0] == "advance" { pre.clone() } else { self.read_snap() };
        if w[0] == "swapNoFee" && ok {
            let burned = if w[2] == "ab" { &pre.r2 - &post.r2 } else { &pre.r1 - &post.r1 };
            outs = format!("{} 0 0", burned);
        }
        if w[0] != "prefill" {
            let recorded = if ok && touches { self.note_touch(&pre) } else { false };
            if recorded {
                tr.count("branch.observation_recorded");
                if pre.len == CAP {
                    tr.count("branch.ring_overwrite");
                }
            } else if ok && touches {
                tr.count("branch.same_round_no_observation");
            }
            self.oracle_write(tr, &site, &pre, &post, recorded);
            if !ok && (pre.r1 != post.r1 || pre.r2 != post.r2 || pre.s != post.s) {
                tr.fail("C13", "failed_tx_changes_state", &site, "reserves differ after a failed transaction");
            }
        }
        self.snap = post.clone();
        if ok {
            tr.count(&format!("ok.{}", site));
            let line = self.state_line(&post);
            tr.res_ok(n, &outs, &line);
        } else {
            tr.count(&format!("err.{}", site));
            tr.res_err(n);
        }
    }

    fn query(&mut self, tr: &mut Trace, text: &str) {
        let n = tr.query(text);
        let w: Vec<&str> = text.split_whitespace().collect();
        let site = w[0].to_string();
        tr.count(&format!("view.{}", site));
        let via_viewer = w.last().copied() == Some("via");
        if via_viewer {
            tr.count("view.answered_by_other_contract");
        }
        let pa = self.pair.address_ref().clone();
        let now = self.round;
        let args = &w[1..w.len() - 1];
        // (start, end, extra guard) of the window the view will use
        let nat = |i: usize| args[i].parse::<u64>().unwrap();
        let (s, e, extra): (u64, u64, bool) = match w[0] {
            "price" | "lp" => (nat(0), nat(1), false),
            "priceOff" | "lpOff" => {
                let off = nat(0);
                (now.saturating_sub(off), now, off == 0 || off >= now)
            }
            "priceTs" | "lpTs" => {
                let off = nat(0) / SECONDS_PER_ROUND;
                (now.saturating_sub(off), now, off == 0 || off >= now)
            }
            "priceDef" | "lpDef" => (now - self.default_offset().min(now), now, false),
            "obs" => (nat(0), nat(0), false),
            other => panic!("unknown view {other}"),
        };
        let contract = if via_viewer { &self.viewer } else { &self.pair };
        let mut vals: Vec<BigUint> = vec![];
        let mut ob = Ob::default();
        let kind = w[0].to_string();
        let a: Vec<String> = args.iter().map(|x| x.to_string()).collect();
        let r = self.b.execute_query(contract, |sc| {
            let p = managed_address!(&pa);
            let u = |i: usize| a[i].parse::<u64>().unwrap();
            let pay = |ti: usize, ai: usize| EsdtTokenPayment::new(managed_token_id!(SpWorld::in_token(&a[ti])), 0, mbig(&big(&a[ai])));
            match kind.as_str() {
                "price" => vals.push(to_big(&sc.get_safe_price(p, u(0), u(1), pay(2, 3)).amount)),
                "priceOff" => vals.push(to_big(&sc.get_safe_price_by_round_offset(p, u(0), pay(1, 2)).amount)),
                "priceTs" => vals.push(to_big(&sc.get_safe_price_by_timestamp_offset(p, u(0), pay(1, 2)).amount)),
                "priceDef" => vals.push(to_big(&sc.get_safe_price_by_default_offset(p, pay(0, 1)).amount)),
                "lp" => {
                    let (x, y) = sc.get_lp_tokens_safe_price(p, u(0), u(1), mbig(&big(&a[2]))).into_tuple();
                    vals.push(to_big(&x.amount));
                    vals.push(to_big(&y.amount));
                }
                "lpOff" => {
                    let (x, y) = sc.get_lp_tokens_safe_price_by_round_offset(p, u(0), mbig(&big(&a[1]))).into_tuple();
                    vals.push(to_big(&x.amount));
                    vals.push(to_big(&y.amount));
                }
                "lpTs" => {
                    let (x, y) = sc.get_lp_tokens_safe_price_by_timestamp_offset(p, u(0), mbig(&big(&a[1]))).into_tuple();
                    vals.push(to_big(&x.amount));
                    vals.push(to_big(&y.amount));
                }
                "lpDef" => {
                    let (x, y) = sc.get_lp_tokens_safe_price_by_default_offset(p, mbig(&big(&a[0]))).into_tuple();
                    vals.push(to_big(&x.amount));
                    vals.push(to_big(&y.amount));
                }
                _ => {
                    let o = sc.get_price_observation_view(p, u(0));
                    ob = Ob {
                        a1: to_big(&o.first_token_reserve_accumulated),
                        a2: to_big(&o.second_token_reserve_accumulated),
                        a_s: to_big(&o.lp_supply_accumulated),
                        w: o.weight_accumulated,
                        round: o.recording_round,
                    };
                }
            }
        });
        let ok = r.result_status == 0;
        // ---- oracle ----
        match w[0] {
            "obs" => {
                let q = s;
                let guard = self.obs_rounds.is_empty() || q < self.oldest().unwrap_or(0) || q > now;
                if ok && guard {
                    tr.fail("C13", "query_guards.accepted_bad_round", &site, &format!("round {q} outside [{:?},{now}] answered {:?}", self.oldest(), ob));
                } else if !ok && !guard {
                    tr.fail("C13", "query_guards.rejected_valid_round", &site, &format!("round {q} inside [{:?},{now}] rejected", self.oldest()));
                } else if ok {
                    let exp = self.expected_obs(q);
                    if exp != ob {
                        tr.fail("C13", "lookup_exact", &site, &format!("round {q} ({}): view {:?}, log {:?}", self.classify(q), ob, exp));
                    }
                    tr.count(&format!("obs.{}", self.classify(q)));
                } else {
                    tr.count("guard.rejected");
                }
            }
            "price" | "priceOff" | "priceTs" | "priceDef" => {
                let (ti, ai) = match w[0] { "price" => (2, 3), "priceDef" => (0, 1), _ => (1, 2) };
                let t = args[ti].to_string();
                let amt = big(args[ai]);
                let res = if ok { Some(vals.clone()) } else { None };
                self.oracle_window(tr, &site, s, e, extra, t == "x", &res, &|avg| price_from(avg, &t, &amt));
            }
            _ => {
                let liq = big(args[args.len() - 1]);
                let res = if ok { Some(vals.clone()) } else { None };
                self.oracle_window(tr, &site, s, e, extra, false, &res, &|avg| lp_from(avg, &liq));
            }
        }
        // views are pure
        let post = self.read_snap();
        if post != self.snap {
            tr.fail("C13", "view_pure", &site, "contract state changed by a view");
        }
        if ok {
            tr.count(&format!("view_ok.{}", site));
            let v = if w[0] == "obs" {
                format!("{} {} {} {} {}", ob.a1, ob.a2, ob.a_s, ob.w, ob.round)
            } else {
                vals.iter().map(|x| x.to_string()).collect::<Vec<_>>().join(" ")
            };
            tr.view_ok(n, &v);
        } else {
            tr.count(&format!("view_err.{}", site));
            tr.view_err(n);
        }
    }
}

/// documented arithmetic of the price views: ⌊amount · avg_out / avg_in⌋
fn price_from(avg: &[BigUint; 3], tok: &str, amt: &BigUint) -> Vec<BigUint> {
    let (i, o) = if tok == "ab" { (&avg[0], &avg[1]) } else { (&avg[1], &avg[0]) };
    if i.is_zero() {
        return vec![];
    }
    vec![amt * o / i]
}
/// documented arithmetic of the LP views: ⌊liquidity · avg_reserve / avg_supply⌋
fn lp_from(avg: &[BigUint; 3], liq: &BigUint) -> Vec<BigUint> {
    if avg[2].is_zero() {
        return vec![];
    }
    vec![liq * &avg[0] / &avg[2], liq * &avg[1] / &avg[2]]
}

// --- helpers ---------------------------------------------------------------------------
impl SpWorld {
    /// `min(now − oldest, 600)` from the harness's own record
    fn default_offset(&self) -> u64 {
        match self.oldest() {
            Some(o) if o <= self.round => (self.round - o).min(DEFAULT_OFFSET),
            _ => 0,
        }
    }

    fn gen_prefill(&mut self, rng: &mut Rng) -> (char, String) {
        let (n, cur): (u64, u64) = match self.kind.as_str() {
            "full" => (CAP as u64, CAP as u64),
            "nearfull" => {
                let n = CAP as u64 - rng.range(1, 3);
                (n, n)
            }
            "wrapped" => {
                let c = match rng.below(7) {
                    0 => 1,
                    1 => 2,
                    2 => CAP as u64 - 1,
                    3 => CAP as u64 - 2,
                    4 => CAP as u64 / 2,
                    _ => rng.range(1, CAP as u64 - 1),
                };
                (CAP as u64, c)
            }
            _ => {
                let n = match rng.below(6) {
                    0 => 1,
                    1 => 2,
                    2 => 3,
                    3 => rng.range(4, 20),
                    _ => rng.range(20, 400),
                };
                (n, n)
            }
        };
        let base = rng.range(1, 5000);
        // gaps: all 1, small, or thousands
        let (g, p, q) = match rng.below(4) {
            0 => (0, 0, 1),
            1 => (rng.range(1, 50), rng.range(0, 50), rng.range(2, 8)),
            2 => (rng.range(1, 100_000), rng.range(0, 5000), rng.range(1000, 9000)),
            _ => (rng.range(1, 1000), rng.range(0, 100), rng.range(1, 300)),
        };
        let s = self.snap.clone();
        let mut parts: Vec<String> = vec![];
        for r in [&s.r1, &s.r2, &s.s] {
            let x = (r / 2u32).max(BigUint::one());
            let z = r.clone() + BigUint::one();
            let y = rng.big_range(&BigUint::one(), &z);
            parts.push(format!("{x} {y} {z}"));
        }
        let f = Fill::parse(&format!("{n} {cur} {base} {g} {p} {q} {}", parts.join(" ")).split_whitespace().collect::<Vec<_>>()).unwrap();
        // where the synthetic history ends; the clock must be at least there
        let mut last = base;
        for k in 1..n {
            last += f.gap(k);
        }
        let text = format!("prefill {n} {cur} {base} {g} {p} {q} {}", parts.join(" "));
        let target = last + match rng.below(4) { 0 => 0, 1 => 1, 2 => rng.range(2, 50), _ => rng.range(100, 5000) };
        if n < 1000 && rng.chance(1, 25) && last > 1 {
            // a buffer from the future must be refused
            return ('O', text);
        }
        if target > self.round || last > self.round {
            self.pending.push(('O', text));
            return ('O', format!("advance {}", target.max(self.round)));
        }
        ('O', text)
    }

    fn exec_prefill(&mut self, tr: &mut Trace, w: &[&str]) -> bool {
        let f = match Fill::parse(w) {
            Some(f) => f,
            None => return false,
        };
        let s = self.snap.clone();
        let one = BigUint::one();
        if f.n == 0 || f.n as usize > CAP || f.cur < 1 || f.cur > f.n || ((f.n as usize) < CAP && f.cur != f.n) {
            return false;
        }
        if f.base < 1 || f.x[0] < one || f.x[1] < one || f.x[2] < one {
            return false;
        }
        if s.r1.is_zero() || s.r2.is_zero() || s.s.is_zero() {
            return false;
        }
        let lg = f.logical();
        let last = lg.last().unwrap().0.clone();
        if last.round > self.round {
            return false;
        }
        let n = f.n as usize;
        let k0 = (n - (f.cur as usize) % n) % n; // logical position of physical index 1
        let owner = self.owner.clone();
        let zero = rust_biguint!(0);
        let cur = f.cur as usize;
        self.b
            .execute_tx(&owner, &self.pair, &zero, |sc| {
                let mut m = sc.price_observations();
                m.clear();
                for i in 0..n {
                    let o = &lg[(k0 + i) % n].0;
                    m.push(&PriceObservation {
                        first_token_reserve_accumulated: mbig(&o.a1),
                        second_token_reserve_accumulated: mbig(&o.a2),
                        weight_accumulated: o.w,
                        recording_round: o.round,
                        lp_supply_accumulated: mbig(&o.a_s),
                    });
                }
                sc.safe_price_current_index().set(cur);
            })
            .assert_ok();
        // the harness's own history is replaced by the synthetic one
        self.log.clear();
        self.obs_rounds.clear();
        for k in 0..n {
            self.obs_rounds.push_back(lg[k].0.round);
            if k > 0 {
                let r = &lg[k].1;
                self.log.push(Seg { from: lg[k - 1].0.round, to: lg[k].0.round, r1: r[0].clone(), r2: r[1].clone(), s: r[2].clone() });
            }
        }
        self.origin = Some(lg[0].0.clone());
        self.cum = last.clone();
        if last.round < self.round {
            let g = BigUint::from(self.round - last.round);
            self.log.push(Seg { from: last.round, to: self.round, r1: s.r1.clone(), r2: s.r2.clone(), s: s.s.clone() });
            self.cum.a1 += &g * &s.r1;
            self.cum.a2 += &g * &s.r2;
            self.cum.a_s += &g * &s.s;
            self.cum.w += self.round - last.round;
            self.cum.round = self.round;
        }
        self.phys_first = k0;
        tr.count(&format!("prefill.{}", if n < CAP { "partly_filled" } else if cur == CAP { "exactly_full" } else { "wrapped" }));
        true
    }

    /// a round that is interesting relative to the retained observations
    fn pick_round(&self, rng: &mut Rng) -> u64 {
        let now = self.round;
        let n = self.obs_rounds.len();
        if n == 0 {
            return rng.range(0, now + 2);
        }
        let at = |i: usize| self.obs_rounds[i.min(n - 1)];
        let oldest = at(0);
        let newest = at(n - 1);
        let wrapped = self.snap.len == CAP && self.snap.cur < CAP;
        let roll = if wrapped && rng.chance(1, 4) { 16 } else { rng.below(26) };
        match roll {
            0 => oldest,
            1 => oldest.saturating_sub(1),
            2 => at(1),
            3 => newest,
            4 => at(n.saturating_sub(2)),
            5 => now,
            6 => now + 1,
            7 => rng.range(newest, now.max(newest)),
            8..=11 => at(rng.below(n as u64) as usize),
            12..=15 => {
                // strictly between two neighbours when there is room
                let i = rng.below(n as u64) as usize;
                let (a, b) = (at(i), at(i + 1));
                if b > a + 1 { rng.range(a + 1, b - 1) } else { a }
            }
            16 | 17 => {
                // around the wrap seam (physical index 1 / cap)
                let k = self.phys_first.min(n - 1);
                let i = (k as i64 + rng.range(0, 3) as i64 - 2).clamp(0, n as i64 - 1) as usize;
                let (a, b) = (at(i), at(i + 1));
                if rng.chance(1, 2) && b > a + 1 { rng.range(a + 1, b - 1) } else { a }
            }
            18 | 19 => {
                // near the oldest / newest end
                let i = if rng.chance(1, 2) { rng.below(3.min(n as u64)) as usize } else { n - 1 - rng.below(3.min(n as u64)) as usize };
                at(i) + rng.below(2)
            }
            _ => rng.range(oldest, now.max(oldest)),
        }
    }

    fn gen_view(&mut self, rng: &mut Rng, _big: bool) -> (char, String) {
        let via = if rng.chance(1, 3) { "via" } else { "self" };
        let tok = if rng.chance(1, 25) { "x" } else if rng.chance(1, 2) { "ab" } else { "ba" };
        let amt = match rng.below(5) {
            0 => BigUint::zero(),
            1 => BigUint::one(),
            _ => rng.magnitude(26),
        };
        let now = self.round;
        let window = |rng: &mut Rng, me: &Self| -> (u64, u64) {
            let a = me.pick_round(rng);
            let b = me.pick_round(rng);
            match rng.below(30) {
                0 => (a, a),                       // empty window
                1 => (a.max(b), a.min(b)),         // reversed (or empty)
                _ => {
                    let (lo, hi) = (a.min(b), a.max(b));
                    if lo == hi && lo < now { (lo, now) } else { (lo, hi) }
                }
            }
        };
        let off = |rng: &mut Rng, me: &Self| -> u64 {
            match rng.below(16) {
                0 => 0,
                1 => now,
                2 => now + 1,
                3 => 1,
                4 => now.saturating_sub(me.oldest().unwrap_or(0)),
                5 => now.saturating_sub(me.oldest().unwrap_or(0)) + 1,
                _ => now.saturating_sub(me.pick_round(rng)).max(1),
            }
        };
        let text = match rng.below(20) {
            0..=6 => {
                let (s, e) = window(rng, self);
                format!("price {s} {e} {tok} {amt}")
            }
            7 | 8 => format!("priceOff {} {tok} {amt}", off(rng, self)),
            9 => format!("priceTs {} {tok} {amt}", off(rng, self) * SECONDS_PER_ROUND + rng.below(SECONDS_PER_ROUND)),
            10 => format!("priceDef {tok} {amt}"),
            11..=13 => {
                let (s, e) = window(rng, self);
                format!("lp {s} {e} {amt}")
            }
            14 => format!("lpOff {} {amt}", off(rng, self)),
            15 => format!("lpTs {} {amt}", off(rng, self) * SECONDS_PER_ROUND + rng.below(SECONDS_PER_ROUND)),
            16 => format!("lpDef {amt}"),
            _ => format!("obs {}", self.pick_round(rng)),
        };
        ('Q', format!("{text} {via}"))
    }

    /// histories on 65 536-entry buffers are kept short (every transaction copies the storage)
    fn done(&self) -> bool {
        matches!(self.kind.as_str(), "full" | "wrapped" | "nearfull") && self.lines >= 40
    }
}

fn main() {
    // `mxharness::run_world` with one addition: a history may end early (`done`)
    let a = parse_args();
    if std::env::var("VERIF_VERBOSE").is_err() {
        std::panic::set_hook(Box::new(|_| {}));
    }
    let mut tr = Trace::create(&a.out);
    let t0 = std::time::Instant::now();
    match a.mode.as_str() {
        "gen" => {
            let mut rng = Rng::new(a.seed);
            for h in 0..a.hist {
                let header = SpWorld::gen_header(&mut rng, h, &a.tier);
                tr.world(&format!("{} {}", SpWorld::NAME, header));
                let mut w = SpWorld::new(&header);
                for step in 0..a.len {
                    if w.done() {
                        break;
                    }
                    let (k, text) = w.gen_line(&mut rng, step, &a.tier);
                    if k == 'Q' {
                        w.query(&mut tr, &text);
                    } else {
                        w.exec(&mut tr, &text);
                    }
                }
            }
        }
        "replay" => {
            let hs = read_ops(a.file.as_ref().expect("--file"));
            for h in hs {
                let header = h.header.strip_prefix(SpWorld::NAME).unwrap_or(&h.header).trim().to_string();
                tr.world(&format!("{} {}", SpWorld::NAME, header));
                let mut w = SpWorld::new(&header);
                for (k, text) in h.lines {
                    if k == 'Q' {
                        w.query(&mut tr, &text);
                    } else {
                        w.exec(&mut tr, &text);
                    }
                }
            }
        }
        m => panic!("unknown mode {m}"),
    }
    let el = t0.elapsed().as_secs_f64();
    tr.finish(&[("wall_s", format!("{el:.3}"))]);
}
