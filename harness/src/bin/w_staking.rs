//! World `staking`: the real `farm-staking` contract + `energy-factory-mock` + `permissions-hub`,
//! driven through the white-box VM.  Serves C12 and the staking side of C05, C06, C07, C11, C20.
//! Model: lean/MxModel/Core/Staking.lean (+ Core/Weekly.lean), driver `drv_staking`.
//!
//! Accounts: u1..un users, p1 (on the farm's SC whitelist: plays the staking proxy), p2 (not
//! whitelisted).  Payments of farm-token SFTs are written `<nonce>:<amount>`.
//!
//! Platform rules applied by the harness itself (the white-box VM is more lenient than the
//! protocol): an ESDT payment / NFT quantity of 0 is refused without executing anything.
//!
//! `execute_query` COMMITS in this VM while a VM query is discarded on chain: the reward view
//! `calc` (which settles rewards AND runs the owner's boosted claim) is therefore evaluated on a
//! TWIN world rebuilt from the successful transactions so far, and the main world is untouched.

#![allow(deprecated)]
#![allow(clippy::too_many_arguments)]

use mxharness::*;
use num_bigint::{BigInt, BigUint, Sign};
use num_traits::{One, Signed, Zero};
use std::collections::BTreeMap;

use multiversx_sc::codec::multi_types::OptionalValue;
use multiversx_sc::codec::TopEncode;
use multiversx_sc::contract_base::ContractBase as _;
use multiversx_sc::storage::mappers::StorageTokenWrapper;
use multiversx_sc::types::{Address, EsdtLocalRole, ManagedAddress, ManagedBuffer, MultiValueEncoded};
use multiversx_sc_scenario::{
    managed_address, managed_token_id, rust_biguint, whitebox_legacy::*, DebugApi,
};

use config::ConfigModule as _;
use energy_factory_mock::EnergyFactoryMock as _;
use energy_query::EnergyQueryModule as _;
use farm_boosted_yields::boosted_yields_factors::BoostedYieldsFactorsModule as _;
use farm_boosted_yields::FarmBoostedYieldsModule as _;
use farm_staking::claim_only_boosted_staking_rewards::ClaimOnlyBoostedStakingRewardsModule as _;
use farm_staking::claim_stake_farm_rewards::ClaimStakeFarmRewardsModule as _;
use farm_staking::compound_stake_farm_rewards::CompoundStakeFarmRewardsModule as _;
use farm_staking::custom_rewards::CustomRewardsModule as _;
use farm_staking::external_interaction::ExternalInteractionsModule as _;
use farm_staking::stake_farm::StakeFarmModule as _;
use farm_staking::token_attributes::StakingFarmTokenAttributes;
use farm_staking::unbond_farm::UnbondFarmModule as _;
use farm_staking::unstake_farm::UnstakeFarmModule as _;
use farm_staking::FarmStaking as _;
use farm_token::FarmTokenModule as _;
use pausable::{PausableModule as _, State};
use permissions_hub::PermissionsHub as _;
use permissions_hub_module::PermissionsHubModule as _;
use rewards::RewardsModule as _;
use sc_whitelist_module::SCWhitelistModule as _;
use week_timekeeping::WeekTimekeepingModule as _;
use weekly_rewards_splitting::global_info::WeeklyRewardsGlobalInfo as _;
use weekly_rewards_splitting::locked_token_buckets::WeeklyRewardsLockedTokenBucketsModule as _;
use weekly_rewards_splitting::update_claim_progress_energy::UpdateClaimProgressEnergyModule as _;

const STAKE: &[u8] = b"RIDE-abcdef";
const FARM: &[u8] = b"FARM-abcdef";
const OTHER: &[u8] = b"OTHER-abcdef";
const BUCKET_SPAN: u64 = 216;
const BLOCKS_IN_YEAR: u64 = 5_256_000;

type FarmObj = farm_staking::ContractObj<DebugApi>;
type FarmW = ContractObjWrapper<FarmObj, fn() -> FarmObj>;
type EfObj = energy_factory_mock::ContractObj<DebugApi>;
type EfW = ContractObjWrapper<EfObj, fn() -> EfObj>;
type HubObj = permissions_hub::ContractObj<DebugApi>;
type HubW = ContractObjWrapper<HubObj, fn() -> HubObj>;

fn farm_builder() -> FarmObj {
    farm_staking::contract_obj()
}
fn ef_builder() -> EfObj {
    energy_factory_mock::contract_obj()
}
fn hub_builder() -> HubObj {
    permissions_hub::contract_obj()
}

fn to_big(x: &multiversx_sc::types::BigUint<DebugApi>) -> BigUint {
    BigUint::from_bytes_be(x.to_bytes_be().as_slice())
}
fn to_bigint(x: &multiversx_sc::types::BigInt<DebugApi>) -> BigInt {
    let mag = to_big(&x.magnitude());
    if *x < 0 {
        BigInt::from_biguint(Sign::Minus, mag)
    } else {
        BigInt::from_biguint(Sign::Plus, mag)
    }
}
fn mbig(x: &BigUint) -> multiversx_sc::types::BigUint<DebugApi> {
    multiversx_sc::types::BigUint::from_bytes_be(&x.to_bytes_be())
}
fn bi(x: &BigUint) -> BigInt {
    BigInt::from(x.clone())
}

#[derive(Clone, Debug, PartialEq)]
struct En {
    amount: BigInt,
    last: u64,
    locked: BigUint,
}
impl En {
    fn show(&self) -> String {
        format!("{}:{}:{}", self.amount, self.last, self.locked)
    }
}

#[derive(Clone, Debug, Default, PartialEq)]
struct Factors {
    max_f: BigUint,
    c_e: BigUint,
    c_f: BigUint,
    min_e: BigUint,
    min_f: BigUint,
}
impl Factors {
    fn show(&self) -> String {
        format!("{},{},{},{},{}", self.max_f, self.c_e, self.c_f, self.min_e, self.min_f)
    }
}

#[derive(Clone, Debug, Default, PartialEq)]
struct WeekInfo {
    acc: BigUint,
    rem: BigUint,
    fs: BigUint,
    energy: BigUint,
    locked: BigUint,
    rewards: Vec<(usize, BigUint)>,
}

#[derive(Clone, Debug, PartialEq)]
enum Meta {
    Pos { rps: BigUint, comp: BigUint, amt: BigUint, owner: usize },
    Unbond(u64),
    Unknown,
}

#[derive(Clone, Debug, PartialEq)]
struct TokInfo {
    meta: Meta,
    holders: Vec<(usize, BigUint)>, // (account index, amount), ascending index
}

#[derive(Clone, Debug, Default, PartialEq)]
struct Snap {
    first: u64,
    block: u64,
    epoch: u64,
    week: u64,
    active: bool,
    rps: BigUint,
    res: BigUint,
    sup: BigUint,
    last: u64,
    pb: BigUint,
    prod: bool,
    pct: u64,
    apr: BigUint,
    mu: u64,
    cap: BigUint,
    acc: BigUint,
    bal: BigUint,
    und: BigUint,
    lcw: u64,
    lgw: u64,
    fb: u64,
    nonce: u64,
    cfg: Option<(u64, Vec<Factors>)>,
    weeks: BTreeMap<u64, WeekInfo>,
    buckets: Vec<(u64, BigUint, BigUint)>,
    ut: Vec<BigUint>,
    progress: Vec<Option<(u64, En)>>,
    entry: Vec<Option<En>>,
    wallet: Vec<BigUint>,
    owner_wallet: BigUint,
    toks: BTreeMap<u64, TokInfo>,
    pool_old: BigUint, // boosted pools (accumulated + remaining) of the weeks before the printed window
}

struct StakingWorld {
    b: BlockchainStateWrapper,
    owner: Address,
    nusers: usize,
    addrs: Vec<Address>, // users, then p1 p2
    farm: FarmW,
    ef: EfW,
    hub: HubW,
    block: u64,
    epoch: u64,
    dsc: BigUint,
    // ---- ledgers built from real observations only ----
    virt: BigInt,
    paid: BigUint,
    paid_base: BigUint,
    base_budget: BigUint,
    /// boosted rewards paid so far = Σ of the observed decreases of the weekly pools outside collectUndistributed
    paid_boosted: BigUint,
    /// Σ of the observed increases of the current week's `accumulatedRewardsForWeek` (the boosted cut as the contract booked it)
    boosted_budget: BigUint,
    funded: BigUint, // staking tokens ever credited to accounts by the harness (top-ups)
    frozen: BTreeMap<u64, BigUint>,   // week -> pool R(week) when first collected
    paid_week: BTreeMap<u64, BigUint>, // week -> boosted paid
    taken_week: BTreeMap<u64, BigUint>, // week -> moved to undistributed
    factors_log: Vec<(u64, Factors)>,  // (week set, factors)
    first_factors: Option<Factors>,
    hub_pairs: Vec<(usize, usize)>,
    last_quote: Option<(String, BigUint)>,
    pending: Vec<(char, String)>,
    header: String,
    /// twin worlds replay silently: no oracles, no post-snapshots
    quiet: bool,
    /// successful transactions so far (a twin world is rebuilt from them for every reward quote)
    log: Vec<String>,
}

// ---------------------------------------------------------------------------------------
// names, parsing
// ---------------------------------------------------------------------------------------
impl StakingWorld {
    fn name(&self, i: usize) -> String {
        if i < self.nusers {
            format!("u{}", i + 1)
        } else {
            format!("p{}", i - self.nusers + 1)
        }
    }
    /// account index of a name; None for names that do not exist in this world
    fn idx(&self, name: &str) -> Option<usize> {
        if name.len() < 2 {
            return None;
        }
        let (k, n) = name.split_at(1);
        let n: usize = n.parse().ok()?;
        match k {
            "u" if n >= 1 && n <= self.nusers => Some(n - 1),
            "p" if n >= 1 && n <= 2 => Some(self.nusers + n - 1),
            _ => None,
        }
    }
    fn addr_index(&self, a: &[u8]) -> Option<usize> {
        self.addrs.iter().position(|x| x.as_bytes() == a)
    }
}

fn parse_pay(t: &str) -> Option<(u64, BigUint)> {
    let (a, b) = t.split_once(':')?;
    Some((a.parse().ok()?, b.parse().ok()?))
}
fn parse_pays(ts: &[&str]) -> Option<Vec<(u64, BigUint)>> {
    ts.iter().map(|t| parse_pay(t)).collect()
}

/// decode the raw attribute bytes of a farm-token nonce
fn decode_meta(raw: &[u8], w: &StakingWorld) -> Meta {
    if raw.len() == 8 {
        let mut x = [0u8; 8];
        x.copy_from_slice(raw);
        return Meta::Unbond(u64::from_be_bytes(x));
    }
    let mut p = 0usize;
    let mut nums = vec![];
    for _ in 0..3 {
        if p + 4 > raw.len() {
            return Meta::Unknown;
        }
        let l = u32::from_be_bytes([raw[p], raw[p + 1], raw[p + 2], raw[p + 3]]) as usize;
        p += 4;
        if p + l > raw.len() {
            return Meta::Unknown;
        }
        nums.push(BigUint::from_bytes_be(&raw[p..p + l]));
        p += l;
    }
    if raw.len() != p + 32 {
        return Meta::Unknown;
    }
    let owner = w.addr_index(&raw[p..p + 32]).unwrap_or(999);
    Meta::Pos { rps: nums[0].clone(), comp: nums[1].clone(), amt: nums[2].clone(), owner }
}

/// parse the top-encoded `BoostedYieldsConfig`: u32 week, u32 len, len × 5 nested BigUints
fn decode_cfg(raw: &[u8]) -> Option<(u64, Vec<Factors>)> {
    let rd32 = |p: &mut usize| -> Option<u32> {
        if *p + 4 > raw.len() {
            return None;
        }
        let v = u32::from_be_bytes([raw[*p], raw[*p + 1], raw[*p + 2], raw[*p + 3]]);
        *p += 4;
        Some(v)
    };
    let mut p = 0usize;
    let week = rd32(&mut p)? as u64;
    let len = rd32(&mut p)? as usize;
    let mut fs = vec![];
    for _ in 0..len {
        let mut v = vec![];
        for _ in 0..5 {
            let l = rd32(&mut p)? as usize;
            if p + l > raw.len() {
                return None;
            }
            v.push(BigUint::from_bytes_be(&raw[p..p + l]));
            p += l;
        }
        fs.push(Factors { max_f: v[0].clone(), c_e: v[1].clone(), c_f: v[2].clone(), min_e: v[3].clone(), min_f: v[4].clone() });
    }
    Some((week, fs))
}

// ---------------------------------------------------------------------------------------
// snapshot of the real state
// ---------------------------------------------------------------------------------------
impl StakingWorld {
    fn snap(&mut self) -> Snap {
        let mut s = Snap::default();
        s.block = self.block;
        s.epoch = self.epoch;
        let addrs = self.addrs.clone();
        let epoch = self.epoch;
        let mut cfg_raw: Option<Vec<u8>> = None;
        self.b
            .execute_query(&self.farm, |sc| {
                let first = sc.first_week_start_epoch().get();
                s.first = first;
                s.week = if epoch >= first { (epoch - first) / 7 + 1 } else { 0 };
                s.active = sc.state().get() == State::Active;
                s.rps = to_big(&sc.reward_per_share().get());
                s.res = to_big(&sc.reward_reserve().get());
                s.sup = to_big(&sc.farm_token_supply().get());
                s.last = sc.last_reward_block_nonce().get();
                s.pb = to_big(&sc.per_block_reward_amount().get());
                s.prod = sc.produce_rewards_enabled().get();
                s.pct = sc.boosted_yields_rewards_percentage().get();
                s.apr = to_big(&sc.max_annual_percentage_rewards().get());
                s.mu = sc.min_unbond_epochs().get();
                s.cap = to_big(&sc.reward_capacity().get());
                s.acc = to_big(&sc.accumulated_rewards().get());
                s.und = to_big(&sc.undistributed_boosted_rewards().get());
                s.lcw = sc.last_undistributed_boosted_rewards_collect_week().get() as u64;
                s.lgw = sc.last_global_update_week().get() as u64;
                s.fb = sc.first_bucket_id().get();
                s.nonce = sc
                    .blockchain()
                    .get_current_esdt_nft_nonce(&sc.blockchain().get_sc_address(), &managed_token_id!(FARM));
                if !sc.boosted_yields_config().is_empty() {
                    let c = sc.boosted_yields_config().get();
                    let mut buf = ManagedBuffer::<DebugApi>::new();
                    let _ = c.top_encode(&mut buf);
                    cfg_raw = Some(buf.to_boxed_bytes().into_vec());
                }
                let lo = s.week.saturating_sub(6);
                for k in 0..lo {
                    s.pool_old += to_big(&sc.accumulated_rewards_for_week(k as usize).get());
                    s.pool_old += to_big(&sc.remaining_boosted_rewards_to_distribute(k as usize).get());
                }
                for k in lo..=s.week {
                    let mut wi = WeekInfo::default();
                    wi.acc = to_big(&sc.accumulated_rewards_for_week(k as usize).get());
                    wi.rem = to_big(&sc.remaining_boosted_rewards_to_distribute(k as usize).get());
                    wi.fs = to_big(&sc.farm_supply_for_week(k as usize).get());
                    wi.energy = to_big(&sc.total_energy_for_week(k as usize).get());
                    wi.locked = to_big(&sc.total_locked_tokens_for_week(k as usize).get());
                    for p in sc.total_rewards_for_week(k as usize).get().iter() {
                        wi.rewards.push((0, to_big(&p.amount)));
                    }
                    s.weeks.insert(k, wi);
                }
                for id in s.fb..s.fb + BUCKET_SPAN {
                    let m = sc.locked_tokens_in_bucket(id);
                    if !m.is_empty() {
                        let bk = m.get();
                        let (tk, su) = (to_big(&bk.token_amount), to_big(&bk.surplus_energy_amount));
                        if !tk.is_zero() || !su.is_zero() {
                            s.buckets.push((id, tk, su));
                        }
                    }
                }
                for a in addrs.iter() {
                    s.ut.push(to_big(&sc.user_total_farm_position(&managed_address!(a)).get()));
                    let m = sc.current_claim_progress(&managed_address!(a));
                    if m.is_empty() {
                        s.progress.push(None);
                    } else {
                        let p = m.get();
                        s.progress.push(Some((
                            p.week as u64,
                            En {
                                amount: to_bigint(p.energy.get_energy_amount_raw()),
                                last: p.energy.get_last_update_epoch(),
                                locked: to_big(p.energy.get_total_locked_tokens()),
                            },
                        )));
                    }
                }
            })
            .assert_ok();
        s.cfg = cfg_raw.and_then(|r| decode_cfg(&r));
        self.b
            .execute_query(&self.ef, |sc| {
                for a in addrs.iter() {
                    let m = sc.user_energy(&managed_address!(a));
                    if m.is_empty() {
                        s.entry.push(None);
                    } else {
                        let e = m.get();
                        s.entry.push(Some(En {
                            amount: to_bigint(e.get_energy_amount_raw()),
                            last: e.get_last_update_epoch(),
                            locked: to_big(e.get_total_locked_tokens()),
                        }));
                    }
                }
            })
            .assert_ok();
        let fa = self.farm.address_ref().clone();
        s.bal = self.b.get_esdt_balance(&fa, STAKE, 0);
        s.owner_wallet = self.b.get_esdt_balance(&self.owner, STAKE, 0);
        for a in addrs.iter() {
            s.wallet.push(self.b.get_esdt_balance(a, STAKE, 0));
        }
        for n in 1..=s.nonce {
            let mut holders = vec![];
            let mut raw: Option<Vec<u8>> = None;
            for (i, a) in addrs.iter().enumerate() {
                let v = self.b.get_esdt_balance(a, FARM, n);
                if !v.is_zero() {
                    if raw.is_none() {
                        raw = self.b.get_nft_attributes::<Vec<u8>>(a, FARM, n);
                    }
                    holders.push((i, v));
                }
            }
            if !holders.is_empty() {
                let meta = match raw {
                    Some(r) => decode_meta(&r, self),
                    None => Meta::Unknown,
                };
                s.toks.insert(n, TokInfo { meta, holders });
            }
        }
        s
    }

    fn unbond_out(s: &Snap) -> BigUint {
        let mut t = BigUint::zero();
        for ti in s.toks.values() {
            if let Meta::Unbond(_) = ti.meta {
                for (_, a) in ti.holders.iter() {
                    t += a;
                }
            }
        }
        t
    }

    fn state_line(&self, s: &Snap) -> String {
        let cfg = match &s.cfg {
            None => "-".to_string(),
            Some((w, fs)) => format!("{}:{}", w, fs.iter().map(|f| f.show()).collect::<Vec<_>>().join(";")),
        };
        let mut out = format!(
            "blk={} ep={} wk={} act={} rps={} res={} sup={} last={} pb={} prod={} pct={} apr={} mu={} cap={} acc={} bal={} und={} lcw={} lgw={} fb={} nonce={} virt={} ub={} paid={} cfg={}",
            s.block, s.epoch, s.week, if s.active { 1 } else { 0 }, s.rps, s.res, s.sup, s.last, s.pb,
            if s.prod { 1 } else { 0 }, s.pct, s.apr, s.mu, s.cap, s.acc, s.bal, s.und, s.lcw, s.lgw, s.fb,
            s.nonce, self.virt, Self::unbond_out(s), self.paid, cfg
        );
        for (k, wi) in s.weeks.iter() {
            let rew = if wi.rewards.is_empty() {
                "-".to_string()
            } else {
                wi.rewards.iter().map(|(t, a)| format!("{}:{}", t, a)).collect::<Vec<_>>().join("+")
            };
            out += &format!(" w{}={}/{}/{}/{}/{}/{}", k, wi.acc, wi.rem, wi.fs, wi.energy, wi.locked, rew);
        }
        let bk = if s.buckets.is_empty() {
            "-".to_string()
        } else {
            s.buckets.iter().map(|(i, t, u)| format!("{}:{}:{}", i, t, u)).collect::<Vec<_>>().join("+")
        };
        out += &format!(" bk={}", bk);
        for i in 0..self.addrs.len() {
            let p = match &s.progress[i] {
                Some((w, e)) => format!("{}:{}", w, e.show()),
                None => "-".into(),
            };
            let e = match &s.entry[i] {
                Some(e) => e.show(),
                None => "-".into(),
            };
            out += &format!(" a{}={}/{}/{}", self.name(i), s.ut[i], p, e);
        }
        for (n, ti) in s.toks.iter() {
            let m = match &ti.meta {
                Meta::Pos { rps, comp, amt, owner } => {
                    let o = if *owner < self.addrs.len() { self.name(*owner) } else { "?".to_string() };
                    format!("P:{}:{}:{}:{}", rps, comp, amt, o)
                }
                Meta::Unbond(e) => format!("U:{}", e),
                Meta::Unknown => "?".to_string(),
            };
            let hs = ti.holders.iter().map(|(i, a)| format!("{}:{}", self.name(*i), a)).collect::<Vec<_>>().join("+");
            out += &format!(" t{}={}@{}", n, m, hs);
        }
        // the harness's own ledgers (built in `oracles_after` from the real contract's observable deltas only); the model driver
        // prints its ghost fields baseBudget / boostedBudget / paidBase / paidBoosted / b.collected / b.paid in the same format
        let wmap = |m: &BTreeMap<u64, BigUint>| -> String {
            let v: Vec<String> = m.iter().filter(|(_, a)| !a.is_zero()).map(|(w, a)| format!("{}:{}", w, a)).collect();
            if v.is_empty() { "-".to_string() } else { v.join(",") }
        };
        out += &format!(" led=bud:{},{};paid:{},{};pool:{};pw:{}", self.base_budget, self.boosted_budget, self.paid_base,
            self.paid_boosted, wmap(&self.frozen), wmap(&self.paid_week));
        out
    }
}

// ---------------------------------------------------------------------------------------
// independent formulas and oracles (written from the property texts, evaluated on real state)
// ---------------------------------------------------------------------------------------

/// what an operation reported, for the oracles
#[derive(Default)]
struct OpInfo {
    /// user whose boosted rewards the operation settles (account index)
    boosted_user: Option<usize>,
    /// boosted amount the endpoint returned separately (stake, merge, claimBoosted)
    boosted_ret: Option<BigUint>,
    /// total reward the endpoint returned / compounded (claim, unstake, compound)
    reward_ret: Option<BigUint>,
    /// the position the base reward is computed on: (amount, token rps)
    base_on: Option<(BigUint, BigUint)>,
    /// is this collectUndistributedBoostedRewards
    collect: bool,
}

impl StakingWorld {
    /// factors in force in `week`: the last `setBoostedYieldsFactors` of a week ≤ `week`;
    /// the very first configuration ever set also covers the weeks before it (even when it is
    /// replaced later in its own week).
    fn factors_for(&self, week: u64) -> Option<Factors> {
        let mut cur: Option<Factors> = self.first_factors.clone();
        for (w, f) in self.factors_log.iter() {
            if *w <= week {
                cur = Some(f.clone());
            }
        }
        cur
    }

    /// C11 formula, recomputed from the state BEFORE the operation.
    /// None = the operation cannot succeed (division by a zero constant sum).
    fn expected_boosted(&self, pre: &Snap, user: usize) -> Option<BigUint> {
        let mut total = BigUint::zero();
        if pre.cfg.is_none() {
            return Some(total);
        }
        let (pw, en) = match &pre.progress[user] {
            Some(p) => p.clone(),
            None => return Some(total),
        };
        let w_now = pre.week;
        if pw >= w_now {
            return Some(total);
        }
        let behind = w_now - pw;
        let skip = behind.saturating_sub(4);
        let f_user = &pre.ut[user];
        for j in 0..behind.min(4) {
            let week = pw + skip + j;
            let decay = BigInt::from(en.locked.clone()) * BigInt::from(7 * (skip + j));
            let e_raw = &en.amount - decay;
            let e = if e_raw.is_positive() { e_raw.to_biguint().unwrap() } else { BigUint::zero() };
            let wi = match pre.weeks.get(&week) {
                Some(x) => x,
                None => continue,
            };
            if wi.energy.is_zero() || wi.fs.is_zero() {
                continue;
            }
            let fac = self.factors_for(week)?;
            if e < fac.min_e || *f_user < fac.min_f {
                continue;
            }
            let r = if wi.rewards.is_empty() { wi.acc.clone() } else { wi.rewards[0].1.clone() };
            if r.is_zero() {
                continue;
            }
            let cb = &fac.c_e + &fac.c_f;
            if cb.is_zero() {
                return None;
            }
            let max_r = &fac.max_f * &r * f_user / &wi.fs;
            let by_e = &r * &fac.c_e * &e / &wi.energy;
            let by_t = &r * &fac.c_f * f_user / &wi.fs;
            total += max_r.min((by_e + by_t) / cb);
        }
        Some(total)
    }

    /// every oracle that is a statement about (pre, post) of ANY transaction
    fn oracles_after(&mut self, tr: &mut Trace, site: &str, pre: &Snap, post: &Snap, ok: bool, info: &OpInfo) {
        // ---- failed transaction: nothing observable changed --------------------------------
        if !ok {
            if pre != post {
                tr.fail("C12", "failed_tx_changes_state", site, "observable state differs after a failed transaction");
            }
            return;
        }
        // ---- C19: paused means no fund moves --------------------------------------------------
        if !pre.active && matches!(site, "stake" | "stakeProxy" | "stakeBehalf" | "claim" | "claimNew" | "claimBehalf" | "compound"
            | "merge" | "unstake" | "unstakeProxy" | "unbond" | "claimBoosted") {
            tr.fail("C19", "paused_blocks_funds", site, "a fund-moving user operation succeeded while the staking farm is paused");
        }
        let ub = Self::unbond_out(post);
        if let Some(r) = &info.reward_ret { self.paid += r; }
        if let Some(r) = &info.boosted_ret { self.paid += r; }
        // ---- C12 ---------------------------------------------------------------------------
        if post.acc > post.cap {
            tr.fail("C12", "accrued_le_capacity", site, &format!("accumulated={} capacity={}", post.acc, post.cap));
        }
        if post.acc < pre.acc {
            tr.fail("C12", "accrued_monotone", site, &format!("accumulated {} -> {}", pre.acc, post.acc));
        }
        let dacc = if post.acc >= pre.acc { &post.acc - &pre.acc } else { BigUint::zero() };
        {
            let db = if self.block > pre.last { self.block - pre.last } else { 0 };
            let by_rate = if pre.prod { &pre.pb * db } else { BigUint::zero() };
            let by_apr = (&pre.sup * &pre.apr / 10_000u32 / BLOCKS_IN_YEAR) * db;
            let room = if pre.cap >= pre.acc { &pre.cap - &pre.acc } else { BigUint::zero() };
            let bound = by_rate.clone().min(by_apr.clone()).min(room.clone());
            if dacc > bound {
                tr.fail("C12", "accrual_bound", site,
                    &format!("accrued {dacc} > min(rate {by_rate}, apr {by_apr}, room {room}) over {db} blocks"));
            }
            if !dacc.is_zero() {
                tr.count("branch.accrual");
                if dacc == room { tr.count("branch.capacity_exhausted"); }
                else if dacc == by_apr && by_apr < by_rate { tr.count("branch.apr_binds"); }
                else if dacc == by_rate { tr.count("branch.rate_binds"); }
            }
        }
        {
            let lhs = bi(&post.bal) + &self.virt;
            let rhs = bi(&post.sup) + bi(&ub) + bi(&post.cap) - bi(&post.acc) + bi(&post.res);
            if lhs != rhs {
                tr.fail("C12", "staking_balance", site,
                    &format!("balance {} != (supply {} - virtual {}) + unbond {} + (capacity {} - accumulated {}) + reserve {}",
                        post.bal, post.sup, self.virt, ub, post.cap, post.acc, post.res));
            }
        }
        {
            let mut tot = &post.bal + &post.owner_wallet;
            for w in post.wallet.iter() {
                tot += w;
            }
            if tot != self.funded {
                tr.fail("C12", "token_conservation", site, &format!("staking tokens in the world {} != funded {}", tot, self.funded));
            }
        }
        // ---- C05 ---------------------------------------------------------------------------
        if &post.res + &self.paid != post.acc {
            tr.fail("C05", "reserve_exact", site,
                &format!("reserve {} + paid {} != generated {}", post.res, self.paid, post.acc));
        }
        {
            // claimable base of every outstanding holding at the current index + every boosted pool
            let mut need = post.und.clone();
            let mut pools = post.pool_old.clone();
            for wi in post.weeks.values() {
                pools += &wi.acc;
                pools += &wi.rem;
            }
            need += &pools;
            let mut claimable = BigUint::zero();
            for ti in post.toks.values() {
                if let Meta::Pos { rps, .. } = &ti.meta {
                    if &post.rps > rps {
                        for (_, a) in ti.holders.iter() {
                            claimable += a * (&post.rps - rps) / &self.dsc;
                        }
                    }
                }
            }
            need += &claimable;
            if post.res < need {
                tr.fail("C05", "reserve_covers", site,
                    &format!("reserve {} < claimable base {} + boosted pools {} + undistributed {}", post.res, claimable, pools, post.und));
            }
        }
        // ---- C06 ---------------------------------------------------------------------------
        if post.rps < pre.rps {
            tr.fail("C06", "rps_mono", site, &format!("rps {} -> {}", pre.rps, post.rps));
        }
        let cut = if pre.pct == 0 { BigUint::zero() } else { &dacc * pre.pct / 10_000u32 };
        {
            let base = &dacc - &cut;
            let inc = if pre.sup.is_zero() { BigUint::zero() } else { &base * &self.dsc / &pre.sup };
            if &pre.rps + &inc != post.rps {
                tr.fail("C06", "rps_increment", site,
                    &format!("rps {} -> {}, expected increment {} (accrued {} cut {} supply {})", pre.rps, post.rps, inc, dacc, cut, pre.sup));
            }
            self.base_budget += &base;
            if !cut.is_zero() { tr.count("branch.boosted_cut"); }
        }
        // ---- C07 ---------------------------------------------------------------------------
        {
            let mut sum = BigUint::zero();
            let mut by_owner = vec![BigUint::zero(); self.addrs.len()];
            for ti in post.toks.values() {
                if let Meta::Pos { owner, .. } = &ti.meta {
                    for (_, a) in ti.holders.iter() {
                        sum += a;
                        if *owner < by_owner.len() {
                            by_owner[*owner] += a;
                        }
                    }
                }
            }
            if sum != post.sup {
                tr.fail("C07", "supply_eq_sum", site, &format!("supply {} != sum of outstanding positions {}", post.sup, sum));
            }
            for i in 0..self.addrs.len() {
                if by_owner[i] != post.ut[i] {
                    tr.fail("C07", "owner_totals", site,
                        &format!("userTotal({}) = {} but positions recording that owner sum to {}", self.name(i), post.ut[i], by_owner[i]));
                }
            }
        }
        // ---- C11: week ledgers -------------------------------------------------------------
        let mut actual_boosted = BigUint::zero();
        for (w, pw) in pre.weeks.iter() {
            let qw = match post.weeks.get(w) {
                Some(x) => x,
                None => continue,
            };
            let mut before = pw.rem.clone();
            if pw.rewards.is_empty() && !qw.rewards.is_empty() {
                // the pool of week w was frozen by this operation
                let r = qw.rewards[0].1.clone();
                if r != pw.acc || !qw.acc.is_zero() {
                    tr.fail("C11", "pool_is_accumulated", site, &format!("week {w}: frozen {} accumulated before {} after {}", r, pw.acc, qw.acc));
                }
                self.frozen.insert(*w, r.clone());
                before = r;
                tr.count("branch.week_frozen");
            } else if *w < post.week && qw.acc != pw.acc {
                tr.fail("C11", "past_week_pool_changed", site, &format!("week {w}: accumulated {} -> {}", pw.acc, qw.acc));
            }
            if *w == post.week && pre.week == post.week {
                if &pw.acc + &cut != qw.acc {
                    tr.fail("C06", "boosted_cut_to_current_week", site,
                        &format!("week {w}: accumulated {} -> {}, cut {}", pw.acc, qw.acc, cut));
                }
                if qw.acc > pw.acc {
                    self.boosted_budget += &qw.acc - &pw.acc;
                }
            }
            if qw.rem > before {
                tr.fail("C11", "remaining_grew", site, &format!("week {w}: remaining {} -> {}", before, qw.rem));
            } else if qw.rem < before {
                let d = &before - &qw.rem;
                if info.collect {
                    *self.taken_week.entry(*w).or_insert_with(BigUint::zero) += &d;
                } else {
                    if self.paid_week.contains_key(w) { tr.count("branch.week_paid_again"); }
                    *self.paid_week.entry(*w).or_insert_with(BigUint::zero) += &d;
                    actual_boosted += &d;
                }
            }
            if let Some(r) = self.frozen.get(w) {
                let z = BigUint::zero();
                let p = self.paid_week.get(w).unwrap_or(&z);
                let t = self.taken_week.get(w).unwrap_or(&z);
                if &qw.rem + p + t != *r {
                    tr.fail("C11", "week_pool_bound", site,
                        &format!("week {w}: remaining {} + paid {} + collected-as-undistributed {} != pool {}", qw.rem, p, t, r));
                }
            }
        }
        self.paid_boosted += &actual_boosted;
        if let Some(u) = info.boosted_user {
            match self.expected_boosted(pre, u) {
                Some(e) => {
                    if e != actual_boosted {
                        tr.fail("C11", "boosted_formula", site,
                            &format!("user {} boosted paid {} expected {}", self.name(u), actual_boosted, e));
                    }
                    if !e.is_zero() { tr.count("branch.boosted_paid"); }
                }
                None => tr.fail("C11", "boosted_formula", site, "operation succeeded although cE + cF = 0 divides"),
            }
            if let Some(bv) = &info.boosted_ret {
                if *bv != actual_boosted {
                    tr.fail("C11", "boosted_payment_eq_pool_delta", site, &format!("returned {} pools lost {}", bv, actual_boosted));
                }
            }
        } else if !actual_boosted.is_zero() {
            tr.fail("C11", "unexpected_boosted_payment", site, &format!("pools lost {}", actual_boosted));
        }
        // F of the boosted formula is "the farm's position": every user operation that runs the boosted claim (merge
        // excepted: it cannot change the supply and does not write it) records the supply it leaves as this week's F
        if info.boosted_user.is_some() && site != "merge" {
            if let Some(qw) = post.weeks.get(&post.week) {
                if qw.fs != post.sup {
                    tr.fail("C11", "farm_supply_recorded", site,
                        &format!("week {}: recorded farm supply {} but the farm-token supply is {}", post.week, qw.fs, post.sup));
                }
            }
        }
        // ---- C06: reward formula ------------------------------------------------------------
        if let (Some(rw), Some((amt, trps))) = (&info.reward_ret, &info.base_on) {
            let base_e = if &post.rps > trps { amt * (&post.rps - trps) / &self.dsc } else { BigUint::zero() };
            if *rw < actual_boosted || rw - &actual_boosted != base_e {
                tr.fail("C06", "reward_formula", site,
                    &format!("reward {} boosted part {} expected base {} (amount {} rps {} -> {})", rw, actual_boosted, base_e, amt, trps, post.rps));
            }
            if !base_e.is_zero() { tr.count("branch.base_paid"); }
            if *rw >= actual_boosted { self.paid_base += rw - &actual_boosted; }
        }
        if self.paid_base > self.base_budget {
            tr.fail("C06", "total_base_bound", site, &format!("base paid {} > base budget {}", self.paid_base, self.base_budget));
        }
    }
}

// ---------------------------------------------------------------------------------------
// the world
// ---------------------------------------------------------------------------------------
fn amount_mix(rng: &mut Rng) -> BigUint {
    match rng.below(12) {
        0 => BigUint::one(),
        1 => BigUint::from(rng.range(2, 100)),
        2 => BigUint::from(rng.range(1_000, 10_000_000)),
        3 | 4 => rng.magnitude(12) + BigUint::one(),
        5 | 6 | 7 => pow10(12) * rng.range(1, 5_000_000),
        8 | 9 => pow10(18) * rng.range(1, 1_000_000),
        10 => pow10(24) * rng.range(1, 1_000_000),
        _ => pow10(30),
    }
}

impl StakingWorld {
    /// make sure account `i` (usize::MAX = owner) can pay `amount` staking tokens, so that op
    /// texts stay executable when a prefix of the history is dropped by shrinking
    fn ensure(&mut self, i: usize, amount: &BigUint) {
        let a = if i == usize::MAX { self.owner.clone() } else { self.addrs[i].clone() };
        let have = self.b.get_esdt_balance(&a, STAKE, 0);
        if &have < amount {
            self.b.set_esdt_balance(&a, STAKE, amount);
            self.funded += amount - &have;
        }
    }
    fn positions_of(s: &Snap, i: usize) -> Vec<(u64, BigUint, BigUint, usize)> {
        // (nonce, held amount, token rps, recorded owner)
        let mut v = vec![];
        for (n, ti) in s.toks.iter() {
            if let Meta::Pos { rps, owner, .. } = &ti.meta {
                for (h, a) in ti.holders.iter() {
                    if *h == i {
                        v.push((*n, a.clone(), rps.clone(), *owner));
                    }
                }
            }
        }
        v
    }
    fn unbonds_of(s: &Snap, i: usize) -> Vec<(u64, BigUint, u64)> {
        let mut v = vec![];
        for (n, ti) in s.toks.iter() {
            if let Meta::Unbond(e) = &ti.meta {
                for (h, a) in ti.holders.iter() {
                    if *h == i {
                        v.push((*n, a.clone(), *e));
                    }
                }
            }
        }
        v
    }
    fn part(rng: &mut Rng, have: &BigUint) -> BigUint {
        match rng.below(6) {
            0 => BigUint::one(),
            1 | 2 => rng.big_range(&BigUint::one(), have),
            3 => have / 2u32 + BigUint::one(),
            _ => have.clone(),
        }
        .min(have.clone())
    }
    fn pay(n: u64, a: &BigUint) -> String {
        format!("{}:{}", n, a)
    }
    fn pick_pays(rng: &mut Rng, pos: &[(u64, BigUint, BigUint, usize)], max: usize) -> Vec<String> {
        let mut idx: Vec<usize> = (0..pos.len()).collect();
        let mut out = vec![];
        let k = rng.range(1, max as u64) as usize;
        for _ in 0..k {
            if idx.is_empty() {
                break;
            }
            let j = rng.below(idx.len() as u64) as usize;
            let p = &pos[idx.remove(j)];
            out.push(Self::pay(p.0, &Self::part(rng, &p.1)));
        }
        out
    }
}

impl World for StakingWorld {
    const NAME: &'static str = "staking";

    fn gen_header(rng: &mut Rng, _h: u64, _tier: &str) -> String {
        let epoch = rng.range(0, 40);
        let block = rng.range(1, 2000);
        let dsc = match rng.below(6) {
            0 => BigUint::one(),
            1 => pow10(6),
            2 | 3 => pow10(12),
            4 => pow10(18),
            _ => BigUint::from(rng.range(1, 1000)),
        };
        let apr = match rng.below(8) {
            0 => 1u64,
            1 => 2_500,
            2 => 10_000,
            3 => 1_000_000,
            4 => rng.range(1, 100),
            5 => rng.range(100, 10_000),
            _ => rng.range(10_000, 1_000_000),
        };
        let mu = match rng.below(6) {
            0 => 0,
            1 => 1,
            2 => 30,
            3 => 5,
            _ => rng.range(0, 30),
        };
        let pb = match rng.below(9) {
            0 => BigUint::one(),
            1 => BigUint::from(5_000u32),
            2 => pow10(9) * rng.range(1, 1000),
            3 => pow10(15) * rng.range(1, 1000),
            4 => BigUint::from(rng.range(1, 100_000)),
            5 => pow10(18) * rng.range(1, 1000),
            6 => pow10(21) * rng.range(1, 1000),
            _ => rng.magnitude(24),
        };
        let users = rng.range(2, 4);
        format!("epoch={epoch} block={block} dsc={dsc} apr={apr} mu={mu} pb={pb} users={users}")
    }

    fn new(header: &str) -> Self {
        let epoch = kv_u64(header, "epoch", 5);
        let block = kv_u64(header, "block", 10);
        let dsc = big(kv(header, "dsc").unwrap_or("1000000000000"));
        let apr = big(kv(header, "apr").unwrap_or("2500"));
        let mu = kv_u64(header, "mu", 5);
        let pb = big(kv(header, "pb").unwrap_or("5000"));
        let nusers = kv_u64(header, "users", 3) as usize;
        let zero = rust_biguint!(0);
        let mut b = BlockchainStateWrapper::new();
        b.set_block_epoch(epoch);
        b.set_block_nonce(block);
        let owner = b.create_user_account(&zero);
        let farm: FarmW = b.create_sc_account(&zero, Some(&owner), farm_builder as fn() -> FarmObj, "farm-staking.wasm");
        let ef: EfW = b.create_sc_account(&zero, Some(&owner), ef_builder as fn() -> EfObj, "energy_factory_mock.wasm");
        let hub: HubW = b.create_sc_account(&zero, Some(&owner), hub_builder as fn() -> HubObj, "permissions_hub.wasm");
        b.execute_tx(&owner, &hub, &zero, |sc| sc.init()).assert_ok();
        b.execute_tx(&owner, &ef, &zero, |sc| sc.init()).assert_ok();
        let (efa, huba) = (ef.address_ref().clone(), hub.address_ref().clone());
        b.execute_tx(&owner, &farm, &zero, |sc| {
            sc.init(
                managed_token_id!(STAKE),
                mbig(&dsc),
                mbig(&apr),
                mu,
                ManagedAddress::<DebugApi>::zero(),
                MultiValueEncoded::new(),
            );
            sc.farm_token().set_token_id(managed_token_id!(FARM));
            sc.per_block_reward_amount().set(&mbig(&pb));
            sc.state().set(State::Active);
            sc.produce_rewards_enabled().set(true);
            sc.energy_factory_address().set(managed_address!(&efa));
            sc.set_permissions_hub_address(managed_address!(&huba));
        })
        .assert_ok();
        b.set_esdt_local_roles(
            farm.address_ref(),
            FARM,
            &[EsdtLocalRole::NftCreate, EsdtLocalRole::NftAddQuantity, EsdtLocalRole::NftBurn],
        );
        b.set_esdt_local_roles(farm.address_ref(), STAKE, &[EsdtLocalRole::Burn]);
        let mut addrs = vec![];
        let mut funded = BigUint::zero();
        let funds = pow10(36);
        for _ in 0..nusers + 2 {
            let a = b.create_user_account(&zero);
            b.set_esdt_balance(&a, STAKE, &funds);
            funded += &funds;
            addrs.push(a);
        }
        b.set_esdt_balance(&owner, STAKE, &funds);
        funded += &funds;
        let p1 = addrs[nusers].clone();
        b.execute_tx(&owner, &farm, &zero, |sc| sc.add_sc_address_to_whitelist(managed_address!(&p1))).assert_ok();
        StakingWorld {
            b, owner, nusers, addrs, farm, ef, hub, block, epoch, dsc,
            virt: BigInt::zero(), paid: BigUint::zero(), paid_base: BigUint::zero(), base_budget: BigUint::zero(),
            paid_boosted: BigUint::zero(), boosted_budget: BigUint::zero(),
            funded, frozen: BTreeMap::new(), paid_week: BTreeMap::new(), taken_week: BTreeMap::new(),
            factors_log: vec![], first_factors: None, hub_pairs: vec![], last_quote: None, pending: vec![],
            header: header.to_string(), quiet: false, log: vec![],
        }
    }

    fn gen_line(&mut self, rng: &mut Rng, step: u64, _tier: &str) -> (char, String) {
        if let Some(p) = self.pending.pop() {
            return p;
        }
        let s = self.snap();
        let nu = self.nusers;
        let u = rng.below(nu as u64) as usize;
        let un = self.name(u);
        let p1 = nu; // index of p1
        let one = BigUint::one();
        let rate = {
            let by_apr = &s.sup * &s.apr / 10_000u32 / BLOCKS_IN_YEAR;
            if s.prod { s.pb.clone().min(by_apr) } else { BigUint::zero() }
        };
        let o = |t: String| ('O', t);
        // ---- bootstrap: make the farm interesting quickly ----
        if step < 7 && rng.chance(3, 4) {
            match step {
                0 => return o(format!("stake {} - {}", un, amount_mix(rng))),
                1 => {
                    let x = if rate.is_zero() || rng.chance(1, 3) { amount_mix(rng) } else { &rate * rng.range(1, 3000) };
                    return o(format!("topUp {}", x.max(one.clone())));
                }
                2 => return o(format!("setPct {}", *rng.pick(&[0u64, 1, 2500, 2500, 5000, 9999, 10000, 3333]))),
                3 => {
                    return o(format!(
                        "setFactors {} {} {} {} {}",
                        *rng.pick(&[1u64, 2, 10, 10, 1000]),
                        *rng.pick(&[0u64, 1, 3, 3, 7]),
                        *rng.pick(&[0u64, 1, 2, 2, 5]),
                        *rng.pick(&[1u64, 1, 1, 1000, 1_000_000]),
                        *rng.pick(&[1u64, 1, 1, 1000, 1_000_000_000])
                    ))
                }
                4 | 5 => {
                    let locked = BigUint::from(rng.range(1, 1_000_000)) * pow10(rng.range(0, 12) as u32);
                    let days = rng.range(1, 1400);
                    return o(format!("setEnergy {} {} {}", self.name(rng.below(nu as u64) as usize), &locked * days + rng.range(0, 6), locked));
                }
                _ => return o(format!("stake {} - {}", un, amount_mix(rng))),
            }
        }
        if !s.active && rng.chance(2, 3) {
            return o("resume".into());
        }
        if !s.prod && rng.chance(1, 3) {
            return o("startProduce".into());
        }
        let weights = [
            12, // 0 stake
            10, // 1 claim
            5,  // 2 compound
            8,  // 3 unstake
            7,  // 4 unbond
            5,  // 5 merge
            5,  // 6 claimBoosted
            4,  // 7 transfer
            9,  // 8 proxy
            7,  // 9 behalf
            6,  // 10 setEnergy / updEnergy
            15, // 11 advance
            4,  // 12 topUp
            3,  // 13 withdraw
            6,  // 14 admin config
            5,  // 15 view
            9,  // 16 malformed
        ];
        let pos_u = Self::positions_of(&s, u);
        let k = rng.weighted(&weights);
        match k {
            0 => {
                let amt = amount_mix(rng);
                let mut t = format!("stake {} - {}", un, amt);
                if !pos_u.is_empty() && rng.chance(1, 3) {
                    for p in Self::pick_pays(rng, &pos_u, 2) {
                        t += &format!(" {}", p);
                    }
                }
                o(t)
            }
            1 | 2 | 3 | 5 => {
                if pos_u.is_empty() {
                    return o(format!("stake {} - {}", un, amount_mix(rng)));
                }
                match k {
                    1 => {
                        let p = rng.pick(&pos_u).clone();
                        o(format!("claim {} - {}", un, Self::pay(p.0, &Self::part(rng, &p.1))))
                    }
                    2 => o(format!("compound {} {}", un, Self::pick_pays(rng, &pos_u, 2).join(" "))),
                    3 => {
                        let p = rng.pick(&pos_u).clone();
                        o(format!("unstake {} - {}", un, Self::pay(p.0, &Self::part(rng, &p.1))))
                    }
                    _ => o(format!("merge {} {}", un, Self::pick_pays(rng, &pos_u, 3).join(" "))),
                }
            }
            4 => {
                // unbond: before / at / after the unlock epoch
                let mut all = vec![];
                for i in 0..nu {
                    for x in Self::unbonds_of(&s, i) {
                        all.push((i, x));
                    }
                }
                if all.is_empty() {
                    if pos_u.is_empty() {
                        return o(format!("stake {} - {}", un, amount_mix(rng)));
                    }
                    let p = rng.pick(&pos_u).clone();
                    return o(format!("unstake {} - {}", un, Self::pay(p.0, &Self::part(rng, &p.1))));
                }
                let (i, (n, a, unlock)) = rng.pick(&all).clone();
                let amt = Self::part(rng, &a);
                let text = format!("unbond {} {}", self.name(i), Self::pay(n, &amt));
                if unlock > s.epoch && rng.chance(2, 3) {
                    let target = if rng.chance(1, 2) { unlock } else { unlock - 1 };
                    self.pending.push(('O', text));
                    return o(format!("advance {} {}", rng.range(0, 3), target - s.epoch));
                }
                o(text)
            }
            6 => o(format!("claimBoosted {} {}", un, if rng.chance(1, 4) { un.clone() } else { "-".into() })),
            7 => {
                let mut cands: Vec<(u64, BigUint)> = pos_u.iter().map(|p| (p.0, p.1.clone())).collect();
                for x in Self::unbonds_of(&s, u) {
                    cands.push((x.0, x.1));
                }
                if cands.is_empty() {
                    return o(format!("stake {} - {}", un, amount_mix(rng)));
                }
                let (n, a) = rng.pick(&cands).clone();
                let mut v = rng.below(nu as u64) as usize;
                if v == u {
                    v = (u + 1) % nu;
                }
                let part = Self::part(rng, &a);
                // received-position scenario: the receiver then USES the received token (claim / compound / unstake / merge /
                // stake-with-merge), half of the time after stepping over a week boundary, so that the hand-over of the
                // position (user totals, boosted rewards of already completed weeks) is exercised while boosted weeks are pending
                let is_position = pos_u.iter().any(|p| p.0 == n);
                if is_position && rng.chance(3, 5) {
                    let vn = self.name(v);
                    let use_amt = if rng.chance(2, 3) { part.clone() } else { Self::part(rng, &part) };
                    let pay = Self::pay(n, &use_amt);
                    let follow = match rng.below(6) {
                        0 | 1 => format!("compound {} {}", vn, pay),
                        2 => format!("claim {} - {}", vn, pay),
                        3 => format!("unstake {} - {}", vn, pay),
                        4 => {
                            let own = Self::positions_of(&s, v);
                            if own.is_empty() { format!("compound {} {}", vn, pay) } else { let q = rng.pick(&own).clone(); format!("merge {} {} {}", vn, pay, Self::pay(q.0, &q.1)) }
                        }
                        _ => format!("stake {} - {} {}", vn, amount_mix(rng), pay),
                    };
                    // pending is a stack: pushed last = emitted first
                    self.pending.push(('O', follow));
                    if rng.chance(1, 2) {
                        self.pending.push(('O', format!("advance {} {}", rng.range(0, 3), 7 - ((s.epoch - s.first) % 7))));
                    }
                }
                o(format!("transfer {} {} {}", un, self.name(v), Self::pay(n, &part)))
            }
            8 => {
                let pos_p = Self::positions_of(&s, p1);
                let pn = self.name(p1);
                match rng.below(8) {
                    0 | 1 => {
                        let mut t = format!("stakeProxy {} {} {}", pn, un, amount_mix(rng));
                        if !pos_p.is_empty() && rng.chance(1, 3) {
                            t += &format!(" {}", Self::pick_pays(rng, &pos_p, 2).join(" "));
                        }
                        o(t)
                    }
                    2 | 3 if !pos_p.is_empty() => {
                        let p = rng.pick(&pos_p).clone();
                        let amt = if rng.chance(3, 4) { p.1.clone() } else { Self::part(rng, &p.1) };
                        let nv = match rng.below(5) {
                            0 => amt.clone(),
                            1 => &amt + amount_mix(rng),
                            2 => &amt / 2u32 + &one,
                            3 => one.clone(),
                            _ => &amt + rng.big_range(&one, &(&amt + &one)),
                        };
                        let orig = if p.3 < self.addrs.len() { self.name(p.3) } else { un.clone() };
                        o(format!("claimNew {} {} {} {}", pn, orig, nv, Self::pay(p.0, &amt)))
                    }
                    4 | 5 if !pos_p.is_empty() => {
                        let p = rng.pick(&pos_p).clone();
                        let amt = Self::part(rng, &p.1);
                        let x = match rng.below(4) {
                            0 => amt.clone(),
                            1 => &amt / 2u32 + &one,
                            2 => &amt + amount_mix(rng),
                            _ => amount_mix(rng),
                        };
                        let orig = if p.3 < self.addrs.len() { self.name(p.3) } else { un.clone() };
                        o(format!("unstakeProxy {} {} {} {}", pn, orig, x, Self::pay(p.0, &amt)))
                    }
                    6 => o(format!("stake {} {} {}", pn, un, amount_mix(rng))),
                    _ if !pos_p.is_empty() && rng.chance(1, 2) => {
                        let p = rng.pick(&pos_p).clone();
                        let orig = if p.3 < self.addrs.len() { self.name(p.3) } else { un.clone() };
                        if rng.chance(1, 2) {
                            o(format!("claim {} {} {}", pn, orig, Self::pay(p.0, &Self::part(rng, &p.1))))
                        } else {
                            o(format!("unstake {} {} {}", pn, orig, Self::pay(p.0, &Self::part(rng, &p.1))))
                        }
                    }
                    _ => o(format!("stakeProxy {} {} {}", pn, un, amount_mix(rng))),
                }
            }
            9 => {
                // on-behalf: user u authorises account c; c acts with tokens recording u as owner
                // (prefer an authorised pair whose caller already holds such tokens)
                let mut ready = vec![];
                for (uu, cc) in self.hub_pairs.iter() {
                    if Self::positions_of(&s, *cc).iter().any(|p| p.3 == *uu) {
                        ready.push((*uu, *cc));
                    }
                }
                if !ready.is_empty() && rng.chance(1, 2) {
                    let (uu, cc) = *rng.pick(&ready);
                    let pos_c: Vec<_> = Self::positions_of(&s, cc).into_iter().filter(|p| p.3 == uu).collect();
                    return o(format!("claimBehalf {} {}", self.name(cc), Self::pick_pays(rng, &pos_c, 2).join(" ")));
                }
                let c = if rng.chance(1, 2) { nu + 1 } else { (u + 1) % nu };
                let cn = self.name(c);
                let authorised = self.hub_pairs.contains(&(u, c));
                if !authorised && rng.chance(9, 10) {
                    return o(format!("hubWl {} {}", un, cn));
                }
                let pos_c: Vec<_> = Self::positions_of(&s, c).into_iter().filter(|p| p.3 == u).collect();
                match rng.below(12) {
                    0 => o(format!("hubRm {} {}", un, cn)),
                    1..=5 => {
                        let mut t = format!("stakeBehalf {} {} {}", cn, un, amount_mix(rng));
                        if !pos_c.is_empty() && rng.chance(1, 2) {
                            t += &format!(" {}", Self::pick_pays(rng, &pos_c, 2).join(" "));
                        }
                        o(t)
                    }
                    6..=9 if !pos_c.is_empty() => o(format!("claimBehalf {} {}", cn, Self::pick_pays(rng, &pos_c, 2).join(" "))),
                    _ => {
                        if pos_u.is_empty() {
                            o(format!("stakeBehalf {} {} {}", cn, un, amount_mix(rng)))
                        } else {
                            let p = rng.pick(&pos_u).clone();
                            o(format!("transfer {} {} {}", un, cn, Self::pay(p.0, &Self::part(rng, &p.1))))
                        }
                    }
                }
            }
            10 => {
                if rng.chance(1, 4) {
                    return o(format!("updEnergy {}", un));
                }
                let locked = match rng.below(5) {
                    0 => BigUint::zero(),
                    _ => BigUint::from(rng.range(1, 1_000_000)) * pow10(rng.range(0, 12) as u32),
                };
                let amount = match rng.below(5) {
                    0 => BigUint::zero(),
                    1 => &locked * rng.range(1, 6),
                    _ => &locked * rng.range(7, 1400) + rng.range(0, 6),
                };
                o(format!("setEnergy {} {} {}", un, amount, locked))
            }
            11 => {
                let blocks = match rng.below(8) {
                    0 => 0,
                    1 => 1,
                    2 | 3 => rng.range(2, 20),
                    4 | 5 => rng.range(100, 5000),
                    6 => 100_800,
                    _ => rng.range(1, 3),
                };
                let epochs = match rng.below(12) {
                    0..=3 => 0,
                    4 => 1,
                    5 => rng.range(2, 6),
                    6 | 7 => 7,
                    8 => rng.range(8, 30),
                    9 => 7 * rng.range(4, 7), // far enough for collectUndistributedBoostedRewards
                    _ => 7 - ((s.epoch - s.first) % 7), // exactly to the next week boundary
                };
                o(format!("advance {} {}", blocks, epochs))
            }
            12 => {
                let x = match rng.below(4) {
                    0 => amount_mix(rng),
                    _ => if rate.is_zero() { amount_mix(rng) } else { &rate * rng.range(1, 3000) },
                };
                o(format!("topUp {}", x.max(one.clone())))
            }
            13 => {
                let room = if s.cap >= s.acc { &s.cap - &s.acc } else { BigUint::zero() };
                let x = match rng.below(6) {
                    0 => room.clone(),
                    1 => &room + &one,
                    2 => BigUint::zero(),
                    3 => &room / 2u32,
                    _ => rng.big_range(&BigUint::zero(), &room),
                };
                o(format!("withdraw {}", x))
            }
            14 => match rng.below(14) {
                0 | 1 => o(format!("setApr {}", match rng.below(5) { 0 => 1, 1 => 1_000_000, 2 => 2500, _ => rng.range(1, 1_000_000) })),
                2 | 3 => o(format!("setPerBlock {}", match rng.below(4) { 0 => BigUint::one(), 1 => amount_mix(rng), _ => rng.magnitude(18) })),
                4 => o("endProduce".into()),
                5 => o("startProduce".into()),
                6 => o(format!("setMinUnbond {}", rng.range(0, 30))),
                7 | 8 => o(format!("setPct {}", match rng.below(5) { 0 => 0, 1 => 10_000, 2 => 2500, _ => rng.range(0, 10_000) })),
                9 | 10 => o(format!(
                    "setFactors {} {} {} {} {}",
                    *rng.pick(&[1u64, 2, 10, 10, 1000]),
                    *rng.pick(&[0u64, 1, 3, 3, 7]),
                    *rng.pick(&[0u64, 1, 2, 2, 5]),
                    *rng.pick(&[1u64, 1, 1, 1000, 1_000_000]),
                    *rng.pick(&[1u64, 1, 1, 1000, 1_000_000_000])
                )),
                11 => o("collectUndist".into()),
                12 if s.week > 5 => o("collectUndist".into()),
                12 => o("pause".into()),
                _ => o("resume".into()),
            },
            15 => {
                if pos_u.is_empty() {
                    return o(format!("stake {} - {}", un, amount_mix(rng)));
                }
                let p = rng.pick(&pos_u).clone();
                let amt = Self::part(rng, &p.1);
                let ti = &s.toks[&p.0];
                if let Meta::Pos { rps, comp, amt: cur, owner } = &ti.meta {
                    let on = if *owner < self.addrs.len() { self.name(*owner) } else { "z".into() };
                    let q = format!("calc {} {} {} {} {}", amt, rps, comp, cur, on);
                    if rng.chance(3, 4) {
                        self.pending.push(('O', format!("claim {} - {}", un, Self::pay(p.0, &amt))));
                    }
                    return ('Q', q);
                }
                o(format!("claim {} - {}", un, Self::pay(p.0, &amt)))
            }
            _ => {
                let unb_u = Self::unbonds_of(&s, u);
                let anyp = pos_u.first().cloned();
                // several unbond tokens in ONE unbondFarm call (the endpoint takes a single payment): must fail, whatever
                // their unlock epochs — in particular an unlocked token must not carry a still-locked one out with it
                if unb_u.len() >= 2 && rng.chance(1, 2) {
                    let mut v = unb_u.clone();
                    if rng.chance(1, 2) { v.reverse(); }
                    let pays: Vec<String> = v.iter().take(3).map(|x| Self::pay(x.0, &x.1)).collect();
                    return o(format!("bad unbondMulti {} {}", un, pays.join(" ")));
                }
                match rng.below(22) {
                    0 if !unb_u.is_empty() => o(format!("claim {} - {}", un, Self::pay(unb_u[0].0, &unb_u[0].1))),
                    1 if anyp.is_some() => { let p = anyp.unwrap(); o(format!("unbond {} {}", un, Self::pay(p.0, &p.1))) }
                    2 => o(format!("claim {} - {}:5", un, s.nonce + 3)),
                    3 if anyp.is_some() => { let p = anyp.unwrap(); o(format!("unstake {} - {}:0", un, p.0)) }
                    4 if anyp.is_some() => { let p = anyp.unwrap(); o(format!("claim {} - {}", un, Self::pay(p.0, &(&p.1 + &one)))) }
                    5 => o(format!("stakeProxy {} {} {}", un, un, amount_mix(rng))),
                    6 => o(format!("stake p2 {} {}", un, amount_mix(rng))),
                    7 => o(format!("claimBoosted {} {}", un, self.name((u + 1) % nu))),
                    8 => {
                        // a real position of the caller when there is one (so that a committed view would really settle something)
                        let kind = if rng.chance(1, 2) { "calcAsProxy" } else { "calcAsUser" };
                        match anyp.as_ref().and_then(|p| s.toks.get(&p.0).map(|t| (p.1.clone(), t.meta.clone()))) {
                            Some((a, Meta::Pos { rps, comp, amt: cur, .. })) => o(format!("{} {} {} {} {} {}", kind, a, rps, comp, cur, un)),
                            _ => o(format!("{} {} 0 0 {} {}", kind, amount_mix(rng), amount_mix(rng), un)),
                        }
                    }
                    9 => o("setPct 10001".into()),
                    10 => o("setMinUnbond 31".into()),
                    11 => o("setApr 0".into()),
                    12 => o("setPerBlock 0".into()),
                    13 => o("setFactors 10 3 2 0 1".into()),
                    14 => o(format!("bad nonAdmin {} {}", un, rng.pick(&["topUp", "withdraw", "setApr", "setPerBlock", "endProduce", "startProduce", "setMinUnbond", "setPct", "setFactors", "collectUndist", "pause"]))),
                    15 => o(format!("bad wrongToken {}", un)),
                    16 if anyp.is_some() => { let p = anyp.unwrap(); o(format!("bad twoPayments {} {}:1 {}:1", un, p.0, p.0)) }
                    17 if anyp.is_some() => { let p = anyp.unwrap(); o(format!("bad farmTokFirst {} {}", un, Self::pay(p.0, &p.1))) }
                    18 => o(format!("stakeBehalf p2 {} {}", un, amount_mix(rng))),
                    19 => o(format!("stake {} - 0", un)),
                    20 => o("topUp 0".into()),
                    _ if anyp.is_some() => { let p = anyp.unwrap(); o(format!("claimNew p2 {} {} {}", un, p.1, Self::pay(p.0, &p.1))) }
                    _ => o(format!("unbond {} 1:1", un)),
                }
            }
        }
    }

    fn exec(&mut self, tr: &mut Trace, text: &str) {
        let n = tr.op(text);
        self.run_line(tr, n, text, false);
    }

    fn query(&mut self, tr: &mut Trace, text: &str) {
        let n = tr.query(text);
        self.run_line(tr, n, text, true);
    }
}

type Pays = Vec<(u64, BigUint)>;

/// build the `OptionalValue` argument INSIDE the transaction closure (managed types need the VM context)
fn ov(a: &Option<Address>) -> OptionalValue<ManagedAddress<DebugApi>> {
    match a {
        Some(a) => OptionalValue::Some(managed_address!(a)),
        None => OptionalValue::None,
    }
}

impl StakingWorld {
    fn transfers(first: Option<(&[u8], &BigUint)>, pays: &Pays) -> Vec<TxTokenTransfer> {
        let mut v = vec![];
        if let Some((t, a)) = first {
            v.push(TxTokenTransfer { token_identifier: t.to_vec(), nonce: 0, value: a.clone() });
        }
        for (n, a) in pays.iter() {
            v.push(TxTokenTransfer { token_identifier: FARM.to_vec(), nonce: *n, value: a.clone() });
        }
        v
    }
    fn opt_addr(&self, i: Option<usize>) -> Option<Address> {
        i.map(|i| self.addrs[i].clone())
    }
    /// `-` → Some(None); a known name → Some(Some(i)); unknown → None
    fn opt_idx(&self, t: &str) -> Option<Option<usize>> {
        if t == "-" {
            Some(None)
        } else {
            self.idx(t).map(Some)
        }
    }
    fn pos_meta(s: &Snap, n: u64) -> Option<(BigUint, BigUint, BigUint, usize)> {
        match s.toks.get(&n).map(|t| &t.meta) {
            Some(Meta::Pos { rps, comp, amt, owner }) => Some((rps.clone(), comp.clone(), amt.clone(), *owner)),
            _ => None,
        }
    }
    /// White-box VM limitation: decoding a token's attributes as the wrong type signals the error
    /// while the VM's managed-type lock is held; with a farm `StorageCache` alive its `Drop` then
    /// panics during unwinding and the process aborts.  Such calls (a position where an unbond
    /// token is expected or vice versa) are therefore refused here without executing them; the
    /// contract would fail them with "error decoding ESDT attributes".
    fn kinds_ok(s: &Snap, pays: &Pays, want_pos: bool) -> bool {
        pays.iter().all(|(n, _)| match s.toks.get(n).map(|t| &t.meta) {
            Some(Meta::Pos { .. }) => want_pos,
            Some(Meta::Unbond(_)) => !want_pos,
            _ => true,
        })
    }
    fn held(s: &Snap, i: usize, n: u64) -> BigUint {
        s.toks
            .get(&n)
            .and_then(|t| t.holders.iter().find(|(h, _)| *h == i).map(|(_, a)| a.clone()))
            .unwrap_or_else(BigUint::zero)
    }

    /// C07: the token `nonce` created by merging `base` with the parts `pays` of existing positions
    fn check_merged(&self, tr: &mut Trace, site: &str, pre: &Snap, post: &Snap, nonce: u64,
                    base: Option<(BigUint, BigUint, BigUint)>, pays: &Pays, owner: usize, amount_override: Option<&BigUint>) {
        let got = match Self::pos_meta(post, nonce) {
            Some(g) => g,
            None => {
                tr.fail("C07", "new_position_missing", site, &format!("nonce {nonce} is not a position after the call"));
                return;
            }
        };
        let mut parts: Vec<(BigUint, BigUint, BigUint)> = vec![]; // (rps, compounded part, amount)
        if let Some(b) = base {
            parts.push(b);
        }
        for (n, a) in pays.iter() {
            if let Some((rps, comp, amt, _)) = Self::pos_meta(pre, *n) {
                let c = if *a == amt { comp } else { &comp * a / &amt };
                parts.push((rps, c, a.clone()));
            }
        }
        let tot: BigUint = parts.iter().map(|p| p.2.clone()).sum();
        let comp: BigUint = parts.iter().map(|p| p.1.clone()).sum();
        let weighted: BigUint = parts.iter().map(|p| &p.0 * &p.2).sum();
        let want_amt = amount_override.cloned().unwrap_or_else(|| tot.clone());
        if got.2 != want_amt || got.1 != comp {
            tr.fail("C07", "merge_amounts", site,
                &format!("merged amount {} compounded {} expected {} {}", got.2, got.1, want_amt, comp));
        }
        // index: never below the amount-weighted average of the parts, above it by less than one per merge step
        let lhs = &got.0 * &tot;
        let k = BigUint::from(parts.len().max(1) as u64 - 1);
        if lhs < weighted || (parts.len() > 1 && lhs >= &weighted + &tot * &k + BigUint::from(if k.is_zero() { 1u32 } else { 0u32 })) || (parts.len() == 1 && got.0 != parts[0].0) {
            tr.fail("C07", "merge_index_ceil", site,
                &format!("merged index {} × {} = {} vs weighted sum {} ({} parts)", got.0, tot, lhs, weighted, parts.len()));
        }
        if parts.len() > 1 && lhs != weighted { tr.count("branch.merge_rounded_up"); }
        if got.3 != owner {
            tr.fail("C07", "owner_rewritten", site, &format!("recorded owner index {} expected {}", got.3, owner));
        }
        // split: what is left of a partially used token keeps its attributes
        for (n, _) in pays.iter() {
            if let (Some(a), Some(b)) = (pre.toks.get(n), post.toks.get(n)) {
                if a.meta != b.meta {
                    tr.fail("C07", "split_index_unchanged", site, &format!("attributes of nonce {n} changed"));
                }
                tr.count("branch.partial_use");
            }
        }
    }

    fn expect_wallets(&self, tr: &mut Trace, site: &str, pre: &Snap, post: &Snap, deltas: &[(usize, BigInt)]) {
        for i in 0..self.addrs.len() {
            let mut d = BigInt::zero();
            for (j, x) in deltas.iter() {
                if *j == i {
                    d += x;
                }
            }
            if bi(&post.wallet[i]) - bi(&pre.wallet[i]) != d {
                tr.fail("C12", "payout_recipient", site,
                    &format!("wallet of {} moved by {} expected {}", self.name(i), bi(&post.wallet[i]) - bi(&pre.wallet[i]), d));
            }
        }
    }

    /// evaluate `calculateRewardsForGivenPosition` as a VM query on a twin of this world
    fn quote_on_twin(&mut self, tr: &mut Trace, w: &[&str]) -> Option<BigUint> {
        let amt: BigUint = w[1].parse().ok()?;
        let (rps, comp, cur): (BigUint, BigUint, BigUint) = (w[2].parse().ok()?, w[3].parse().ok()?, w[4].parse().ok()?);
        let mut tw = StakingWorld::new(&self.header);
        tw.quiet = true;
        let mut ttr = Trace::create(&tr.dir.join("twin"));
        ttr.world("twin");
        for l in self.log.clone().iter() {
            let k = ttr.op(l);
            tw.run_line(&mut ttr, k, l, false);
        }
        let oa = match tw.idx(w[5]) {
            Some(i) => tw.addrs[i].clone(),
            None => Address::zero(),
        };
        let mut v = BigUint::zero();
        let r = tw.b.execute_query(&tw.farm, |sc| {
            let attrs = StakingFarmTokenAttributes::<DebugApi> {
                reward_per_share: mbig(&rps),
                compounded_reward: mbig(&comp),
                current_farm_amount: mbig(&cur),
                original_owner: managed_address!(&oa),
            };
            v = to_big(&sc.calculate_rewards_for_given_position(mbig(&amt), attrs));
        });
        // C20 view purity (on chain the query is discarded): the MAIN world is untouched by construction
        if r.result_status == 0 { Some(v) } else { None }
    }

    fn run_line(&mut self, tr: &mut Trace, n: u64, text: &str, is_q: bool) {
        let w: Vec<&str> = text.split_whitespace().collect();
        let site = w[0].to_string();
        tr.count(&format!("{}.{}", if is_q { "view" } else { "op" }, site));
        if w[0] == "calc" {
            // quote on a twin world: same header, same successful transactions, same block / epoch
            let v = self.quote_on_twin(tr, &w);
            match v {
                Some(v) => {
                    tr.count("ok.calc");
                    self.last_quote = Some((text.to_string(), v.clone()));
                    tr.view_ok(n, &format!("{}", v));
                }
                None => {
                    tr.count("err.calc");
                    self.last_quote = None;
                    tr.view_err(n);
                }
            }
            return;
        }
        let zero = rust_biguint!(0);
        let owner = self.owner.clone();
        // ---- top up payers before the pre-snapshot ----
        match w[0] {
            "stake" | "stakeBehalf" => {
                if let (Some(c), Some(a)) = (self.idx(w[1]), w.get(3).and_then(|x| x.parse::<BigUint>().ok())) {
                    self.ensure(c, &a);
                }
            }
            "unstakeProxy" => {
                if let (Some(c), Some(a)) = (self.idx(w[1]), w.get(3).and_then(|x| x.parse::<BigUint>().ok())) {
                    self.ensure(c, &a);
                }
            }
            "topUp" => {
                if let Some(a) = w.get(1).and_then(|x| x.parse::<BigUint>().ok()) {
                    self.ensure(usize::MAX, &a);
                }
            }
            _ => {}
        }
        let pre = self.snap();
        let mut outs = (0u64, BigUint::zero(), BigUint::zero());
        let mut info = OpInfo::default();
        let mut view_val: Option<BigUint> = None;
        let ok: bool = (|| -> Option<bool> {
            Some(match w[0] {
                "stake" | "stakeProxy" | "stakeBehalf" => {
                    let c = self.idx(w[1])?;
                    let amount: BigUint = w[3].parse().ok()?;
                    let pays = parse_pays(&w[4..])?;
                    if amount.is_zero() || pays.iter().any(|p| p.1.is_zero()) || !Self::kinds_ok(&pre, &pays, true) {
                        return Some(false);
                    }
                    let (orig, r) = match w[0] {
                        "stake" => {
                            let o = self.opt_idx(w[2])?;
                            let oa = self.opt_addr(o);
                            let tf = Self::transfers(Some((STAKE, &amount)), &pays);
                            let r = self.b.execute_esdt_multi_transfer(&self.addrs[c].clone(), &self.farm, &tf, |sc| {
                                let (t, b2) = sc.stake_farm_endpoint(ov(&oa)).into_tuple();
                                outs = (t.token_nonce, to_big(&t.amount), to_big(&b2.amount));
                            });
                            (o.unwrap_or(c), r)
                        }
                        "stakeProxy" => {
                            let o = self.idx(w[2])?;
                            let oa = self.addrs[o].clone();
                            let tf = Self::transfers(None, &pays);
                            let r = self.b.execute_esdt_multi_transfer(&self.addrs[c].clone(), &self.farm, &tf, |sc| {
                                let (t, b2) = sc.stake_farm_through_proxy(mbig(&amount), managed_address!(&oa)).into_tuple();
                                outs = (t.token_nonce, to_big(&t.amount), to_big(&b2.amount));
                            });
                            (o, r)
                        }
                        _ => {
                            let o = self.idx(w[2])?;
                            let oa = self.addrs[o].clone();
                            let tf = Self::transfers(Some((STAKE, &amount)), &pays);
                            let r = self.b.execute_esdt_multi_transfer(&self.addrs[c].clone(), &self.farm, &tf, |sc| {
                                let (t, b2) = sc.stake_farm_on_behalf(managed_address!(&oa)).into_tuple();
                                outs = (t.token_nonce, to_big(&t.amount), to_big(&b2.amount));
                            });
                            (o, r)
                        }
                    };
                    let ok = r.result_status == 0;
                    if ok && !self.quiet {
                        let post = self.snap();
                        if w[0] == "stakeProxy" {
                            self.virt += bi(&amount);
                        }
                        info.boosted_user = Some(orig);
                        info.boosted_ret = Some(outs.2.clone());
                        self.check_merged(tr, &site, &pre, &post, outs.0, Some((post.rps.clone(), BigUint::zero(), amount.clone())), &pays, orig, None);
                        if Self::held(&post, c, outs.0) != outs.1 {
                            tr.fail("C07", "new_position_to_caller", &site, "caller does not hold the new position");
                        }
                        let mut d = vec![];
                        if w[0] != "stakeProxy" {
                            d.push((c, -bi(&amount)));
                        }
                        d.push((if w[0] == "stakeBehalf" { orig } else { c }, bi(&outs.2)));
                        self.expect_wallets(tr, &site, &pre, &post, &d);
                        if !pays.is_empty() { tr.count("branch.stake_with_merge"); }
                    }
                    ok
                }
                "claim" | "claimNew" | "claimBehalf" => {
                    let c = self.idx(w[1])?;
                    let (orig, new_val, pays): (Option<usize>, Option<BigUint>, Pays) = match w[0] {
                        "claim" => (self.opt_idx(w[2])?, None, vec![parse_pay(w[3])?]),
                        "claimNew" => (Some(self.idx(w[2])?), Some(w[3].parse().ok()?), vec![parse_pay(w[4])?]),
                        _ => (None, None, parse_pays(&w[2..])?),
                    };
                    if pays.is_empty() || pays.iter().any(|p| p.1.is_zero()) || new_val.as_ref().map(|v| v.is_zero()).unwrap_or(false) || !Self::kinds_ok(&pre, &pays, true) {
                        return Some(false);
                    }
                    let tf = Self::transfers(None, &pays);
                    let ca = self.addrs[c].clone();
                    let r = match w[0] {
                        "claim" => {
                            let oa = self.opt_addr(orig);
                            self.b.execute_esdt_multi_transfer(&ca, &self.farm, &tf, |sc| {
                                let (t, rw) = sc.claim_rewards(ov(&oa)).into_tuple();
                                outs = (t.token_nonce, to_big(&t.amount), to_big(&rw.amount));
                            })
                        }
                        "claimNew" => {
                            let oa = self.addrs[orig.unwrap()].clone();
                            let nv = new_val.clone().unwrap();
                            self.b.execute_esdt_multi_transfer(&ca, &self.farm, &tf, |sc| {
                                let (t, rw) = sc.claim_rewards_with_new_value(mbig(&nv), managed_address!(&oa)).into_tuple();
                                outs = (t.token_nonce, to_big(&t.amount), to_big(&rw.amount));
                            })
                        }
                        _ => self.b.execute_esdt_multi_transfer(&ca, &self.farm, &tf, |sc| {
                            let (t, rw) = sc.claim_rewards_on_behalf().into_tuple();
                            outs = (t.token_nonce, to_big(&t.amount), to_big(&rw.amount));
                        }),
                    };
                    let ok = r.result_status == 0;
                    if ok && !self.quiet {
                        let post = self.snap();
                        let first = Self::pos_meta(&pre, pays[0].0);
                        let user = match w[0] {
                            "claimBehalf" => first.as_ref().map(|f| f.3).unwrap_or(c),
                            _ => orig.unwrap_or(c),
                        };
                        let in_sum: BigUint = pays.iter().map(|p| p.1.clone()).sum();
                        if let Some(nv) = &new_val {
                            self.virt += bi(nv) - bi(&in_sum);
                        }
                        info.boosted_user = Some(user);
                        info.reward_ret = Some(outs.2.clone());
                        if let Some(f) = &first {
                            info.base_on = Some((pays[0].1.clone(), f.0.clone()));
                            let comp0 = if pays[0].1 == f.2 { f.1.clone() } else { &f.1 * &pays[0].1 / &f.2 };
                            self.check_merged(tr, &site, &pre, &post, outs.0,
                                Some((post.rps.clone(), comp0, pays[0].1.clone())), &pays[1..].to_vec(), user, new_val.as_ref());
                        }
                        self.expect_wallets(tr, &site, &pre, &post, &[(if w[0] == "claimBehalf" { user } else { c }, bi(&outs.2))]);
                        // C20: the quote taken just before, in the same state (twin world)
                        if let Some((q, v)) = self.last_quote.take() {
                            if let Some(f) = &first {
                                let on = if f.3 < self.addrs.len() { self.name(f.3) } else { "z".into() };
                                let want = format!("calc {} {} {} {} {}", pays[0].1, f.0, f.1, f.2, on);
                                if w[0] == "claim" && q == want && f.3 < self.addrs.len() {
                                    let base_e = if post.rps > f.0 { &pays[0].1 * (&post.rps - &f.0) / &self.dsc } else { BigUint::zero() };
                                    tr.count("branch.quote_then_claim");
                                    if let Some(eb) = self.expected_boosted(&pre, f.3) {
                                        if !eb.is_zero() { tr.count("branch.quote_with_pending_boosted"); }
                                        // the base part of the quote is the base part of the execution
                                        if v < base_e || v > &base_e + &eb {
                                            tr.fail("C20", "quote_eq_exec.base", "calculateRewardsForGivenPosition",
                                                &format!("view {} base part of claimRewards {} (owner's boosted {})", v, base_e, eb));
                                        }
                                        // the quote includes the recorded owner's boosted rewards: equal to what
                                        // claimRewards pays when the claimer IS the recorded owner
                                        if user == f.3 {
                                            if v != outs.2 {
                                                tr.fail("C20", "quote_eq_exec.boosted", "calculateRewardsForGivenPosition",
                                                    &format!("view {} claimRewards paid {} (base {} boosted {})", v, outs.2, base_e, eb));
                                            }
                                        } else {
                                            tr.count("branch.quote_for_foreign_owner");
                                            if v != &base_e + &eb {
                                                tr.fail("C20", "quote_eq_exec.boosted", "calculateRewardsForGivenPosition",
                                                    &format!("view {} expected base {} + boosted of recorded owner {}", v, base_e, eb));
                                            }
                                            // finding F8: the view has no `user` argument, so for a RECEIVED position it promises the
                                            // recorded owner's boosted rewards while claimRewards pays the holder's own — the
                                            // property's statement (quote = execution in the same state) evaluated as it is worded
                                            if v != outs.2 {
                                                tr.count("branch.quote_received_position_differs");
                                                tr.fail("C20", "quote_eq_exec.staking_received_position", "calculateRewardsForGivenPosition",
                                                    &format!("view {} but claimRewards by the holder (not the recorded owner) paid {} (base {}, recorded owner's boosted {})", v, outs.2, base_e, eb));
                                            }
                                        }
                                    }
                                }
                            }
                        }
                    }
                    ok
                }
                "compound" | "merge" => {
                    let c = self.idx(w[1])?;
                    let pays = parse_pays(&w[2..])?;
                    if pays.is_empty() || pays.iter().any(|p| p.1.is_zero()) || !Self::kinds_ok(&pre, &pays, true) {
                        return Some(false);
                    }
                    let tf = Self::transfers(None, &pays);
                    let ca = self.addrs[c].clone();
                    let in_sum: BigUint = pays.iter().map(|p| p.1.clone()).sum();
                    let is_c = w[0] == "compound";
                    let r = if is_c {
                        self.b.execute_esdt_multi_transfer(&ca, &self.farm, &tf, |sc| {
                            let t = sc.compound_rewards();
                            outs = (t.token_nonce, to_big(&t.amount), BigUint::zero());
                        })
                    } else {
                        self.b.execute_esdt_multi_transfer(&ca, &self.farm, &tf, |sc| {
                            let (t, b2) = sc.merge_farm_tokens_endpoint().into_tuple();
                            outs = (t.token_nonce, to_big(&t.amount), to_big(&b2.amount));
                        })
                    };
                    let ok = r.result_status == 0;
                    if ok && !self.quiet {
                        let post = self.snap();
                        info.boosted_user = Some(c);
                        let first = Self::pos_meta(&pre, pays[0].0);
                        if is_c {
                            outs.2 = if outs.1 >= in_sum { &outs.1 - &in_sum } else { BigUint::zero() };
                            info.reward_ret = Some(outs.2.clone());
                            if let Some(f) = &first {
                                info.base_on = Some((pays[0].1.clone(), f.0.clone()));
                                let comp0 = if pays[0].1 == f.2 { f.1.clone() } else { &f.1 * &pays[0].1 / &f.2 };
                                self.check_merged(tr, &site, &pre, &post, outs.0,
                                    Some((post.rps.clone(), comp0 + &outs.2, &pays[0].1 + &outs.2)), &pays[1..].to_vec(), c, None);
                            }
                            self.expect_wallets(tr, &site, &pre, &post, &[]);
                        } else {
                            info.boosted_ret = Some(outs.2.clone());
                            self.check_merged(tr, &site, &pre, &post, outs.0, None, &pays, c, None);
                            self.expect_wallets(tr, &site, &pre, &post, &[(c, bi(&outs.2))]);
                            if post.rps != pre.rps || post.last != pre.last {
                                tr.fail("C06", "merge_does_not_settle", &site, "merge changed the reward index");
                            }
                        }
                    }
                    ok
                }
                "unstake" | "unstakeProxy" => {
                    let c = self.idx(w[1])?;
                    let (orig, x, pay) = if w[0] == "unstake" {
                        (self.opt_idx(w[2])?, None, parse_pay(w[3])?)
                    } else {
                        (Some(self.idx(w[2])?), Some(w[3].parse::<BigUint>().ok()?), parse_pay(w[4])?)
                    };
                    if pay.1.is_zero() || x.as_ref().map(|v| v.is_zero()).unwrap_or(false) || !Self::kinds_ok(&pre, &vec![pay.clone()], true) {
                        return Some(false);
                    }
                    let ca = self.addrs[c].clone();
                    let r = if let Some(x) = &x {
                        let oa = self.addrs[orig.unwrap()].clone();
                        let tf = Self::transfers(Some((STAKE, x)), &vec![pay.clone()]);
                        self.b.execute_esdt_multi_transfer(&ca, &self.farm, &tf, |sc| {
                            let (t, rw) = sc.unstake_farm_through_proxy(managed_address!(&oa)).into_tuple();
                            outs = (t.token_nonce, to_big(&t.amount), to_big(&rw.amount));
                        })
                    } else {
                        let oa = self.opt_addr(orig);
                        self.b.execute_esdt_transfer(&ca, &self.farm, FARM, pay.0, &pay.1, |sc| {
                            let (t, rw) = sc.unstake_farm(ov(&oa)).into_tuple();
                            outs = (t.token_nonce, to_big(&t.amount), to_big(&rw.amount));
                        })
                    };
                    let ok = r.result_status == 0;
                    if ok && !self.quiet {
                        let post = self.snap();
                        if x.is_some() {
                            self.virt -= bi(&pay.1);
                        }
                        info.boosted_user = Some(orig.unwrap_or(c));
                        info.reward_ret = Some(outs.2.clone());
                        if let Some(f) = Self::pos_meta(&pre, pay.0) {
                            info.base_on = Some((pay.1.clone(), f.0.clone()));
                        }
                        let want_amt = x.clone().unwrap_or_else(|| pay.1.clone());
                        let good = matches!(post.toks.get(&outs.0).map(|t| &t.meta), Some(Meta::Unbond(e)) if *e == self.epoch + pre.mu)
                            && outs.1 == want_amt && Self::held(&post, c, outs.0) == want_amt;
                        if !good {
                            tr.fail("C12", "unbond_token_minted", &site,
                                &format!("expected an unbond token of {} unlocking at {}", want_amt, self.epoch + pre.mu));
                        }
                        if &pre.sup - &post.sup != pay.1 {
                            tr.fail("C07", "supply_reduced_on_exit", &site, &format!("supply {} -> {} for {}", pre.sup, post.sup, pay.1));
                        }
                        let mut d = vec![(c, bi(&outs.2))];
                        if let Some(x) = &x {
                            d.push((c, -bi(x)));
                        }
                        self.expect_wallets(tr, &site, &pre, &post, &d);
                        if Self::held(&post, c, pay.0) > BigUint::zero() { tr.count("branch.partial_unstake"); }
                    }
                    ok
                }
                "unbond" => {
                    let c = self.idx(w[1])?;
                    let pay = parse_pay(w[2])?;
                    if pay.1.is_zero() || !Self::kinds_ok(&pre, &vec![pay.clone()], false) {
                        return Some(false);
                    }
                    let ca = self.addrs[c].clone();
                    let r = self.b.execute_esdt_transfer(&ca, &self.farm, FARM, pay.0, &pay.1, |sc| {
                        let t = sc.unbond_farm();
                        outs = (0, to_big(&t.amount), BigUint::zero());
                    });
                    let ok = r.result_status == 0;
                    let unlock = match pre.toks.get(&pay.0).map(|t| &t.meta) {
                        Some(Meta::Unbond(e)) => Some(*e),
                        _ => None,
                    };
                    let have = Self::held(&pre, c, pay.0);
                    if ok && !self.quiet {
                        let post = self.snap();
                        match unlock {
                            Some(e) if e <= self.epoch => {
                                if e == self.epoch { tr.count("branch.unbond_at_unlock_epoch"); }
                            }
                            _ => tr.fail("C12", "unbond_gate", &site,
                                &format!("unbond succeeded at epoch {} for a token unlocking at {:?}", self.epoch, unlock)),
                        }
                        if outs.1 != pay.1 || &have - Self::held(&post, c, pay.0) != pay.1 {
                            tr.fail("C12", "unbond_exact_once", &site,
                                &format!("paid {} for {} unbond tokens; holding {} -> {}", outs.1, pay.1, have, Self::held(&post, c, pay.0)));
                        }
                        self.expect_wallets(tr, &site, &pre, &post, &[(c, bi(&pay.1))]);
                    } else if let Some(e) = unlock {
                        if e <= self.epoch && pre.active && have >= pay.1 && pre.bal >= pay.1 {
                            tr.fail("C12", "unbond_refused", &site,
                                &format!("unbond of {} refused at epoch {} although unlock epoch {} has passed", pay.1, self.epoch, e));
                        }
                        if e > self.epoch { tr.count("branch.unbond_too_early"); }
                    }
                    ok
                }
                "claimBoosted" => {
                    let c = self.idx(w[1])?;
                    let u = self.opt_idx(w[2])?;
                    let ua = self.opt_addr(u);
                    let ca = self.addrs[c].clone();
                    let r = self.b.execute_tx(&ca, &self.farm, &zero, |sc| {
                        let t = sc.claim_boosted_rewards(ov(&ua));
                        outs = (0, BigUint::zero(), to_big(&t.amount));
                    });
                    let ok = r.result_status == 0;
                    if ok && !self.quiet {
                        let post = self.snap();
                        info.boosted_user = Some(u.unwrap_or(c));
                        info.boosted_ret = Some(outs.2.clone());
                        self.expect_wallets(tr, &site, &pre, &post, &[(u.unwrap_or(c), bi(&outs.2))]);
                    }
                    ok
                }
                "calcAsUser" | "calcAsProxy" => {
                    let amt: BigUint = w[1].parse().ok()?;
                    let (rps, comp, cur): (BigUint, BigUint, BigUint) = (w[2].parse().ok()?, w[3].parse().ok()?, w[4].parse().ok()?);
                    let oa = match self.idx(w[5]) {
                        Some(i) => self.addrs[i].clone(),
                        None => Address::zero(),
                    };
                    let mut v = BigUint::zero();
                    let call = |sc: FarmObj, v: &mut BigUint| {
                        let attrs = StakingFarmTokenAttributes::<DebugApi> {
                            reward_per_share: mbig(&rps),
                            compounded_reward: mbig(&comp),
                            current_farm_amount: mbig(&cur),
                            original_owner: managed_address!(&oa),
                        };
                        *v = to_big(&sc.calculate_rewards_for_given_position(mbig(&amt), attrs));
                    };
                    // the caller of the transaction: a plain account, or the whitelisted contract p1 (being on the SC whitelist
                    // must not turn the state-settling view into something callable on chain)
                    let ca = if w[0] == "calcAsProxy" { self.addrs[self.nusers].clone() } else { self.addrs[0].clone() };
                    let r = self.b.execute_tx(&ca, &self.farm, &zero, |sc| call(sc, &mut v));
                    let ok = r.result_status == 0;
                    if ok {
                        tr.fail("C20", "reward_view_query_only", "calculateRewardsForGivenPosition", &format!("the reward view ran in a normal transaction ({})", w[0]));
                        outs = (0, BigUint::zero(), v.clone());
                        view_val = Some(v);
                    }
                    ok
                }
                "transfer" => {
                    let (a, b2) = (self.idx(w[1])?, self.idx(w[2])?);
                    let pay = parse_pay(w[3])?;
                    let have = self.b.get_esdt_balance(&self.addrs[a], FARM, pay.0);
                    if pay.1.is_zero() || have < pay.1 {
                        return Some(false);
                    }
                    let raw = self.b.get_nft_attributes::<Vec<u8>>(&self.addrs[a], FARM, pay.0).unwrap_or_default();
                    let (aa, ba) = (self.addrs[a].clone(), self.addrs[b2].clone());
                    if a != b2 {
                        let hb = self.b.get_esdt_balance(&ba, FARM, pay.0);
                        self.b.set_nft_balance(&aa, FARM, pay.0, &(&have - &pay.1), &raw);
                        self.b.set_nft_balance(&ba, FARM, pay.0, &(&hb + &pay.1), &raw);
                    }
                    true
                }
                "setEnergy" => {
                    let u = self.idx(w[1])?;
                    let (a, l): (BigUint, BigUint) = (w[2].parse().ok()?, w[3].parse().ok()?);
                    let ua = self.addrs[u].clone();
                    self.b.execute_tx(&owner, &self.ef, &zero, |sc| sc.set_user_energy(managed_address!(&ua), mbig(&a), mbig(&l))).result_status == 0
                }
                "updEnergy" => {
                    let u = self.idx(w[1])?;
                    let ua = self.addrs[u].clone();
                    self.b.execute_tx(&ua.clone(), &self.farm, &zero, |sc| sc.update_energy_for_user(managed_address!(&ua))).result_status == 0
                }
                "topUp" => {
                    let x: BigUint = w[1].parse().ok()?;
                    if x.is_zero() {
                        return Some(false);
                    }
                    self.b.execute_esdt_transfer(&owner, &self.farm, STAKE, 0, &x, |sc| sc.top_up_rewards()).result_status == 0
                }
                "withdraw" => {
                    let x: BigUint = w[1].parse().ok()?;
                    let ok = self.b.execute_tx(&owner, &self.farm, &zero, |sc| sc.withdraw_rewards(mbig(&x))).result_status == 0;
                    if ok && !self.quiet {
                        let post = self.snap();
                        outs = (0, x.clone(), BigUint::zero());
                        // settled first: the bound is taken after accrual up to this block
                        if &post.cap + &x < post.acc || x > &post.cap + &x - &post.acc {
                            tr.fail("C12", "withdraw_bound", &site,
                                &format!("withdrew {} with capacity {} accumulated {} after settling", x, &post.cap + &x, post.acc));
                        }
                        if self.block > pre.last && post.last != self.block {
                            tr.fail("C12", "withdraw_settles_first", &site, "withdrawRewards did not settle rewards first");
                        }
                        if &post.owner_wallet - &pre.owner_wallet != x {
                            tr.fail("C12", "payout_recipient", &site, "admin did not receive the withdrawn amount");
                        }
                    }
                    ok
                }
                "setApr" | "setPerBlock" | "endProduce" | "setPct" | "startProduce" => {
                    let arg: BigUint = w.get(1).and_then(|x| x.parse().ok()).unwrap_or_default();
                    let kind = w[0].to_string();
                    let ok = self.b.execute_tx(&owner, &self.farm, &zero, |sc| match kind.as_str() {
                        "setApr" => sc.set_max_apr(mbig(&arg)),
                        "setPerBlock" => sc.set_per_block_rewards(mbig(&arg)),
                        "endProduce" => sc.end_produce_rewards(),
                        "setPct" => sc.set_boosted_yields_rewards_percentage(u64::try_from(arg.clone()).unwrap_or(u64::MAX)),
                        _ => sc.start_produce_rewards_endpoint(),
                    }).result_status == 0;
                    if ok && !self.quiet {
                        let post = self.snap();
                        if self.block > pre.last && post.last != self.block {
                            tr.fail("C06", "admin_settles_first", &site,
                                &format!("last reward block {} after the call at block {}", post.last, self.block));
                        }
                    }
                    ok
                }
                "setMinUnbond" => {
                    let e: u64 = w[1].parse().ok()?;
                    self.b.execute_tx(&owner, &self.farm, &zero, |sc| sc.set_min_unbond_epochs_endpoint(e)).result_status == 0
                }
                "setFactors" => {
                    let v: Vec<BigUint> = w[1..6].iter().filter_map(|x| x.parse().ok()).collect();
                    if v.len() != 5 {
                        return None;
                    }
                    let ok = self.b.execute_tx(&owner, &self.farm, &zero, |sc| {
                        sc.set_boosted_yields_factors(mbig(&v[0]), mbig(&v[1]), mbig(&v[2]), mbig(&v[3]), mbig(&v[4]))
                    }).result_status == 0;
                    if ok {
                        let f = Factors { max_f: v[0].clone(), c_e: v[1].clone(), c_f: v[2].clone(), min_e: v[3].clone(), min_f: v[4].clone() };
                        if self.first_factors.is_none() { self.first_factors = Some(f.clone()); }
                        // a second configuration in the same week replaces the first
                        if let Some(last) = self.factors_log.last_mut() {
                            if last.0 == pre.week { *last = (pre.week, f); } else { self.factors_log.push((pre.week, f)); }
                        } else {
                            self.factors_log.push((pre.week, f));
                        }
                    }
                    ok
                }
                "collectUndist" => {
                    let ok = self.b.execute_tx(&owner, &self.farm, &zero, |sc| sc.collect_undistributed_boosted_rewards()).result_status == 0;
                    if ok && !self.quiet {
                        let post = self.snap();
                        info.collect = true;
                        let pools = |s: &Snap| -> BigUint { s.pool_old.clone() + s.weeks.values().map(|x| &x.rem + &x.acc).sum::<BigUint>() };
                        let moved = pools(&pre) - pools(&post);
                        if &post.und - &pre.und != moved || pre.week <= 5 || post.lcw != (pre.week - 5).max(pre.lcw) {
                            tr.fail("C11", "undistributed_once", &site,
                                &format!("undistributed {} -> {}, pools lost {}, last collect week {} (week {})", pre.und, post.und, moved, post.lcw, pre.week));
                        }
                        for (k, wi) in post.weeks.iter() {
                            if *k + 5 <= post.week && !wi.rem.is_zero() {
                                tr.fail("C11", "undistributed_once", &site, &format!("week {k} still has remaining {}", wi.rem));
                            }
                            if *k + 5 > post.week && wi.rem != pre.weeks[k].rem {
                                tr.fail("C11", "collect_window", &site, &format!("week {k} is still claimable but its pool was collected"));
                            }
                        }
                        if !moved.is_zero() { tr.count("branch.undistributed_collected"); }
                    }
                    ok
                }
                "pause" => self.b.execute_tx(&owner, &self.farm, &zero, |sc| sc.pause()).result_status == 0,
                "resume" => self.b.execute_tx(&owner, &self.farm, &zero, |sc| sc.resume()).result_status == 0,
                "hubWl" | "hubRm" => {
                    let (u, a) = (self.idx(w[1])?, self.idx(w[2])?);
                    let (ua, aa) = (self.addrs[u].clone(), self.addrs[a].clone());
                    let add = w[0] == "hubWl";
                    let ok = self.b.execute_tx(&ua, &self.hub, &zero, |sc| {
                        let mut l = MultiValueEncoded::new();
                        l.push(managed_address!(&aa));
                        if add { sc.whitelist(l) } else { sc.remove_whitelist(l) }
                    }).result_status == 0;
                    if ok {
                        if add { self.hub_pairs.push((u, a)); } else { self.hub_pairs.retain(|p| *p != (u, a)); }
                    }
                    ok
                }
                "advance" => {
                    let (db, de): (u64, u64) = (w[1].parse().ok()?, w[2].parse().ok()?);
                    self.block += db;
                    self.epoch += de;
                    self.b.set_block_nonce(self.block);
                    self.b.set_block_epoch(self.epoch);
                    true
                }
                "bad" => {
                    let c = self.idx(w[2]).unwrap_or(0);
                    let ca = self.addrs[c].clone();
                    let one = rust_biguint!(1000);
                    match w[1] {
                        "nonAdmin" => {
                            let kind = w[3].to_string();
                            if kind == "topUp" {
                                self.ensure(c, &one);
                                self.b.execute_esdt_transfer(&ca, &self.farm, STAKE, 0, &one, |sc| sc.top_up_rewards()).result_status == 0
                            } else {
                                self.b.execute_tx(&ca, &self.farm, &zero, |sc| match kind.as_str() {
                                    "withdraw" => sc.withdraw_rewards(mbig(&BigUint::zero())),
                                    "setApr" => sc.set_max_apr(mbig(&BigUint::from(5u32))),
                                    "setPerBlock" => sc.set_per_block_rewards(mbig(&BigUint::from(5u32))),
                                    "endProduce" => sc.end_produce_rewards(),
                                    "startProduce" => sc.start_produce_rewards_endpoint(),
                                    "setMinUnbond" => sc.set_min_unbond_epochs_endpoint(3),
                                    "setPct" => sc.set_boosted_yields_rewards_percentage(100),
                                    "setFactors" => sc.set_boosted_yields_factors(mbig(&BigUint::from(2u32)), mbig(&BigUint::one()), mbig(&BigUint::one()), mbig(&BigUint::one()), mbig(&BigUint::one())),
                                    "collectUndist" => sc.collect_undistributed_boosted_rewards(),
                                    _ => sc.pause(),
                                }).result_status == 0
                            }
                        }
                        "wrongToken" => {
                            self.b.set_esdt_balance(&ca, OTHER, &one);
                            let ok = self.b.execute_esdt_transfer(&ca, &self.farm, OTHER, 0, &one, |sc| {
                                let _ = sc.stake_farm_endpoint(OptionalValue::None);
                            }).result_status == 0;
                            self.b.set_esdt_balance(&ca, OTHER, &zero);
                            ok
                        }
                        "unbondMulti" => {
                            let pays = parse_pays(&w[3..])?;
                            if pays.len() < 2 || pays.iter().any(|p| p.1.is_zero()) || !Self::kinds_ok(&pre, &pays, false) {
                                return Some(false);
                            }
                            let tf = Self::transfers(None, &pays);
                            let ok = self.b.execute_esdt_multi_transfer(&ca, &self.farm, &tf, |sc| {
                                let _ = sc.unbond_farm();
                            }).result_status == 0;
                            if ok && !self.quiet {
                                tr.fail("C12", "unbond_gate", &site, &format!("unbondFarm accepted {} unbond tokens in one call (epoch {})", pays.len(), self.epoch));
                            }
                            ok
                        }
                        "twoPayments" => {
                            let pays = parse_pays(&w[3..])?;
                            let tf = Self::transfers(None, &pays);
                            self.b.execute_esdt_multi_transfer(&ca, &self.farm, &tf, |sc| {
                                let _ = sc.claim_rewards(OptionalValue::None);
                            }).result_status == 0
                        }
                        _ => {
                            let pays = parse_pays(&w[3..])?;
                            let tf = Self::transfers(None, &pays);
                            self.b.execute_esdt_multi_transfer(&ca, &self.farm, &tf, |sc| {
                                let _ = sc.stake_farm_endpoint(OptionalValue::None);
                            }).result_status == 0
                        }
                    }
                }
                other => panic!("unknown op {other}"),
            })
        })()
        .unwrap_or(false);
        if self.quiet {
            return;
        }
        let post = self.snap();
        self.oracles_after(tr, &site, &pre, &post, ok, &info);
        if ok && !is_q {
            self.log.push(text.to_string());
        }
        if !(is_q && ok) {
            self.last_quote = None;
        }
        if ok {
            tr.count(&format!("ok.{}", site));
            let line = self.state_line(&post);
            if is_q {
                let v = view_val.unwrap_or_default();
                self.last_quote = Some((text.to_string(), v.clone()));
                tr.view_ok(n, &format!("{} | {}", v, line));
            } else {
                tr.res_ok(n, &format!("{} {} {}", outs.0, outs.1, outs.2), &line);
            }
        } else {
            tr.count(&format!("err.{}", site));
            if is_q { tr.view_err(n) } else { tr.res_err(n) }
        }
    }
}

fn main() {
    run_world::<StakingWorld>();
}
