//! Structured generator of the farm world: mostly valid ops chosen by looking at the real state,
//! boundary values, several ops per block, week boundaries, long gaps, position transfers followed
//! by an operation of the receiver, reconfiguration between user ops, ~10 % malformed.

use super::types::*;
use super::world::*;
use mxharness::*;
use num_bigint::BigUint;
use num_traits::{One, Zero};

pub fn gen_header(rng: &mut Rng, _h: u64, kind_arg: Option<&str>) -> String {
    let kind = match kind_arg {
        Some("farm") => "farm",
        Some("fwlr") => "fwlr",
        _ => if rng.chance(3, 5) { "farm" } else { "fwlr" },
    };
    let same = if kind == "farm" && rng.chance(1, 4) { 1 } else { 0 };
    let dsc = match rng.below(8) {
        0 | 1 => "1".to_string(),
        2 => "1000000".to_string(),
        3 | 4 => "1000000000000".to_string(),
        5 => "1000000000000000000".to_string(),
        6 => "1000".to_string(),
        _ => "7".to_string(),
    };
    let pb = match rng.below(8) {
        0 => "1".to_string(),
        1 => "3".to_string(),
        2 => "7".to_string(),
        3 => "1000".to_string(),
        4 => "1000000".to_string(),
        5 => "1000000000000000000".to_string(),
        _ => rng.range(1, 5000).to_string(),
    };
    let users = rng.range(2, 4);
    let epoch0 = *rng.pick(&[0u64, 0, 5, 100]);
    let produce = if rng.chance(1, 10) { 0 } else { 1 };
    format!("kind={kind} same={same} dsc={dsc} pb={pb} produce={produce} users={users} epoch0={epoch0}")
}

fn amount(rng: &mut Rng) -> BigUint {
    match rng.below(12) {
        0 => BigUint::one(),
        1 => BigUint::from(2u32),
        2 => BigUint::from(3u32),
        3 => BigUint::from(rng.range(4, 20)),
        4 => BigUint::from(rng.range(20, 1000)),
        5 => BigUint::from(1000u32),
        6 => BigUint::from(rng.range(1000, 1_000_000)),
        7 => pow10(9) + BigUint::from(7u32),
        8 => pow10(18),
        9 => rng.magnitude(24),
        10 => BigUint::from(100_000_000u64),
        _ => BigUint::from(rng.range(1, 100)),
    }
}

impl FarmWorld {
    /// a payment out of one of `u`'s positions: (nonce, amount) full or partial
    fn pick_pay(&self, rng: &mut Rng, s: &Snap, u: u64, exclude: &[u64]) -> Option<(u64, BigUint)> {
        let h: Vec<(&u64, &BigUint)> = s.users[(u - 1) as usize].hold.iter().filter(|(n, _)| !exclude.contains(n)).collect();
        if h.is_empty() {
            return None;
        }
        let (n, a) = h[rng.below(h.len() as u64) as usize];
        let one = BigUint::one();
        let amt = match rng.below(6) {
            0 | 1 | 2 => a.clone(),
            3 => one.clone(),
            4 => a / 2u32 + &one,
            _ => rng.big_range(&one, a),
        }
        .min(a.clone());
        Some((*n, amt))
    }

    fn pays_text(p: &[(u64, BigUint)]) -> String {
        p.iter().map(|(n, a)| format!("{}:{}", n, a)).collect::<Vec<_>>().join(" ")
    }

    fn pick_pays(&self, rng: &mut Rng, s: &Snap, u: u64, max: u64) -> Vec<(u64, BigUint)> {
        let mut v = vec![];
        let mut used = vec![];
        let k = rng.range(1, max);
        for _ in 0..k {
            // the same nonce twice (two partial payments) occasionally
            let ex: Vec<u64> = if rng.chance(1, 10) { vec![] } else { used.clone() };
            if let Some((n, a)) = self.pick_pay(rng, s, u, &ex) {
                if used.contains(&n) {
                    // second payment from the same nonce: keep the total within the holding
                    let have = s.users[(u - 1) as usize].hold[&n].clone();
                    let spent: BigUint = v.iter().filter(|p: &&(u64, BigUint)| p.0 == n).fold(BigUint::zero(), |x, p| x + &p.1);
                    if &spent + &a > have {
                        continue;
                    }
                }
                used.push(n);
                v.push((n, a));
            }
        }
        v
    }

    fn orig_text(&self, rng: &mut Rng, s: &Snap, c: u64) -> String {
        let n = self.users.len() as u64;
        if s.sc_wl[(c - 1) as usize] && rng.chance(1, 2) {
            rng.range(1, n).to_string()
        } else if rng.chance(1, 40) {
            rng.range(1, n).to_string() // not whitelisted: must fail
        } else {
            "-".to_string()
        }
    }

    /// the receiver of a transferred position does something with it next
    fn follow_up(&mut self, rng: &mut Rng, dst: u64, n: u64, a: &BigUint) {
        let one = BigUint::one();
        let part = if rng.chance(1, 3) && a > &one { rng.big_range(&one, a) } else { a.clone() };
        let t = match rng.below(5) {
            0 => format!("claim {} - {}:{}", dst, n, part),
            1 => format!("exit {} - {}:{}", dst, n, part),
            2 => format!("merge {} - {}:{}", dst, n, part),
            3 => format!("enter {} - {} {}:{}", dst, amount(rng), n, part),
            _ => format!("claimBoosted {} -", dst),
        };
        self.pending.push(t);
    }

    pub fn gen_line(&mut self, rng: &mut Rng, step: u64) -> (char, String) {
        if let Some(p) = self.pending.pop() {
            return ('O', p);
        }
        let s = self.snap();
        let n = self.users.len() as u64;
        let u = rng.range(1, n);
        let ow = OWNER_ID;
        // bootstrap: boosted configuration and energies early in most histories
        if step < 8 {
            match (step, rng.below(10)) {
                (0, 0..=8) => return ('O', self.gen_factors(rng)),
                (1, 0..=8) => return ('O', format!("setPct {} {}", ow, *rng.pick(&[0u64, 1, 2500, 2500, 5000, 9999, 10000, 3333, 2500, 6000]))),
                (2..=4, 0..=8) => { let who = (step - 1).min(n); return ('O', self.gen_energy(rng, who)); }
                (5, 0..=2) => return ('O', format!("scWhitelist {}", u)),
                (6, 0..=2) => return ('O', format!("hubWhitelist {} {}", u, rng.range(1, n))),
                _ => {}
            }
        }
        if !s.act && rng.chance(2, 3) {
            return ('O', format!("resume {}", ow));
        }
        let weights = [
            16, // 0 enter
            12, // 1 claim
            9,  // 2 exit
            8,  // 3 merge
            4,  // 4 compound
            6,  // 5 claimBoosted
            6,  // 6 transfer
            5,  // 7 setEnergy
            14, // 8 advance
            2,  // 9 setPerBlock
            2,  // 10 start/end produce
            2,  // 11 setPct
            2,  // 12 setFactors
            2,  // 13 collect
            2,  // 14 pause / upgrade
            1,  // 15 penalty config
            3,  // 16 hub / sc whitelist
            3,  // 17 on behalf
            1,  // 18 updateEnergy
            2,  // 19 view
            4,  // 20 malformed
        ];
        let k = rng.weighted(&weights);
        match k {
            0 => {
                let amt = amount(rng);
                let o = self.orig_text(rng, &s, u);
                let extra = if rng.chance(1, 3) { self.pick_pays(rng, &s, u, 3) } else { vec![] };
                ('O', format!("enter {} {} {} {}", u, o, amt, Self::pays_text(&extra)).trim_end().to_string())
            }
            1 | 2 | 3 | 4 => {
                // prefer a user that holds something
                let holders: Vec<u64> = (1..=n).filter(|x| !s.users[(*x - 1) as usize].hold.is_empty()).collect();
                if holders.is_empty() {
                    return ('O', format!("enter {} - {}", u, amount(rng)));
                }
                let c = *rng.pick(&holders);
                let o = self.orig_text(rng, &s, c);
                match k {
                    1 => {
                        let mx = if rng.chance(1, 3) { 3 } else { 1 };
                        let p = self.pick_pays(rng, &s, c, mx);
                        ('O', format!("claim {} {} {}", c, o, Self::pays_text(&p)))
                    }
                    2 => {
                        let p = self.pick_pay(rng, &s, c, &[]).unwrap();
                        let mut p = p;
                        if rng.chance(1, 30) {
                            p.1 += BigUint::one(); // more than held (usually): must fail
                        }
                        ('O', format!("exit {} {} {}:{}", c, o, p.0, p.1))
                    }
                    3 => {
                        let p = self.pick_pays(rng, &s, c, 4);
                        ('O', format!("merge {} {} {}", c, o, Self::pays_text(&p)))
                    }
                    _ => {
                        if !(self.same && self.kind == Kind::Farm) && rng.chance(4, 5) {
                            let p = self.pick_pays(rng, &s, c, 2);
                            return ('O', format!("claim {} {} {}", c, o, Self::pays_text(&p)));
                        }
                        let p = self.pick_pays(rng, &s, c, 2);
                        ('O', format!("compound {} {} {}", c, o, Self::pays_text(&p)))
                    }
                }
            }
            5 => {
                let other = if rng.chance(1, 12) { rng.range(1, n).to_string() } else { "-".to_string() };
                ('O', format!("claimBoosted {} {}", u, other))
            }
            6 => {
                let holders: Vec<u64> = (1..=n).filter(|x| !s.users[(*x - 1) as usize].hold.is_empty()).collect();
                if holders.is_empty() || n < 2 {
                    return ('O', format!("enter {} - {}", u, amount(rng)));
                }
                let src = *rng.pick(&holders);
                let mut dst = rng.range(1, n);
                if dst == src {
                    dst = if src == n { 1 } else { src + 1 };
                }
                let (nn, a) = self.pick_pay(rng, &s, src, &[]).unwrap();
                if rng.chance(4, 5) {
                    self.follow_up(rng, dst, nn, &a);
                }
                ('O', format!("transfer {} {} {} {}", src, dst, nn, a))
            }
            7 => ('O', self.gen_energy(rng, u)),
            8 => {
                let db = match rng.below(8) { 0 => 0, 1 | 2 => 1, 3 => rng.range(2, 10), 4 | 5 => rng.range(10, 200), 6 => rng.range(1000, 100_000), _ => 3 };
                let de = match rng.below(16) { 0..=6 => 0, 7 => 1, 8 => rng.range(2, 6), 9..=12 => 7, 13 => rng.range(8, 15), 14 => rng.range(28, 45), _ => 6 };
                if de > 0 && (self.epoch + de - self.epoch0) / 7 != (self.epoch - self.epoch0) / 7 {
                    for x in 1..=n {
                        if s.users[(x - 1) as usize].hold.is_empty() || !rng.chance(1, 2) {
                            continue;
                        }
                        let t = match rng.below(4) {
                            0 => format!("claimBoosted {} -", x),
                            1 => format!("enter {} - {}", x, amount(rng)),
                            _ => match self.pick_pay(rng, &s, x, &[]) {
                                Some((nn, a)) => format!("claim {} - {}:{}", x, nn, a),
                                None => continue,
                            },
                        };
                        self.pending.push(t);
                    }
                }
                ('O', format!("advance {} {}", self.block + db, self.epoch + de))
            }
            9 => {
                let x = match rng.below(6) { 0 => "0".to_string(), 1 => "1".to_string(), 2 => "1000".to_string(), 3 => pow10(18).to_string(), _ => rng.range(1, 10_000).to_string() };
                let c = if rng.chance(1, 10) { u } else { ow };
                ('O', format!("setPerBlock {} {}", c, x))
            }
            10 => {
                let c = if rng.chance(1, 10) { u } else { ow };
                if s.prod && rng.chance(2, 3) { ('O', format!("endProduce {}", c)) } else { ('O', format!("startProduce {}", c)) }
            }
            11 => {
                let p = match rng.below(8) { 0 => 0, 1 => 10_000, 2 => 10_001, 3 => 1, 4 => 2500, 5 => 9_999, _ => rng.range(0, 10_000) };
                let c = if rng.chance(1, 10) { u } else { ow };
                ('O', format!("setPct {} {}", c, p))
            }
            12 => ('O', self.gen_factors(rng)),
            13 => {
                if s.week <= 5 && rng.chance(4, 5) {
                    return ('O', format!("advance {} {}", self.block + rng.range(0, 5), self.epoch + 7));
                }
                ('O', format!("collect {}", if rng.chance(1, 10) { u } else { ow }))
            }
            14 => {
                if rng.chance(1, 3) {
                    ('O', "upgrade".to_string())
                } else {
                    ('O', format!("pause {}", if rng.chance(1, 5) { u } else { ow }))
                }
            }
            15 => {
                if rng.chance(1, 2) {
                    ('O', format!("setPenalty {} {}", ow, *rng.pick(&[0u64, 1, 100, 300, 5000, 9999, 10_000])))
                } else {
                    ('O', format!("setMinEpochs {} {}", ow, *rng.pick(&[0u64, 1, 3, 7, 30, 31])))
                }
            }
            16 => match rng.below(5) {
                0 | 1 => ('O', format!("hubWhitelist {} {}", u, rng.range(1, n))),
                2 => {
                    if let Some(p) = self.hub_pairs.first().cloned() {
                        ('O', format!("hubRemove {} {}", p.0, p.1))
                    } else {
                        ('O', format!("hubRemove {} {}", u, rng.range(1, n)))
                    }
                }
                3 => ('O', format!("scWhitelist {}", u)),
                _ => ('O', format!("scUnwhitelist {}", u)),
            },
            17 => {
                // on-behalf operations: caller authorised by `user` through the hub (mostly)
                let (user, caller) = if !self.hub_pairs.is_empty() && rng.chance(5, 6) {
                    *rng.pick(&self.hub_pairs)
                } else {
                    (u, rng.range(1, n))
                };
                if rng.chance(1, 2) {
                    // payments of the caller that record `user` as owner (if any)
                    let mine: Vec<(u64, BigUint)> = s.users[(caller - 1) as usize].hold.iter()
                        .filter(|(nn, _)| s.toks.get(nn).map(|a| a.owner == user).unwrap_or(false) || rng.chance(1, 10))
                        .map(|(nn, a)| (*nn, a.clone())).collect();
                    let extra: Vec<(u64, BigUint)> = if !mine.is_empty() && rng.chance(1, 2) { vec![mine[rng.below(mine.len() as u64) as usize].clone()] } else { vec![] };
                    ('O', format!("enterOB {} {} {} {}", caller, user, amount(rng), Self::pays_text(&extra)).trim_end().to_string())
                } else {
                    let mine: Vec<(u64, BigUint)> = s.users[(caller - 1) as usize].hold.iter()
                        .filter(|(nn, _)| s.toks.get(nn).map(|a| a.owner == user).unwrap_or(false))
                        .map(|(nn, a)| (*nn, a.clone())).collect();
                    if mine.is_empty() {
                        return ('O', format!("enterOB {} {} {}", caller, user, amount(rng)));
                    }
                    let k = rng.range(1, mine.len().min(2) as u64) as usize;
                    ('O', format!("claimOB {} {}", caller, Self::pays_text(&mine[..k])))
                }
            }
            18 => ('O', format!("updateEnergy {}", u)),
            19 => {
                // quotes of RECEIVED positions (recorded owner != holder) matter most: the view must use the
                // user argument, the execution uses the caller (seeded change C20-b) — pick one when there is one
                let foreign: Vec<u64> = s.users[(u - 1) as usize].hold.keys().filter(|n| s.toks.get(n).map(|a| a.owner != u).unwrap_or(false)).cloned().collect();
                let own: Vec<u64> = s.users[(u - 1) as usize].hold.keys().filter(|n| !foreign.contains(n)).cloned().collect();
                let exclude: Vec<u64> = if !foreign.is_empty() && rng.chance(2, 3) { own } else { vec![] };
                if let Some((nn, a)) = self.pick_pay(rng, &s, u, &exclude) {
                    if rng.chance(2, 3) {
                        // quote, then execute the very same claim / exit (C20: quote = execution)
                        let t = if rng.chance(1, 2) { format!("claim {} - {}:{}", u, nn, a) } else { format!("exit {} - {}:{}", u, nn, a) };
                        self.pending.push(t);
                    }
                    ('Q', format!("calcRewards {} {} {}", u, a, nn))
                } else {
                    ('O', format!("enter {} - {}", u, amount(rng)))
                }
            }
            _ => match rng.below(5) {
                0 => ('O', format!("bad wrongToken {} {}", u, rng.pick(&["enter", "claim", "exit", "merge"]))),
                1 => ('O', format!("bad noPayment {} {}", u, rng.pick(&["enter", "claim", "exit", "merge"]))),
                2 => ('O', format!("bad farmingAsFarm {}", u)),
                3 => ('O', format!("bad viewByUser {}", u)),
                _ => ('O', format!("claim {} - {}:{}", u, self.max_nonce + 1, 5)), // unknown nonce
            },
        }
    }

    fn gen_factors(&mut self, rng: &mut Rng) -> String {
        let snap = self.snap();
        self.gen_factors_at(rng, &snap)
    }

    /// factors with the minimums sometimes placed exactly at / just above a user's energy or position
    fn gen_factors_at(&self, rng: &mut Rng, s: &Snap) -> String {
        let max_f = *rng.pick(&[1u64, 2, 10, 10, 100, 0]);
        let (c_e, c_f) = match rng.below(8) { 0 => (1, 0), 1 => (0, 1), 2 => (3, 2), 3 => (3, 2), 4 => (1, 1), 5 => (rng.range(0, 9), rng.range(1, 9)), 6 => (7, 3), _ => (2, 5) };
        let min_e = *rng.pick(&[1u64, 1, 1, 1, 10, 1000, 1, 0]);
        let min_f = *rng.pick(&[1u64, 1, 1, 1, 5, 1000, 1, 0]);
        let mut min_e = BigUint::from(min_e);
        let mut min_f = BigUint::from(min_f);
        if rng.chance(1, 4) {
            let u = &s.users[rng.below(s.users.len() as u64) as usize];
            if !u.total.is_zero() {
                min_f = &u.total + BigUint::from(rng.below(2));
            }
            if let Some((_, e)) = &u.progress {
                let p = e.positive();
                if !p.is_zero() {
                    min_e = p + BigUint::from(rng.below(2));
                }
            }
        }
        let (c_e, c_f) = if rng.chance(1, 60) { (0, 0) } else { (c_e, c_f) };
        let c = if rng.chance(1, 25) { 1 } else { OWNER_ID };
        format!("setFactors {} {} {} {} {} {}", c, max_f, c_e, c_f, min_e, min_f)
    }

    fn gen_energy(&self, rng: &mut Rng, u: u64) -> String {
        let locked: u64 = *rng.pick(&[0u64, 1, 10, 1000, 1_000_000, 10, 1000]);
        let amount: i128 = match rng.below(14) {
            8..=13 => (locked.max(1) as i128) * rng.range(200, 1440) as i128,
            0 => 0,
            1 => rng.range(1, 100) as i128,
            2 => (locked as i128) * rng.range(1, 1440) as i128,
            3 => (locked as i128) * 360,
            4 => rng.range(1, 1_000_000_000) as i128,
            5 => -(rng.range(1, 1000) as i128),
            6 => (locked as i128) * rng.range(1, 20) as i128,
            _ => rng.range(1, 10_000) as i128,
        };
        let last = if rng.chance(1, 6) && self.epoch > 0 { rng.range(self.epoch.saturating_sub(10), self.epoch) } else { self.epoch };
        format!("setEnergy {} {} {} {}", u, amount, last, locked)
    }
}
