//! Plain-Rust mirror types of what the harness observes on the real farm contracts, raw decoders
//! and the INDEPENDENT formulas of the properties (written from the property text / README).

use num_bigint::{BigInt, BigUint, Sign};
use num_traits::{Signed, Zero};
use std::collections::BTreeMap;

#[derive(Clone, Debug, PartialEq)]
pub struct En {
    pub amount: BigInt,
    pub last: u64,
    pub locked: BigUint,
}

impl En {
    pub fn zero_at(epoch: u64) -> En {
        En { amount: BigInt::zero(), last: epoch, locked: BigUint::zero() }
    }
    /// energy decays by `locked` per epoch
    pub fn depleted(&self, epoch: u64) -> En {
        if self.last == epoch {
            return self.clone();
        }
        let mut e = self.clone();
        if !self.locked.is_zero() && self.last < epoch {
            e.amount -= BigInt::from(self.locked.clone()) * BigInt::from(epoch - self.last);
        }
        e.last = epoch;
        e
    }
    pub fn positive(&self) -> BigUint {
        if self.amount.is_positive() {
            self.amount.magnitude().clone()
        } else {
            BigUint::zero()
        }
    }
    pub fn show(&self) -> String {
        format!("{},{},{}", self.amount, self.last, self.locked)
    }
}

#[derive(Clone, Debug, PartialEq)]
pub struct Attr {
    pub rps: BigUint,
    pub epoch: u64,
    pub comp: BigUint,
    pub amt: BigUint,
    /// index of the original owner (1..n users, 100 owner, 0 unknown)
    pub owner: u64,
}

#[derive(Clone, Debug, PartialEq)]
pub struct Fac {
    pub max_f: BigUint,
    pub c_e: BigUint,
    pub c_f: BigUint,
    pub min_e: BigUint,
    pub min_f: BigUint,
}

impl Fac {
    pub fn show(&self) -> String {
        format!("{},{},{},{},{}", self.max_f, self.c_e, self.c_f, self.min_e, self.min_f)
    }
}

#[derive(Clone, Debug, Default, PartialEq)]
pub struct WeekInfo {
    pub accum: BigUint,
    pub remaining: BigUint,
    pub fsupply: BigUint,
    pub tenergy: BigUint,
    pub tlocked: BigUint,
    pub trewards: Option<Vec<BigUint>>,
}

#[derive(Clone, Debug, Default, PartialEq)]
pub struct UserInfo {
    pub total: BigUint,
    pub progress: Option<(usize, En)>,
    pub energy: Option<En>,
    pub hold: BTreeMap<u64, BigUint>,
    pub farming: BigUint,
    pub rew: BigUint,
}

#[derive(Clone, Debug, Default, PartialEq)]
pub struct Snap {
    pub rps: BigUint,
    pub res: BigUint,
    pub sup: BigUint,
    pub last: u64,
    pub pb: BigUint,
    pub prod: bool,
    pub pct: u64,
    pub act: bool,
    pub pen: u64,
    pub minep: u64,
    pub dsc: BigUint,
    pub bal_f: BigUint,
    pub bal_r: BigUint,
    pub week: usize,
    pub und: BigUint,
    pub lc: usize,
    pub cfg: Option<(usize, Vec<Fac>)>,
    pub g_last: usize,
    pub g_first: u64,
    /// weeks 1..=week
    pub weeks: BTreeMap<usize, WeekInfo>,
    pub users: Vec<UserInfo>,
    pub toks: BTreeMap<u64, Attr>,
    pub sc_wl: Vec<bool>,
}

impl Snap {
    pub fn wk(&self, w: usize) -> WeekInfo {
        self.weeks.get(&w).cloned().unwrap_or_default()
    }
    pub fn outstanding(&self, n: u64) -> BigUint {
        let mut s = BigUint::zero();
        for u in &self.users {
            if let Some(h) = u.hold.get(&n) {
                s += h;
            }
        }
        s
    }
}

// ---------------------------------------------------------------- raw decoders ----------
pub struct Rd<'a> {
    pub b: &'a [u8],
    pub p: usize,
}

impl<'a> Rd<'a> {
    pub fn new(b: &'a [u8]) -> Self {
        Rd { b, p: 0 }
    }
    pub fn u32(&mut self) -> u32 {
        let v = u32::from_be_bytes(self.b[self.p..self.p + 4].try_into().unwrap());
        self.p += 4;
        v
    }
    pub fn u64(&mut self) -> u64 {
        let v = u64::from_be_bytes(self.b[self.p..self.p + 8].try_into().unwrap());
        self.p += 8;
        v
    }
    pub fn big(&mut self) -> BigUint {
        let n = self.u32() as usize;
        let v = BigUint::from_bytes_be(&self.b[self.p..self.p + n]);
        self.p += n;
        v
    }
    pub fn bytes(&mut self, n: usize) -> &'a [u8] {
        let v = &self.b[self.p..self.p + n];
        self.p += n;
        v
    }
}

/// `FarmTokenAttributes` top-encoded = nested fields concatenated; returns the owner's raw address
pub fn decode_attr(raw: &[u8]) -> Option<(BigUint, u64, BigUint, BigUint, [u8; 32])> {
    if raw.len() < 4 + 8 + 4 + 4 + 32 {
        return None;
    }
    let mut r = Rd::new(raw);
    let rps = r.big();
    let epoch = r.u64();
    let comp = r.big();
    let amt = r.big();
    let mut o = [0u8; 32];
    o.copy_from_slice(r.bytes(32));
    Some((rps, epoch, comp, amt, o))
}

/// `BoostedYieldsConfig` = usize(4 bytes) ++ ArrayVec(len u32 ++ items of 5 nested BigUints)
pub fn decode_cfg(raw: &[u8]) -> Option<(usize, Vec<Fac>)> {
    if raw.is_empty() {
        return None;
    }
    let mut r = Rd::new(raw);
    let last = r.u32() as usize;
    let n = r.u32() as usize;
    let mut v = vec![];
    for _ in 0..n {
        let max_f = r.big();
        let c_e = r.big();
        let c_f = r.big();
        let min_e = r.big();
        let min_f = r.big();
        v.push(Fac { max_f, c_e, c_f, min_e, min_f });
    }
    Some((last, v))
}

pub fn bigint_from(mag: BigUint, neg: bool) -> BigInt {
    BigInt::from_biguint(if neg { Sign::Minus } else { Sign::Plus }, mag)
}

// ---------------------------------------------------------------- independent formulas --
/// C06: base reward of `amount` farm tokens whose index is `rps_tok` at current index `rps`
pub fn f_base_reward(amount: &BigUint, rps: &BigUint, rps_tok: &BigUint, dsc: &BigUint) -> BigUint {
    if rps > rps_tok {
        amount * (rps - rps_tok) / dsc
    } else {
        BigUint::zero()
    }
}

/// C11: boosted reward of one week (the property's formula)
#[allow(clippy::too_many_arguments)]
pub fn f_boosted(fa: &Fac, r: &BigUint, f: &BigUint, ftot: &BigUint, e: &BigUint, etot: &BigUint) -> BigUint {
    if etot.is_zero() || ftot.is_zero() || e < &fa.min_e || f < &fa.min_f || r.is_zero() {
        return BigUint::zero();
    }
    let cap = &fa.max_f * r * f / ftot;
    let by_e = r * &fa.c_e * e / etot;
    let by_f = r * &fa.c_f * f / ftot;
    let den = &fa.c_e + &fa.c_f;
    if den.is_zero() {
        return BigUint::zero();
    }
    let v = (by_e + by_f) / den;
    cap.min(v)
}

/// C07: weighted average rounded up
pub fn f_wavg_up(v1: &BigUint, w1: &BigUint, v2: &BigUint, w2: &BigUint) -> BigUint {
    let ws = w1 + w2;
    let s = v1 * w1 + v2 * w2;
    (&s + &ws - 1u32) / &ws
}

/// a parsed `nonce:amount` payment
pub fn parse_pay(s: &str) -> (u64, BigUint) {
    let (n, a) = s.split_once(':').unwrap_or_else(|| panic!("bad payment {s}"));
    (n.parse().unwrap(), a.parse::<BigUint>().unwrap())
}

pub fn parse_opt(s: &str) -> Option<u64> {
    if s == "-" {
        None
    } else {
        Some(s.parse().unwrap())
    }
}
