//! The harness's own ledger and the property oracles C05 / C06 / C07 / C11, evaluated directly on the
//! real contract state (pre/post snapshots), independently of the Lean model.

use super::types::*;
use super::world::*;
use mxharness::*;
use num_bigint::BigUint;
use num_traits::Zero;
use std::collections::BTreeMap;

#[derive(Clone, Debug, Default)]
pub struct Ledger {
    pub generated: BigUint,
    pub paid: BigUint,
    pub paid_base: BigUint,
    pub paid_boosted: BigUint,
    pub base_budget: BigUint,
    pub burned: BigUint,
    /// boosted cut accumulated per week (recomputed from rate, blocks, percentage)
    pub cut_w: BTreeMap<usize, BigUint>,
    /// frozen pool of the week (first time `totalRewardsForWeek` was seen)
    pub r_w: BTreeMap<usize, BigUint>,
    pub paid_w: BTreeMap<usize, BigUint>,
    pub collected_w: BTreeMap<usize, BigUint>,
    /// (user, week) pairs that received a boosted payment
    pub paid_uw: BTreeMap<(u64, usize), u32>,
    /// history of accepted factor settings: (week of the call, factors)
    pub fhist: Vec<(usize, Fac)>,
}

impl Ledger {
    /// factors in force for week `w`: the last setting made in a week ≤ w; the very first
    /// configuration also covers the (still claimable) weeks before it
    pub fn factors_for(&self, w: usize) -> Option<Fac> {
        let mut r = self.fhist.first().map(|x| x.1.clone());
        for (ws, f) in &self.fhist {
            if *ws <= w {
                r = Some(f.clone());
            }
        }
        r
    }
}

pub struct OpInfo<'a> {
    pub site: &'a str,
    pub words: &'a [&'a str],
    /// the user whose boosted rewards are settled / who receives rewards' energy (0 = none)
    pub orig: u64,
    pub caller: u64,
    pub pays: Vec<(u64, BigUint)>,
    pub enter_amt: BigUint,
}

pub fn op_info<'a>(w: &'a [&'a str]) -> OpInfo<'a> {
    let mut i = OpInfo { site: w[0], words: w, orig: 0, caller: 0, pays: vec![], enter_amt: BigUint::zero() };
    let pays_from = |k: usize| -> Vec<(u64, BigUint)> { w[k..].iter().map(|p| parse_pay(p)).collect() };
    match w[0] {
        "enter" => {
            i.caller = w[1].parse().unwrap();
            i.orig = parse_opt(w[2]).unwrap_or(i.caller);
            i.enter_amt = big(w[3]);
            i.pays = pays_from(4);
        }
        "enterOB" => {
            i.caller = w[1].parse().unwrap();
            i.orig = w[2].parse().unwrap();
            i.enter_amt = big(w[3]);
            i.pays = pays_from(4);
        }
        "claim" | "compound" | "merge" | "exit" => {
            i.caller = w[1].parse().unwrap();
            i.orig = parse_opt(w[2]).unwrap_or(i.caller);
            i.pays = pays_from(3);
        }
        "claimOB" => {
            i.caller = w[1].parse().unwrap();
            i.pays = pays_from(2);
        }
        "claimBoosted" => {
            i.caller = w[1].parse().unwrap();
            i.orig = parse_opt(w[2]).unwrap_or(i.caller);
        }
        _ => {}
    }
    i
}

fn sum_pays(p: &[(u64, BigUint)]) -> BigUint {
    p.iter().fold(BigUint::zero(), |a, x| a + &x.1)
}

/// boosted amount paid out of past weeks' pools during this op, per week
pub fn boosted_deltas(pre: &Snap, post: &Snap) -> BTreeMap<usize, BigUint> {
    let mut m = BTreeMap::new();
    for w in 1..post.week {
        let a = pre.wk(w);
        let b = post.wk(w);
        let x = &a.accum + &a.remaining;
        let y = &b.accum + &b.remaining;
        if x > y {
            m.insert(w, x - y);
        }
    }
    m
}

impl FarmWorld {
    /// does the (real) pre-state make this op a legitimate call that must succeed?
    pub fn legit(&self, pre: &Snap, i: &OpInfo) -> bool {
        let n = self.users.len() as u64;
        let is_user = |u: u64| u >= 1 && u <= n;
        // (a configuration with user_rewards_energy_const = user_rewards_farm_const = 0 used to be excused here as an owner
        //  misconfiguration; it is finding F7 now: setBoostedYieldsFactors must not accept it, so nothing is excused)
        if !pre.act {
            return false;
        }
        let holds = |c: u64, pays: &[(u64, BigUint)]| -> bool {
            if !is_user(c) || pays.is_empty() {
                return false;
            }
            let mut need: BTreeMap<u64, BigUint> = BTreeMap::new();
            for (nn, a) in pays {
                if a.is_zero() {
                    return false;
                }
                *need.entry(*nn).or_default() += a;
            }
            need.iter().all(|(nn, a)| pre.users[(c - 1) as usize].hold.get(nn).map(|h| h >= a).unwrap_or(false))
        };
        let orig_ok = |w2: &str, c: u64| -> bool {
            match parse_opt(w2) {
                None => true,
                Some(o) => is_user(o) && is_user(c) && pre.sc_wl[(c - 1) as usize],
            }
        };
        match i.site {
            "enter" => is_user(i.caller) && orig_ok(i.words[2], i.caller) && !i.enter_amt.is_zero()
                && (i.pays.is_empty() || holds(i.caller, &i.pays)),
            "claim" | "merge" | "exit" => orig_ok(i.words[2], i.caller) && holds(i.caller, &i.pays),
            "compound" => self.kind == Kind::Farm && self.same && orig_ok(i.words[2], i.caller) && holds(i.caller, &i.pays),
            "claimBoosted" => is_user(i.caller) && i.orig == i.caller && !pre.users[(i.caller - 1) as usize].total.is_zero(),
            _ => false,
        }
    }

    /// update the harness ledger after a successful op; returns the boosted amount paid in it
    pub fn ledger_update(&mut self, i: &OpInfo, pre: &Snap, post: &Snap, res: &OpRes) -> BigUint {
        let l = &mut self.led;
        // emission
        if post.last > pre.last && i.site != "startProduce" {
            let minted = if pre.prod { &pre.pb * BigUint::from(post.last - pre.last) } else { BigUint::zero() };
            let cut = if pre.pct == 0 { BigUint::zero() } else { &minted * BigUint::from(pre.pct) / BigUint::from(10_000u32) };
            l.generated += &minted;
            l.base_budget += &minted - &cut;
            *l.cut_w.entry(post.week).or_default() += &cut;
        }
        // pools frozen in this op
        for (w, info) in &post.weeks {
            if let Some(v) = &info.trewards {
                if !l.r_w.contains_key(w) && pre.wk(*w).trewards.is_none() {
                    l.r_w.insert(*w, v.iter().fold(BigUint::zero(), |a, x| a + x));
                }
            }
        }
        let mut boosted = BigUint::zero();
        if i.site == "collect" {
            for w in 1..post.week {
                let a = pre.wk(w).remaining;
                let b = post.wk(w).remaining;
                if a > b {
                    *l.collected_w.entry(w).or_default() += a - b;
                }
            }
        } else {
            for (w, d) in boosted_deltas(pre, post) {
                boosted += &d;
                *l.paid_w.entry(w).or_default() += &d;
                if i.orig != 0 {
                    *l.paid_uw.entry((i.orig, w)).or_default() += 1;
                }
            }
        }
        let rew = if i.site == "compound" { &res.tok_amt - sum_pays(&i.pays) } else { res.rew.clone() };
        l.paid += &rew;
        l.paid_boosted += &boosted;
        if rew >= boosted {
            l.paid_base += &rew - &boosted;
        }
        if i.site == "exit" {
            let a = sum_pays(&i.pays);
            if a >= res.farming {
                l.burned += a - &res.farming;
            }
        }
        if i.site == "setFactors" {
            let f: Vec<BigUint> = i.words[2..7].iter().map(|x| big(x)).collect();
            l.fhist.push((post.week, Fac { max_f: f[0].clone(), c_e: f[1].clone(), c_f: f[2].clone(), min_e: f[3].clone(), min_f: f[4].clone() }));
        }
        boosted
    }

    /// independent recomputation of what `orig` must receive as boosted rewards in this op:
    /// per week (week, amount) for the weeks of the claim window
    pub fn expected_boosted(&mut self, pre: &Snap, orig: u64) -> Vec<(usize, BigUint)> {
        let mut v = vec![];
        if orig == 0 || orig as usize > pre.users.len() || pre.cfg.is_none() {
            return v;
        }
        let u = &pre.users[(orig - 1) as usize];
        let w_now = pre.week;
        let (pw, pe) = match &u.progress {
            Some(p) => p.clone(),
            None => return v,
        };
        if pw >= w_now {
            return v;
        }
        let first = if w_now - pw > 4 { w_now - 4 } else { pw };
        for w in first..w_now {
            // the user's energy of week `w`: the recorded energy decayed by 7 epochs per elapsed week
            let e = pe.depleted(pe.last + 7 * (w - pw) as u64).positive();
            let info = pre.wk(w);
            let r = match &info.trewards {
                Some(t) => t.iter().fold(BigUint::zero(), |a, x| a + x),
                None => info.accum.clone(),
            };
            let fa = match self.led.factors_for(w) {
                Some(f) => f,
                None => continue,
            };
            let amt = f_boosted(&fa, &r, &u.total, &info.fsupply, &e, &info.tenergy);
            if !info.tenergy.is_zero() && !info.fsupply.is_zero() && !r.is_zero() {
                if e == fa.min_e || u.total == fa.min_f {
                    self.hits.push("branch.boosted_at_minimum".into());
                }
                if &e + 1u32 == fa.min_e || &u.total + 1u32 == fa.min_f {
                    self.hits.push("branch.boosted_just_below_minimum".into());
                }
            }
            if std::env::var("VERIF_DIAG").is_ok() {
                let why = if info.tenergy.is_zero() { "E0" } else if info.fsupply.is_zero() { "F0" } else if e < fa.min_e { "e<min" } else if u.total < fa.min_f { "f<min" } else if r.is_zero() { "R0" } else if amt.is_zero() { "floor0" } else { "paid" };
                eprintln!("DIAG {}", why);
            }
            if !amt.is_zero() {
                v.push((w, amt));
            }
        }
        v
    }

    /// all oracles after an op (successful or not)
    #[allow(clippy::too_many_arguments)]
    pub fn oracles(&mut self, tr: &mut Trace, i: &OpInfo, pre: &Snap, post: &Snap, res: &OpRes, boosted: &BigUint, legit: bool, expected_b: &[(usize, BigUint)]) {
        let site = i.site;
        if !res.ok {
            // failed tx => nothing changed
            let mut a = pre.clone();
            let mut b = post.clone();
            a.sc_wl.clear();
            b.sc_wl.clear();
            if a != b {
                tr.fail("C05", "failed_tx_changes_state", site, "observable state differs after a failed transaction");
            }
            if legit {
                // the weekly pool subtraction `remaining(w) -= reward`: the reward the formula gives the
                // caller for a claimable week exceeds what is left in (or accumulated for) that week's pool
                let pool_underflow = res.msg.contains("cannot subtract") && expected_b.iter().any(|(w, amt)| {
                    let info = pre.wk(*w);
                    let left = if info.trewards.is_some() { info.remaining.clone() } else { info.accum.clone() };
                    amt > &left
                });
                if pool_underflow {
                    tr.fail("C05", "no_legit_failure.boosted_pool_underflow", site, &format!("legitimate call failed: {} (boosted reward of a claimable week exceeds that week's pool: {:?})", res.msg, expected_b));
                } else {
                    tr.fail("C05", "no_legit_failure", site, &format!("legitimate call failed: {}", res.msg));
                }
            }
            return;
        }
        let l = self.led.clone();
        // ---------------------------------------------------------------- C19 (paused means no fund moves)
        if !pre.act && matches!(site, "enter" | "enterOB" | "claim" | "claimOB" | "compound" | "exit" | "merge" | "claimBoosted") {
            tr.fail("C19", "paused_blocks_funds", site, "a fund-moving user operation succeeded while the farm is paused");
        }
        // ---------------------------------------------------------------- C05
        if l.generated < l.paid || post.res != &l.generated - &l.paid {
            tr.fail("C05", "reserve_exact", site, &format!("reserve={} generated={} paid={}", post.res, l.generated, l.paid));
        }
        match (self.kind, self.same) {
            (Kind::Farm, false) => {
                if post.bal_r != post.res {
                    tr.fail("C05", "reserve_is_balance", site, &format!("reward balance={} reserve={}", post.bal_r, post.res));
                }
                if post.bal_f != post.sup {
                    tr.fail("C05", "principal_backed", site, &format!("farming balance={} supply={}", post.bal_f, post.sup));
                }
            }
            (Kind::Farm, true) => {
                if post.bal_f != &post.res + &post.sup {
                    tr.fail("C05", "reserve_is_balance", site, &format!("balance={} reserve+supply={}", post.bal_f, &post.res + &post.sup));
                }
            }
            (Kind::Fwlr, _) => {
                if post.bal_f != post.sup {
                    tr.fail("C05", "principal_backed", site, &format!("farming balance={} supply={}", post.bal_f, post.sup));
                }
            }
        }
        {
            let mut need = post.und.clone();
            for info in post.weeks.values() {
                need += &info.accum;
                need += &info.remaining;
            }
            let pools = need.clone();
            for (n, a) in &post.toks {
                need += f_base_reward(&post.outstanding(*n), &post.rps, &a.rps, &post.dsc);
            }
            if post.res < need {
                tr.fail("C05", "reserve_covers", site, &format!("reserve={} < claimable base + pools({}) = {}", post.res, pools, need));
            }
        }
        // ---------------------------------------------------------------- C06
        let settles = matches!(site, "enter" | "enterOB" | "claim" | "claimOB" | "compound" | "exit" | "claimBoosted" | "setPerBlock" | "endProduce" | "setPct");
        let admin = matches!(site, "setPerBlock" | "endProduce" | "setPct");
        if post.rps < pre.rps {
            tr.fail("C06", "rps_mono", site, &format!("{} -> {}", pre.rps, post.rps));
        }
        {
            let mut exp_rps = pre.rps.clone();
            let mut exp_last = pre.last;
            if settles && self.block > pre.last {
                exp_last = self.block;
                let minted = if pre.prod { &pre.pb * BigUint::from(self.block - pre.last) } else { BigUint::zero() };
                let cut = if pre.pct == 0 { BigUint::zero() } else { &minted * BigUint::from(pre.pct) / BigUint::from(10_000u32) };
                if !minted.is_zero() && !pre.sup.is_zero() {
                    exp_rps += (&minted - &cut) * &pre.dsc / &pre.sup;
                }
            }
            if site == "startProduce" {
                exp_last = self.block;
            }
            if post.rps != exp_rps || post.last != exp_last {
                let clause = if admin || site == "startProduce" { "admin_settles_first" } else { "rps_increment" };
                tr.fail("C06", clause, site, &format!("rps {} (expected {}) last {} (expected {})", post.rps, exp_rps, post.last, exp_last));
            }
        }
        if matches!(site, "claim" | "claimOB" | "compound" | "exit") {
            let (n1, a1) = &i.pays[0];
            if let Some(at) = pre.toks.get(n1) {
                let exp = f_base_reward(a1, &post.rps, &at.rps, &post.dsc);
                let rew = if site == "compound" { &res.tok_amt - sum_pays(&i.pays) } else { res.rew.clone() };
                if rew < *boosted || &rew - boosted != exp {
                    tr.fail("C06", "reward_formula", site, &format!("paid {} (boosted {}) expected base {}", rew, boosted, exp));
                }
            }
        }
        if matches!(site, "enter" | "enterOB") && i.pays.is_empty() {
            if let Some(at) = post.toks.get(&res.tok_nonce) {
                if at.rps != post.rps {
                    tr.fail("C06", "no_retro_entry", site, &format!("new position index {} != current index {}", at.rps, post.rps));
                }
            }
        }
        if l.paid_base > l.base_budget {
            tr.fail("C06", "total_base_bound", site, &format!("base paid {} > base budget {}", l.paid_base, l.base_budget));
        }
        // ---------------------------------------------------------------- C07
        {
            let mut tot = BigUint::zero();
            for u in &post.users {
                for h in u.hold.values() {
                    tot += h;
                }
            }
            if tot != post.sup {
                tr.fail("C07", "supply_eq_sum", site, &format!("supply={} sum of positions={}", post.sup, tot));
            }
            for (k, u) in post.users.iter().enumerate() {
                let mut own = BigUint::zero();
                for (n, a) in &post.toks {
                    if a.owner == k as u64 + 1 {
                        own += post.outstanding(*n);
                    }
                }
                if own != u.total {
                    tr.fail("C07", "owner_totals", site, &format!("u{} total={} positions owned={}", k + 1, u.total, own));
                }
            }
            for (n, a) in &pre.toks {
                if let Some(b) = post.toks.get(n) {
                    if a != b {
                        tr.fail("C07", "split_index_unchanged", site, &format!("attributes of nonce {} changed", n));
                    }
                }
            }
        }
        if matches!(site, "enter" | "enterOB" | "claim" | "claimOB" | "compound" | "merge") {
            // expected attributes of the created token, recomputed from the inputs
            let mut parts: Vec<Attr> = vec![];
            let mut missing = false;
            for (n, a) in &i.pays {
                match pre.toks.get(n) {
                    Some(at) => {
                        let comp = if *a == at.amt { at.comp.clone() } else { &at.comp * a / &at.amt };
                        parts.push(Attr { rps: at.rps.clone(), epoch: at.epoch, comp, amt: a.clone(), owner: at.owner });
                    }
                    None => missing = true,
                }
            }
            if !missing {
                let reward = if site == "compound" { &res.tok_amt - sum_pays(&i.pays) } else { BigUint::zero() };
                let owner = if site == "claimOB" { parts[0].owner } else { i.orig };
                let mut base = match site {
                    "enter" | "enterOB" => Attr { rps: post.rps.clone(), epoch: self.epoch, comp: BigUint::zero(), amt: i.enter_amt.clone(), owner },
                    "merge" => parts.remove(0),
                    "compound" => {
                        let p = parts.remove(0);
                        Attr { rps: post.rps.clone(), epoch: self.epoch, comp: &p.comp + &reward, amt: &p.amt + &reward, owner }
                    }
                    _ => {
                        let p = parts.remove(0);
                        Attr { rps: post.rps.clone(), epoch: p.epoch, comp: p.comp, amt: p.amt, owner }
                    }
                };
                base.owner = owner;
                let mut wsum = &base.rps * &base.amt;
                for p in &parts {
                    wsum += &p.rps * &p.amt;
                    base = Attr {
                        rps: f_wavg_up(&base.rps, &base.amt, &p.rps, &p.amt),
                        epoch: base.epoch.max(p.epoch),
                        comp: &base.comp + &p.comp,
                        amt: &base.amt + &p.amt,
                        owner,
                    };
                }
                match post.toks.get(&res.tok_nonce) {
                    Some(got) => {
                        if got.amt != base.amt || got.comp != base.comp || res.tok_amt != base.amt {
                            tr.fail("C07", "merge_amounts", site, &format!("got amt={} comp={} expected amt={} comp={}", got.amt, got.comp, base.amt, base.comp));
                        }
                        if got.rps != base.rps {
                            tr.fail("C07", "merge_index_ceil", site, &format!("got index {} expected {}", got.rps, base.rps));
                        }
                        if &got.rps * &got.amt < wsum {
                            tr.fail("C07", "merge_no_gain", site, &format!("index {} * {} < weighted sum {}", got.rps, got.amt, wsum));
                        }
                        if got.owner != owner || got.epoch != base.epoch {
                            tr.fail("C07", "merge_owner_epoch", site, &format!("owner {} epoch {} expected {} {}", got.owner, got.epoch, owner, base.epoch));
                        }
                        if !parts.is_empty() {
                            tr.count("branch.merge_parts");
                            if &got.rps * &got.amt != wsum {
                                tr.count("branch.merge_ceil_gt_floor");
                            }
                        }
                    }
                    None => tr.fail("C07", "merge_amounts", site, "created token not found"),
                }
            }
        }
        if site == "exit" {
            let (n, a) = &i.pays[0];
            if let Some(at) = pre.toks.get(n) {
                let pen = if self.epoch - at.epoch < pre.minep { a * BigUint::from(pre.pen) / BigUint::from(10_000u32) } else { BigUint::zero() };
                if res.farming != a - &pen || &pre.sup - a != post.sup {
                    tr.fail("C07", "split_principal", site, &format!("exit {} paid {} expected {} supply {} -> {}", a, res.farming, a - &pen, pre.sup, post.sup));
                }
                if !pen.is_zero() {
                    tr.count("branch.exit_penalty");
                }
                if *a != at.amt {
                    tr.count("branch.partial_payment");
                }
            }
        }
        // ---------------------------------------------------------------- C11
        {
            let exp_total = expected_b.iter().fold(BigUint::zero(), |a, x| a + &x.1);
            let claims = matches!(site, "enter" | "enterOB" | "claim" | "claimOB" | "compound" | "exit" | "merge" | "claimBoosted");
            if claims {
                if *boosted != exp_total {
                    tr.fail("C11", "boosted_formula", site, &format!("boosted paid {} expected {} ({:?})", boosted, exp_total, expected_b));
                }
                let d = boosted_deltas(pre, post);
                for (w, amt) in expected_b {
                    if d.get(w) != Some(amt) {
                        tr.fail("C11", "boosted_formula_week", site, &format!("week {} paid {:?} expected {}", w, d.get(w), amt));
                    }
                }
                if matches!(site, "enter" | "enterOB" | "merge" | "claimBoosted") && res.rew != *boosted {
                    tr.fail("C11", "boosted_payment", site, &format!("returned {} pools lost {}", res.rew, boosted));
                }
                if !boosted.is_zero() {
                    tr.count("branch.boosted_paid");
                    if expected_b.len() > 1 {
                        tr.count("branch.boosted_multi_week");
                    }
                }
            } else if site != "collect" && !boosted.is_zero() {
                tr.fail("C11", "boosted_formula", site, &format!("pools lost {} in an op that pays nothing", boosted));
            }
            // F of the formula is "the farm's position": every user operation that runs the boosted-yields claim records
            // the farm-token supply it leaves behind as this week's F (otherwise the week is later divided by a stale or
            // zero F and its pool is paid wrongly or not at all)
            if matches!(site, "enter" | "enterOB" | "claim" | "claimOB" | "compound" | "exit" | "claimBoosted") {
                let f = post.wk(post.week).fsupply;
                if f != post.sup {
                    tr.fail("C11", "farm_supply_recorded", site, &format!("week {}: recorded farm supply {} but the farm-token supply is {}", post.week, f, post.sup));
                }
            }
            for ((u, w), c) in &l.paid_uw {
                if *c > 1 {
                    tr.fail("C11", "paid_once", site, &format!("u{} was paid {} times for week {}", u, c, w));
                }
            }
            for (w, r) in &l.r_w {
                let paid = l.paid_w.get(w).cloned().unwrap_or_default();
                let coll = l.collected_w.get(w).cloned().unwrap_or_default();
                let rem = post.wk(*w).remaining;
                if &paid + &coll + &rem != *r {
                    tr.fail("C11", "week_pool_bound", site, &format!("week {} pool {} paid {} collected {} remaining {}", w, r, paid, coll, rem));
                }
                let cut = l.cut_w.get(w).cloned().unwrap_or_default();
                if *r != cut {
                    tr.fail("C11", "week_pool_is_cut", site, &format!("week {} pool {} accumulated cut {}", w, r, cut));
                }
            }
            if site == "collect" {
                let mut exp_und = pre.und.clone();
                let mut exp_lc = pre.lc;
                if post.week > 5 {
                    let last = post.week - 5;
                    if pre.lc + 1 <= last {
                        for w in pre.lc + 1..=last {
                            exp_und += pre.wk(w).remaining;
                            if !post.wk(w).remaining.is_zero() {
                                tr.fail("C11", "undistributed_once", site, &format!("week {} not emptied", w));
                            }
                        }
                        exp_lc = last;
                    }
                    for w in (last + 1)..=post.week {
                        if pre.wk(w).remaining != post.wk(w).remaining {
                            tr.fail("C11", "undistributed_once", site, &format!("week {} inside the claim window was collected", w));
                        }
                    }
                }
                if post.und != exp_und || post.lc != exp_lc {
                    tr.fail("C11", "undistributed_once", site, &format!("undistributed {} (expected {}) lastCollect {} (expected {})", post.und, exp_und, post.lc, exp_lc));
                }
                if post.und != pre.und {
                    tr.count("branch.collect_moved");
                }
            } else if post.und != pre.und || post.lc != pre.lc {
                tr.fail("C11", "undistributed_once", site, "undistributed counter changed outside collect");
            }
            // stranded pools: accumulated but never frozen, already outside the claim window (information)
            if post.week > 5 {
                for w in 1..=(post.week - 5) {
                    if !post.wk(w).accum.is_zero() {
                        tr.count("info.stranded_accumulated_week");
                        break;
                    }
                }
            }
        }
    }
}
