//! The deployed world: real `farm` (kind=farm) or real `farm-with-locked-rewards` (kind=fwlr), with
//! energy-factory-mock (farm) / the real energy factory (fwlr) and a real permissions-hub —
//! set up the way the repo's own tests do (dex/farm/tests/farm_setup, dex/farm-with-locked-rewards/tests).

#![allow(deprecated)]

use super::types::*;
use mxharness::*;
use num_bigint::{BigInt, BigUint};
use num_traits::{Signed, Zero};
use std::collections::BTreeMap;

use multiversx_sc::codec::multi_types::OptionalValue;
use multiversx_sc::storage::mappers::{SingleValueMapper, StorageMapper, StorageTokenWrapper};
use multiversx_sc::storage::StorageKey;
use multiversx_sc::types::{Address, EsdtLocalRole, ManagedAddress, ManagedBuffer, MultiValueEncoded};
use multiversx_sc_scenario::{
    managed_address, managed_token_id, rust_biguint, whitebox_legacy::*, DebugApi,
};

use config::ConfigModule as _;
use energy_factory::energy::EnergyModule as _;
use energy_factory::SimpleLockEnergy as _;
use energy_factory_mock::EnergyFactoryMock as _;
use energy_query::{Energy, EnergyQueryModule as _};
use farm::exit_penalty::ExitPenaltyModule as _;
use farm::external_interaction::ExternalInteractionsModule as _;
use farm::Farm as _;
use farm_boosted_yields::boosted_yields_factors::BoostedYieldsFactorsModule as _;
use farm_boosted_yields::FarmBoostedYieldsModule as _;
use farm_token::FarmTokenModule as _;
use farm_with_locked_rewards::external_interaction::ExternalInteractionsModule as _;
use farm_with_locked_rewards::Farm as _;
use locking_module::lock_with_energy_module::LockWithEnergyModule as _;
use multiversx_sc_modules::pause::PauseModule as _;
use pausable::{PausableModule as _, State};
use permissions_hub::PermissionsHub as _;
use permissions_hub_module::PermissionsHubModule as _;
use rewards::RewardsModule as _;
use sc_whitelist_module::SCWhitelistModule as _;
use simple_lock::locked_token::LockedTokenModule as _;
use week_timekeeping::WeekTimekeepingModule as _;
use weekly_rewards_splitting::global_info::WeeklyRewardsGlobalInfo as _;
use weekly_rewards_splitting::locked_token_buckets::WeeklyRewardsLockedTokenBucketsModule as _;
use weekly_rewards_splitting::update_claim_progress_energy::UpdateClaimProgressEnergyModule as _;

pub const REWARD: &[u8] = b"REW-123456";
pub const FARMING: &[u8] = b"LPTOK-123456";
pub const FARM: &[u8] = b"FARM-123456";
pub const LOCKED: &[u8] = b"LOCKED-123456";
pub const LEGACY: &[u8] = b"LEGACY-123456";
pub const OTHER: &[u8] = b"OTHER-123456";
pub const OWNER_ID: u64 = 100;
pub const LOCK_EPOCHS: u64 = 360;

pub type FarmObj = farm::ContractObj<DebugApi>;
pub type FarmW = ContractObjWrapper<FarmObj, fn() -> FarmObj>;
pub type FwlrObj = farm_with_locked_rewards::ContractObj<DebugApi>;
pub type FwlrW = ContractObjWrapper<FwlrObj, fn() -> FwlrObj>;
pub type MockObj = energy_factory_mock::ContractObj<DebugApi>;
pub type MockW = ContractObjWrapper<MockObj, fn() -> MockObj>;
pub type EfObj = energy_factory::ContractObj<DebugApi>;
pub type EfW = ContractObjWrapper<EfObj, fn() -> EfObj>;
pub type HubObj = permissions_hub::ContractObj<DebugApi>;
pub type HubW = ContractObjWrapper<HubObj, fn() -> HubObj>;

fn farm_builder() -> FarmObj {
    farm::contract_obj()
}
fn fwlr_builder() -> FwlrObj {
    farm_with_locked_rewards::contract_obj()
}
fn mock_builder() -> MockObj {
    energy_factory_mock::contract_obj()
}
fn ef_builder() -> EfObj {
    energy_factory::contract_obj()
}
fn hub_builder() -> HubObj {
    permissions_hub::contract_obj()
}

pub fn to_big(x: &multiversx_sc::types::BigUint<DebugApi>) -> BigUint {
    BigUint::from_bytes_be(x.to_bytes_be().as_slice())
}
pub fn to_bigint(x: &multiversx_sc::types::BigInt<DebugApi>) -> BigInt {
    bigint_from(to_big(&x.magnitude()), *x < 0)
}
pub fn mbig(x: &BigUint) -> multiversx_sc::types::BigUint<DebugApi> {
    multiversx_sc::types::BigUint::from_bytes_be(&x.to_bytes_be())
}
pub fn mbigint(x: &BigInt) -> multiversx_sc::types::BigInt<DebugApi> {
    let m = multiversx_sc::types::BigInt::from(mbig(x.magnitude()));
    if x.is_negative() {
        m * multiversx_sc::types::BigInt::from(-1i64)
    } else {
        m
    }
}

#[derive(Clone, Copy, PartialEq, Debug)]
pub enum Kind {
    Farm,
    Fwlr,
}

/// result of one executed op
#[derive(Clone, Debug, Default)]
pub struct OpRes {
    pub ok: bool,
    pub msg: String,
    pub tok_nonce: u64,
    pub tok_amt: BigUint,
    pub rew: BigUint,
    pub rew_nonce: u64,
    pub farming: BigUint,
}

pub struct FarmWorld {
    pub b: BlockchainStateWrapper,
    pub kind: Kind,
    pub same: bool,
    pub header: String,
    pub owner: Address,
    pub users: Vec<Address>,
    pub farm: Option<FarmW>,
    pub fwlr: Option<FwlrW>,
    pub mock: Option<MockW>,
    pub ef: Option<EfW>,
    pub hub: HubW,
    pub block: u64,
    pub epoch: u64,
    pub epoch0: u64,
    pub max_nonce: u64,
    /// highest LOCKED-token nonce seen as a reward payment (fwlr: the wallets' LOCKED balances are summed over 1..=max_lk+2)
    pub max_lk: u64,
    /// executed op texts (for the twin world of state-settling views)
    pub log: Vec<String>,
    pub led: super::oracle::Ledger,
    pub pending: Vec<String>,
    pub hub_pairs: Vec<(u64, u64)>,
    /// branch counters noted while evaluating oracles (flushed into the trace by `exec`)
    pub hits: Vec<String>,
    /// (user, nonce, amount, value) of the latest successful `calcRewards` view (C20 quote = execution)
    pub last_quote: Option<(u64, u64, BigUint, BigUint)>,
}

/// run `$body` as a transaction on whichever farm contract this world deployed
macro_rules! farm_call {
    ($self:ident, $caller:expr, $transfers:expr, |$sc:ident| $body:block) => {{
        let zero = rust_biguint!(0);
        let caller: Address = $caller;
        let transfers: Vec<TxTokenTransfer> = $transfers;
        match $self.kind {
            Kind::Farm => {
                let w = $self.farm.as_ref().unwrap();
                if transfers.is_empty() {
                    $self.b.execute_tx(&caller, w, &zero, |$sc| $body)
                } else {
                    $self.b.execute_esdt_multi_transfer(&caller, w, &transfers, |$sc| $body)
                }
            }
            Kind::Fwlr => {
                let w = $self.fwlr.as_ref().unwrap();
                if transfers.is_empty() {
                    $self.b.execute_tx(&caller, w, &zero, |$sc| $body)
                } else {
                    $self.b.execute_esdt_multi_transfer(&caller, w, &transfers, |$sc| $body)
                }
            }
        }
    }};
}

macro_rules! farm_query {
    ($self:ident, |$sc:ident| $body:block) => {{
        match $self.kind {
            Kind::Farm => {
                let w = $self.farm.as_ref().unwrap();
                $self.b.execute_query(w, |$sc| $body)
            }
            Kind::Fwlr => {
                let w = $self.fwlr.as_ref().unwrap();
                $self.b.execute_query(w, |$sc| $body)
            }
        }
    }};
}

macro_rules! farm_init {
    ($b:ident, $owner:ident, $w:ident, $rew:expr, $farming:expr, $dsc:ident, $pb:ident, $produce:ident, $ef_addr:ident, $hub_addr:ident, |$sc:ident| $extra:block) => {{
        let zero = rust_biguint!(0);
        $b.execute_tx(&$owner, &$w, &zero, |$sc| {
            $sc.init(
                managed_token_id!($rew),
                managed_token_id!($farming),
                mbig(&$dsc),
                managed_address!(&Address::zero()),
                managed_address!(&$owner),
                MultiValueEncoded::new(),
            );
            $sc.farm_token().set_token_id(managed_token_id!(FARM));
            $sc.per_block_reward_amount().set(&mbig(&$pb));
            $sc.state().set(State::Active);
            $sc.produce_rewards_enabled().set($produce);
            $sc.set_energy_factory_address(managed_address!(&$ef_addr));
            $sc.set_permissions_hub_address(managed_address!(&$hub_addr));
            $extra
        })
        .assert_ok();
    }};
}

impl FarmWorld {
    pub fn new(header: &str) -> Self {
        let kind = if kv(header, "kind") == Some("fwlr") { Kind::Fwlr } else { Kind::Farm };
        let same = kv_u64(header, "same", 0) == 1 && kind == Kind::Farm;
        let dsc = big(kv(header, "dsc").unwrap_or("1000000000000"));
        let pb = big(kv(header, "pb").unwrap_or("1000"));
        let produce = kv_u64(header, "produce", 1) == 1;
        let nusers = kv_u64(header, "users", 3);
        let epoch0 = kv_u64(header, "epoch0", 0);
        let zero = rust_biguint!(0);
        let _ = DebugApi::dummy();
        let mut b = BlockchainStateWrapper::new();
        let owner = b.create_user_account(&zero);
        let mut users = vec![];
        for _ in 0..nusers {
            users.push(b.create_user_account(&zero));
        }
        b.set_block_epoch(epoch0);
        let hub: HubW = b.create_sc_account(&zero, Some(&owner), hub_builder as fn() -> HubObj, "permissions_hub.wasm");
        b.execute_tx(&owner, &hub, &zero, |sc| sc.init()).assert_ok();
        let hub_addr = hub.address_ref().clone();
        let farming: &[u8] = if same { REWARD } else { FARMING };
        let (mut farm, mut fwlr, mut mock, mut ef) = (None, None, None, None);
        let farm_addr;
        match kind {
            Kind::Farm => {
                let w: FarmW = b.create_sc_account(&zero, Some(&owner), farm_builder as fn() -> FarmObj, "farm.wasm");
                let m: MockW = b.create_sc_account(&zero, Some(&owner), mock_builder as fn() -> MockObj, "energy_factory.wasm");
                b.execute_tx(&owner, &m, &zero, |sc| sc.init()).assert_ok();
                let ef_addr = m.address_ref().clone();
                farm_init!(b, owner, w, REWARD, farming, dsc, pb, produce, ef_addr, hub_addr, |sc| {});
                farm_addr = w.address_ref().clone();
                farm = Some(w);
                mock = Some(m);
            }
            Kind::Fwlr => {
                let w: FwlrW = b.create_sc_account(&zero, Some(&owner), fwlr_builder as fn() -> FwlrObj, "farm-with-locked-rewards.wasm");
                let e: EfW = b.create_sc_account(&zero, Some(&owner), ef_builder as fn() -> EfObj, "energy_factory.wasm");
                let ef_addr = e.address_ref().clone();
                b.execute_tx(&owner, &e, &zero, |sc| {
                    let mut lock_options = MultiValueEncoded::new();
                    for (o, p) in [(360u64, 4_000u64), (720, 6_000), (1440, 8_000)] {
                        lock_options.push((o, p).into());
                    }
                    sc.init(
                        managed_token_id!(REWARD),
                        managed_token_id!(LEGACY),
                        managed_address!(&hub_addr),
                        0,
                        lock_options,
                    );
                    sc.locked_token().set_token_id(managed_token_id!(LOCKED));
                    sc.set_paused(false);
                })
                .assert_ok();
                farm_init!(b, owner, w, REWARD, farming, dsc, pb, produce, ef_addr, hub_addr, |sc| {
                    sc.set_locking_sc_address(managed_address!(&ef_addr));
                    sc.set_lock_epochs(LOCK_EPOCHS);
                });
                farm_addr = w.address_ref().clone();
                b.set_esdt_local_roles(
                    &ef_addr,
                    LOCKED,
                    &[EsdtLocalRole::NftCreate, EsdtLocalRole::NftAddQuantity, EsdtLocalRole::NftBurn, EsdtLocalRole::Transfer],
                );
                b.execute_tx(&owner, &e, &zero, |sc| {
                    sc.sc_whitelist_addresses().add(&managed_address!(&farm_addr));
                })
                .assert_ok();
                fwlr = Some(w);
                ef = Some(e);
            }
        }
        b.set_esdt_local_roles(
            &farm_addr,
            FARM,
            &[EsdtLocalRole::NftCreate, EsdtLocalRole::NftAddQuantity, EsdtLocalRole::NftBurn],
        );
        if same {
            b.set_esdt_local_roles(&farm_addr, REWARD, &[EsdtLocalRole::Mint, EsdtLocalRole::Burn]);
        } else {
            b.set_esdt_local_roles(&farm_addr, FARMING, &[EsdtLocalRole::Burn]);
            b.set_esdt_local_roles(&farm_addr, REWARD, &[EsdtLocalRole::Mint]);
        }
        FarmWorld {
            b, kind, same, header: header.to_string(), owner, users, farm, fwlr, mock, ef, hub,
            block: 0, epoch: epoch0, epoch0, max_nonce: 0, max_lk: 0, log: vec![],
            led: super::oracle::Ledger::default(), pending: vec![], hub_pairs: vec![], hits: vec![], last_quote: None,
        }
    }

    pub fn farming_token(&self) -> &'static [u8] {
        if self.same { REWARD } else { FARMING }
    }
    pub fn farm_addr(&self) -> Address {
        match self.kind {
            Kind::Farm => self.farm.as_ref().unwrap().address_ref().clone(),
            Kind::Fwlr => self.fwlr.as_ref().unwrap().address_ref().clone(),
        }
    }
    pub fn addr(&self, id: u64) -> Address {
        if id == OWNER_ID {
            self.owner.clone()
        } else if id >= 1 && (id as usize) <= self.users.len() {
            self.users[(id - 1) as usize].clone()
        } else {
            // unknown ids map to a fixed foreign address
            Address::from(&[9u8; 32])
        }
    }
    pub fn id_of(&self, raw: &[u8; 32]) -> u64 {
        for (i, u) in self.users.iter().enumerate() {
            if u.as_bytes() == raw {
                return i as u64 + 1;
            }
        }
        if self.owner.as_bytes() == raw {
            return OWNER_ID;
        }
        0
    }

    /// top up `who` so that it can pay `amount` of the farming token (keeps op texts executable
    /// whatever prefix of the history was dropped by shrinking)
    pub fn ensure_farming(&mut self, who: u64, amount: &BigUint) {
        if who == 0 || (who != OWNER_ID && who as usize > self.users.len()) {
            return;
        }
        let a = self.addr(who);
        let t = self.farming_token();
        let have = self.b.get_esdt_balance(&a, t, 0);
        if &have < amount {
            self.b.set_esdt_balance(&a, t, amount);
        }
    }

    // ------------------------------------------------------------------ snapshot ---------
    pub fn snap(&mut self) -> Snap {
        let mut s = Snap::default();
        let user_addrs = self.users.clone();
        let mut cfg_raw: Vec<u8> = vec![];
        let mut users: Vec<UserInfo> = vec![UserInfo::default(); user_addrs.len()];
        let mut weeks: BTreeMap<usize, WeekInfo> = BTreeMap::new();
        let mut sc_wl = vec![false; user_addrs.len()];
        {
            let s = &mut s;
            let users = &mut users;
            let weeks = &mut weeks;
            let cfg_raw = &mut cfg_raw;
            let sc_wl = &mut sc_wl;
            farm_query!(self, |sc| {
                s.rps = to_big(&sc.reward_per_share().get());
                s.res = to_big(&sc.reward_reserve().get());
                s.sup = to_big(&sc.farm_token_supply().get());
                s.last = sc.last_reward_block_nonce().get();
                s.pb = to_big(&sc.per_block_reward_amount().get());
                s.prod = sc.produce_rewards_enabled().get();
                s.pct = sc.boosted_yields_rewards_percentage().get();
                s.act = sc.state().get() == State::Active;
                s.pen = sc.penalty_percent().get();
                s.minep = sc.minimum_farming_epochs().get();
                s.dsc = to_big(&sc.division_safety_constant().get());
                s.week = sc.get_current_week();
                s.und = to_big(&sc.undistributed_boosted_rewards().get());
                s.lc = sc.last_undistributed_boosted_rewards_collect_week().get();
                s.g_last = sc.last_global_update_week().get();
                s.g_first = sc.first_bucket_id().get();
                let raw = SingleValueMapper::<DebugApi, ManagedBuffer<DebugApi>>::new(StorageKey::new(b"boostedYieldsConfig")).get();
                *cfg_raw = raw.to_boxed_bytes().into_vec();
                for w in 1..=s.week {
                    let tr = sc.total_rewards_for_week(w);
                    let trewards = if tr.is_empty() {
                        None
                    } else {
                        Some(tr.get().iter().map(|p| to_big(&p.amount)).collect::<Vec<_>>())
                    };
                    weeks.insert(w, WeekInfo {
                        accum: to_big(&sc.accumulated_rewards_for_week(w).get()),
                        remaining: to_big(&sc.remaining_boosted_rewards_to_distribute(w).get()),
                        fsupply: to_big(&sc.farm_supply_for_week(w).get()),
                        tenergy: to_big(&sc.total_energy_for_week(w).get()),
                        tlocked: to_big(&sc.total_locked_tokens_for_week(w).get()),
                        trewards,
                    });
                }
                for (i, a) in user_addrs.iter().enumerate() {
                    let ma = managed_address!(a);
                    users[i].total = to_big(&sc.user_total_farm_position(&ma).get());
                    let pm = sc.current_claim_progress(&ma);
                    if !pm.is_empty() {
                        let p = pm.get();
                        users[i].progress = Some((p.week, En {
                            amount: to_bigint(p.energy.get_energy_amount_raw()),
                            last: p.energy.get_last_update_epoch(),
                            locked: to_big(p.energy.get_total_locked_tokens()),
                        }));
                    }
                    sc_wl[i] = sc.sc_whitelist_addresses().contains(&ma);
                }
            })
            .assert_ok();
        }
        s.cfg = decode_cfg(&cfg_raw);
        s.weeks = weeks;
        s.sc_wl = sc_wl;
        // factory entries
        {
            let users = &mut users;
            let read = |e: Energy<DebugApi>| En {
                amount: to_bigint(e.get_energy_amount_raw()),
                last: e.get_last_update_epoch(),
                locked: to_big(e.get_total_locked_tokens()),
            };
            match self.kind {
                Kind::Farm => {
                    self.b.execute_query(self.mock.as_ref().unwrap(), |sc| {
                        for (i, a) in user_addrs.iter().enumerate() {
                            let m = sc.user_energy(&managed_address!(a));
                            if !m.is_empty() {
                                users[i].energy = Some(read(m.get()));
                            }
                        }
                    }).assert_ok();
                }
                Kind::Fwlr => {
                    self.b.execute_query(self.ef.as_ref().unwrap(), |sc| {
                        for (i, a) in user_addrs.iter().enumerate() {
                            let m = sc.user_energy(&managed_address!(a));
                            if !m.is_empty() {
                                users[i].energy = Some(read(m.get()));
                            }
                        }
                    }).assert_ok();
                }
            }
        }
        let fa = self.farm_addr();
        let ft = self.farming_token();
        s.bal_f = self.b.get_esdt_balance(&fa, ft, 0);
        s.bal_r = self.b.get_esdt_balance(&fa, REWARD, 0);
        // holdings and attributes (scan a little beyond the last nonce we know of)
        let top = self.max_nonce + 2;
        for (i, a) in user_addrs.iter().enumerate() {
            users[i].farming = self.b.get_esdt_balance(a, ft, 0);
            // reward wallet: the reward token itself (farm) / every LOCKED token the energy factory minted for the account (fwlr)
            users[i].rew = match self.kind {
                Kind::Farm => self.b.get_esdt_balance(a, REWARD, 0),
                Kind::Fwlr => {
                    let mut t = BigUint::zero();
                    for n in 1..=(self.max_lk + 2) {
                        t += self.b.get_esdt_balance(a, LOCKED, n);
                    }
                    t
                }
            };
            for n in 1..=top {
                let h = self.b.get_esdt_balance(a, FARM, n);
                if !h.is_zero() {
                    users[i].hold.insert(n, h);
                    if !s.toks.contains_key(&n) {
                        if let Some(raw) = self.b.get_nft_attributes::<Vec<u8>>(a, FARM, n) {
                            if let Some((rps, epoch, comp, amt, o)) = decode_attr(&raw) {
                                let owner = self.id_of(&o);
                                s.toks.insert(n, Attr { rps, epoch, comp, amt, owner });
                            }
                        }
                    }
                    if n > self.max_nonce {
                        self.max_nonce = n;
                    }
                }
            }
        }
        s.users = users;
        s
    }

    pub fn state_line(&self, s: &Snap) -> String {
        let b01 = |b: bool| if b { "1" } else { "0" };
        let cfg = match &s.cfg {
            None => "none".to_string(),
            Some((w, fs)) => format!("{}:{}", w, fs.iter().map(|f| f.show()).collect::<Vec<_>>().join("/")),
        };
        let lo = if s.week > 6 { s.week - 6 } else { 1 };
        let mut wks = vec![];
        for w in lo..=s.week {
            let i = s.wk(w);
            let tr = match &i.trewards {
                None => "-".to_string(),
                Some(v) if v.is_empty() => "-".to_string(),
                Some(v) => v.iter().map(|x| x.to_string()).collect::<Vec<_>>().join(","),
            };
            wks.push(format!("{}:{},{},{},{},{},{}", w, i.accum, i.remaining, i.fsupply, i.tenergy, i.tlocked, tr));
        }
        let mut us = vec![];
        for (i, u) in s.users.iter().enumerate() {
            let p = match &u.progress {
                None => "-".to_string(),
                Some((w, e)) => format!("{},{}", w, e.show()),
            };
            let e = match &u.energy {
                None => "-".to_string(),
                Some(e) => e.show(),
            };
            let h = if u.hold.is_empty() {
                "-".to_string()
            } else {
                u.hold.iter().map(|(n, a)| format!("{}:{}", n, a)).collect::<Vec<_>>().join(",")
            };
            us.push(format!("u{}={};{};{};{}", i + 1, u.total, p, e, h));
        }
        let ts: Vec<String> = s.toks.iter()
            .map(|(n, a)| format!("n{}={},{},{},{},{}", n, a.rps, a.epoch, a.comp, a.amt, a.owner))
            .collect();
        let l = &self.led;
        // the harness's own per-week ledgers (built in `ledger_update` from the real contract's observable deltas only), ALL
        // weeks, zero entries dropped, weeks ascending; the model driver prints its ghost fields `cutW` / `paidW` / `collW`
        // in the same format, so every run compares them.  (`r_w`, the pool of a week when it was frozen, has no model
        // counterpart to print: `totalRewardsForWeek(w)` is cleared by the weekly update of week w+5 in the contract and in
        // the model alike; the oracle `week_pool_is_cut` ties it to `cut_w`, which is compared here.)
        let wmap = |m: &BTreeMap<usize, BigUint>| -> String {
            let v: Vec<String> = m.iter().filter(|(_, a)| !a.is_zero()).map(|(w, a)| format!("{}:{}", w, a)).collect();
            if v.is_empty() { "-".to_string() } else { v.join(",") }
        };
        format!(
            "rps={} res={} sup={} last={} pb={} prod={} pct={} act={} pen={},{} bal={},{} blk={} ep={} wk={} \
             gen={} paid={} pbase={} pboost={} bud={} burn={} und={} lc={} cfg={} g={},{} wks={} U {} T {} \
             led=cut:{};paid:{};coll:{} rw={}",
            s.rps, s.res, s.sup, s.last, s.pb, b01(s.prod), s.pct, b01(s.act), s.pen, s.minep, s.bal_f, s.bal_r,
            self.block, self.epoch, s.week, l.generated, l.paid, l.paid_base, l.paid_boosted, l.base_budget, l.burned,
            s.und, s.lc, cfg, s.g_last, s.g_first, wks.join(" "), us.join(" "), ts.join(" "),
            wmap(&l.cut_w), wmap(&l.paid_w), wmap(&l.collected_w),
            // every user's REAL wallet: farming-token balance, reward-token balance (farm: REWARD; fwlr: Σ LOCKED); users start
            // with nothing and are funded deterministically by `ensure_farming`, so absolute balances are comparable
            s.users.iter().map(|u| format!("{},{}", u.farming, u.rew)).collect::<Vec<_>>().join(";")
        )
    }

    // ------------------------------------------------------------------ execution --------
    fn pay_vec(&self, farming: Option<&BigUint>, pays: &[(u64, BigUint)]) -> Vec<TxTokenTransfer> {
        let mut v = vec![];
        if let Some(a) = farming {
            v.push(TxTokenTransfer { token_identifier: self.farming_token().to_vec(), nonce: 0, value: a.clone() });
        }
        for (n, a) in pays {
            v.push(TxTokenTransfer { token_identifier: FARM.to_vec(), nonce: *n, value: a.clone() });
        }
        v
    }

    fn opt_addr(&self, o: Option<u64>) -> Option<Address> {
        o.map(|x| self.addr(x))
    }

    /// execute one op text on the real contracts (no trace, no oracle)
    pub fn run_op(&mut self, text: &str) -> OpRes {
        let w: Vec<&str> = text.split_whitespace().collect();
        let mut res = OpRes::default();
        let zero = rust_biguint!(0);
        macro_rules! fin {
            ($r:expr) => {{
                let r = $r;
                res.ok = r.result_status == 0;
                res.msg = r.result_message.clone();
            }};
        }
        macro_rules! opt_arg {
            ($o:expr) => {
                match &$o {
                    Some(a) => OptionalValue::Some(managed_address!(a)),
                    None => OptionalValue::None,
                }
            };
        }
        // only accounts of the world act (the model rejects unknown callers the same way)
        if matches!(w[0], "enter" | "enterOB" | "claim" | "claimOB" | "compound" | "exit" | "merge" | "claimBoosted") {
            let c: u64 = w[1].parse().unwrap_or(0);
            if c < 1 || c as usize > self.users.len() {
                self.log.push(text.to_string());
                return res;
            }
        }
        match w[0] {
            "enter" => {
                let c: u64 = w[1].parse().unwrap();
                let orig = self.opt_addr(parse_opt(w[2]));
                let amt = big(w[3]);
                let pays: Vec<(u64, BigUint)> = w[4..].iter().map(|p| parse_pay(p)).collect();
                self.ensure_farming(c, &amt);
                let tv = self.pay_vec(Some(&amt), &pays);
                let out = &mut res;
                let r = farm_call!(self, self.addr(c), tv, |sc| {
                    let (t, bo) = sc.enter_farm_endpoint(opt_arg!(orig)).into_tuple();
                    out.tok_nonce = t.token_nonce;
                    out.tok_amt = to_big(&t.amount);
                    out.rew = to_big(&bo.amount);
                    out.rew_nonce = bo.token_nonce;
                });
                fin!(r);
            }
            "enterOB" => {
                let c: u64 = w[1].parse().unwrap();
                let user = self.addr(w[2].parse().unwrap());
                let amt = big(w[3]);
                let pays: Vec<(u64, BigUint)> = w[4..].iter().map(|p| parse_pay(p)).collect();
                self.ensure_farming(c, &amt);
                let tv = self.pay_vec(Some(&amt), &pays);
                let out = &mut res;
                let r = farm_call!(self, self.addr(c), tv, |sc| {
                    let (t, bo) = sc.enter_farm_on_behalf(managed_address!(&user)).into_tuple();
                    out.tok_nonce = t.token_nonce;
                    out.tok_amt = to_big(&t.amount);
                    out.rew = to_big(&bo.amount);
                    out.rew_nonce = bo.token_nonce;
                });
                fin!(r);
            }
            "claim" => {
                let c: u64 = w[1].parse().unwrap();
                let orig = self.opt_addr(parse_opt(w[2]));
                let pays: Vec<(u64, BigUint)> = w[3..].iter().map(|p| parse_pay(p)).collect();
                let tv = self.pay_vec(None, &pays);
                let out = &mut res;
                let r = farm_call!(self, self.addr(c), tv, |sc| {
                    let (t, rw) = sc.claim_rewards_endpoint(opt_arg!(orig)).into_tuple();
                    out.tok_nonce = t.token_nonce;
                    out.tok_amt = to_big(&t.amount);
                    out.rew = to_big(&rw.amount);
                    out.rew_nonce = rw.token_nonce;
                });
                fin!(r);
            }
            "claimOB" => {
                let c: u64 = w[1].parse().unwrap();
                let pays: Vec<(u64, BigUint)> = w[2..].iter().map(|p| parse_pay(p)).collect();
                let tv = self.pay_vec(None, &pays);
                let out = &mut res;
                let r = farm_call!(self, self.addr(c), tv, |sc| {
                    let (t, rw) = sc.claim_rewards_on_behalf().into_tuple();
                    out.tok_nonce = t.token_nonce;
                    out.tok_amt = to_big(&t.amount);
                    out.rew = to_big(&rw.amount);
                    out.rew_nonce = rw.token_nonce;
                });
                fin!(r);
            }
            "compound" => {
                let c: u64 = w[1].parse().unwrap();
                let orig = self.opt_addr(parse_opt(w[2]));
                let pays: Vec<(u64, BigUint)> = w[3..].iter().map(|p| parse_pay(p)).collect();
                let tv = self.pay_vec(None, &pays);
                if self.kind == Kind::Farm {
                    let out = &mut res;
                    let ca = self.addr(c);
                    let fw = self.farm.as_ref().unwrap();
                    let r = if tv.is_empty() {
                        self.b.execute_tx(&ca, fw, &zero, |sc| {
                            let _ = sc.compound_rewards_endpoint(opt_arg!(orig));
                        })
                    } else {
                        self.b.execute_esdt_multi_transfer(&ca, fw, &tv, |sc| {
                            let t = sc.compound_rewards_endpoint(opt_arg!(orig));
                            out.tok_nonce = t.token_nonce;
                            out.tok_amt = to_big(&t.amount);
                        })
                    };
                    fin!(r);
                } else {
                    res.ok = false;
                    res.msg = "no compoundRewards endpoint".into();
                }
            }
            "exit" => {
                let c: u64 = w[1].parse().unwrap();
                let orig = self.opt_addr(parse_opt(w[2]));
                let pays = vec![parse_pay(w[3])];
                let tv = self.pay_vec(None, &pays);
                let out = &mut res;
                let r = farm_call!(self, self.addr(c), tv, |sc| {
                    let (f, rw) = sc.exit_farm_endpoint(opt_arg!(orig)).into_tuple();
                    out.farming = to_big(&f.amount);
                    out.rew = to_big(&rw.amount);
                    out.rew_nonce = rw.token_nonce;
                });
                fin!(r);
            }
            "merge" => {
                let c: u64 = w[1].parse().unwrap();
                let orig = self.opt_addr(parse_opt(w[2]));
                let pays: Vec<(u64, BigUint)> = w[3..].iter().map(|p| parse_pay(p)).collect();
                let tv = self.pay_vec(None, &pays);
                let out = &mut res;
                let r = farm_call!(self, self.addr(c), tv, |sc| {
                    let (t, bo) = sc.merge_farm_tokens_endpoint(opt_arg!(orig)).into_tuple();
                    out.tok_nonce = t.token_nonce;
                    out.tok_amt = to_big(&t.amount);
                    out.rew = to_big(&bo.amount);
                    out.rew_nonce = bo.token_nonce;
                });
                fin!(r);
            }
            "claimBoosted" => {
                let c: u64 = w[1].parse().unwrap();
                let user = self.opt_addr(parse_opt(w[2]));
                let out = &mut res;
                let r = farm_call!(self, self.addr(c), vec![], |sc| {
                    let p = sc.claim_boosted_rewards(opt_arg!(user));
                    out.rew = to_big(&p.amount);
                    out.rew_nonce = p.token_nonce;
                });
                fin!(r);
            }
            "transfer" => {
                let (src, dst): (u64, u64) = (w[1].parse().unwrap(), w[2].parse().unwrap());
                let n: u64 = w[3].parse().unwrap();
                let a = big(w[4]);
                let (sa, da) = (self.addr(src), self.addr(dst));
                let have = self.b.get_esdt_balance(&sa, FARM, n);
                let known = |x: u64| x >= 1 && (x as usize) <= self.users.len();
                if a.is_zero() || src == dst || have < a || !known(src) || !known(dst) {
                    res.ok = false;
                } else {
                    let raw = self.b.get_nft_attributes::<Vec<u8>>(&sa, FARM, n).unwrap();
                    let dhave = self.b.get_esdt_balance(&da, FARM, n);
                    self.b.set_nft_balance(&sa, FARM, n, &(&have - &a), &raw);
                    self.b.set_nft_balance(&da, FARM, n, &(&dhave + &a), &raw);
                    res.ok = true;
                }
            }
            "setEnergy" => {
                let u = self.addr(w[1].parse().unwrap());
                let amount: BigInt = w[2].parse().unwrap();
                let last: u64 = w[3].parse().unwrap();
                let locked = big(w[4]);
                let owner = self.owner.clone();
                let r = match self.kind {
                    Kind::Farm => self.b.execute_tx(&owner, self.mock.as_ref().unwrap(), &zero, |sc| {
                        sc.user_energy(&managed_address!(&u)).set(&Energy::new(mbigint(&amount), last, mbig(&locked)));
                    }),
                    Kind::Fwlr => self.b.execute_tx(&owner, self.ef.as_ref().unwrap(), &zero, |sc| {
                        sc.user_energy(&managed_address!(&u)).set(&Energy::new(mbigint(&amount), last, mbig(&locked)));
                    }),
                };
                fin!(r);
            }
            "updateEnergy" => {
                let u = self.addr(w[1].parse().unwrap());
                let r = farm_call!(self, self.owner.clone(), vec![], |sc| {
                    sc.update_energy_for_user(managed_address!(&u));
                });
                fin!(r);
            }
            "setPerBlock" => {
                let x = big(w[2]);
                let r = farm_call!(self, self.addr(w[1].parse().unwrap()), vec![], |sc| {
                    sc.set_per_block_rewards_endpoint(mbig(&x));
                });
                fin!(r);
            }
            "startProduce" => {
                let r = farm_call!(self, self.addr(w[1].parse().unwrap()), vec![], |sc| {
                    sc.start_produce_rewards_endpoint();
                });
                fin!(r);
            }
            "endProduce" => {
                let r = farm_call!(self, self.addr(w[1].parse().unwrap()), vec![], |sc| {
                    sc.end_produce_rewards_endpoint();
                });
                fin!(r);
            }
            "setPct" => {
                let p: u64 = w[2].parse().unwrap();
                let r = farm_call!(self, self.addr(w[1].parse().unwrap()), vec![], |sc| {
                    sc.set_boosted_yields_rewards_percentage(p);
                });
                fin!(r);
            }
            "setFactors" => {
                let f: Vec<BigUint> = w[2..7].iter().map(|x| big(x)).collect();
                let r = farm_call!(self, self.addr(w[1].parse().unwrap()), vec![], |sc| {
                    sc.set_boosted_yields_factors(mbig(&f[0]), mbig(&f[1]), mbig(&f[2]), mbig(&f[3]), mbig(&f[4]));
                });
                fin!(r);
            }
            "collect" => {
                let r = farm_call!(self, self.addr(w[1].parse().unwrap()), vec![], |sc| {
                    sc.collect_undistributed_boosted_rewards();
                });
                fin!(r);
            }
            "upgrade" => {
                // the owner upgrades the deployed farm to the same code: `upgrade()` must leave every observable cell alone
                // (in particular it must not re-base the position-migration nonce of a farm that already has positions)
                // (worlds deployed at epoch 0 store first_week_start_epoch = 0, which the storage layer cannot tell from
                // "empty": there `upgrade` would legitimately re-base the week clock — not a deployment that exists on chain,
                // so the call is made only in worlds whose week clock starts at a non-zero epoch)
                if self.epoch0 != 0 {
                    let r = farm_call!(self, self.addr(OWNER_ID), vec![], |sc| {
                        sc.upgrade();
                    });
                    fin!(r);
                } else {
                    res.ok = true;
                }
            }
            "pause" => {
                let r = farm_call!(self, self.addr(w[1].parse().unwrap()), vec![], |sc| {
                    sc.pause();
                });
                fin!(r);
            }
            "resume" => {
                let r = farm_call!(self, self.addr(w[1].parse().unwrap()), vec![], |sc| {
                    sc.resume();
                });
                fin!(r);
            }
            "setPenalty" => {
                let p: u64 = w[2].parse().unwrap();
                let r = farm_call!(self, self.addr(w[1].parse().unwrap()), vec![], |sc| {
                    sc.set_penalty_percent(p);
                });
                fin!(r);
            }
            "setMinEpochs" => {
                let p: u64 = w[2].parse().unwrap();
                let r = farm_call!(self, self.addr(w[1].parse().unwrap()), vec![], |sc| {
                    sc.set_minimum_farming_epochs(p);
                });
                fin!(r);
            }
            "hubWhitelist" | "hubRemove" => {
                let (u, a): (u64, u64) = (w[1].parse().unwrap(), w[2].parse().unwrap());
                let (ua, aa) = (self.addr(u), self.addr(a));
                let add = w[0] == "hubWhitelist";
                let r = self.b.execute_tx(&ua, &self.hub, &zero, |sc| {
                    let mut v = MultiValueEncoded::new();
                    v.push(managed_address!(&aa));
                    if add { sc.whitelist(v) } else { sc.remove_whitelist(v) }
                });
                fin!(r);
                if res.ok {
                    if add { self.hub_pairs.push((u, a)) } else { self.hub_pairs.retain(|p| *p != (u, a)) }
                }
            }
            "hubBlacklist" => {
                let aa = self.addr(w[1].parse().unwrap());
                let owner = self.owner.clone();
                let r = self.b.execute_tx(&owner, &self.hub, &zero, |sc| sc.blacklist(managed_address!(&aa)));
                fin!(r);
            }
            "scWhitelist" | "scUnwhitelist" => {
                let aa = self.addr(w[1].parse().unwrap());
                let add = w[0] == "scWhitelist";
                let r = farm_call!(self, self.owner.clone(), vec![], |sc| {
                    if add { sc.add_sc_address_to_whitelist(managed_address!(&aa)) } else { sc.remove_sc_address_from_whitelist(managed_address!(&aa)) }
                });
                fin!(r);
            }
            "advance" => {
                let (bl, ep): (u64, u64) = (w[1].parse().unwrap(), w[2].parse().unwrap());
                if bl >= self.block && ep >= self.epoch {
                    self.block = bl;
                    self.epoch = ep;
                    self.b.set_block_nonce(bl);
                    self.b.set_block_epoch(ep);
                    res.ok = true;
                } else {
                    res.ok = false;
                }
            }
            "bad" => {
                // malformed calls: must fail
                let c: u64 = w.get(2).and_then(|x| x.parse().ok()).unwrap_or(1);
                let ca = self.addr(c);
                let one = rust_biguint!(1000);
                match w[1] {
                    "wrongToken" => {
                        self.b.set_esdt_balance(&ca, OTHER, &one);
                        let tv = vec![TxTokenTransfer { token_identifier: OTHER.to_vec(), nonce: 0, value: one.clone() }];
                        let which = w.get(3).copied().unwrap_or("enter").to_string();
                        let r = farm_call!(self, ca, tv, |sc| {
                            match which.as_str() {
                                "enter" => { let _ = sc.enter_farm_endpoint(OptionalValue::None); }
                                "claim" => { let _ = sc.claim_rewards_endpoint(OptionalValue::None); }
                                "exit" => { let _ = sc.exit_farm_endpoint(OptionalValue::None); }
                                _ => { let _ = sc.merge_farm_tokens_endpoint(OptionalValue::None); }
                            }
                        });
                        fin!(r);
                    }
                    "noPayment" => {
                        let which = w.get(3).copied().unwrap_or("enter").to_string();
                        let r = farm_call!(self, ca, vec![], |sc| {
                            match which.as_str() {
                                "enter" => { let _ = sc.enter_farm_endpoint(OptionalValue::None); }
                                "claim" => { let _ = sc.claim_rewards_endpoint(OptionalValue::None); }
                                "exit" => { let _ = sc.exit_farm_endpoint(OptionalValue::None); }
                                _ => { let _ = sc.merge_farm_tokens_endpoint(OptionalValue::None); }
                            }
                        });
                        fin!(r);
                    }
                    "farmingAsFarm" => {
                        // farming token where a farm token is expected
                        self.ensure_farming(c, &one);
                        let tv = vec![TxTokenTransfer { token_identifier: self.farming_token().to_vec(), nonce: 0, value: one.clone() }];
                        let r = farm_call!(self, ca, tv, |sc| {
                            let _ = sc.claim_rewards_endpoint(OptionalValue::None);
                        });
                        fin!(r);
                    }
                    _ => {
                        // view endpoint called by a user (not a VM query)
                        let r = farm_call!(self, ca, vec![], |sc| {
                            let _ = sc.calculate_rewards_for_given_position(
                                ManagedAddress::<DebugApi>::zero(),
                                mbig(&BigUint::from(1u32)),
                                common_structs::FarmTokenAttributes {
                                    reward_per_share: mbig(&BigUint::zero()),
                                    entering_epoch: 0,
                                    compounded_reward: mbig(&BigUint::zero()),
                                    current_farm_amount: mbig(&BigUint::from(1u32)),
                                    original_owner: ManagedAddress::<DebugApi>::zero(),
                                },
                            );
                        });
                        fin!(r);
                    }
                }
            }
            other => panic!("unknown op {other}"),
        }
        if res.ok && res.tok_nonce > self.max_nonce {
            self.max_nonce = res.tok_nonce;
        }
        if res.ok && self.kind == Kind::Fwlr && res.rew_nonce > self.max_lk {
            self.max_lk = res.rew_nonce;
        }
        self.log.push(text.to_string());
        res
    }

    /// view `calculateRewardsForGivenPosition(user, amount, attributes of nonce)` as a VM query.
    /// `execute_query` COMMITS in this VM, so this must only be called on a twin world.
    pub fn query_calc_rewards(&mut self, user: u64, amount: &BigUint, a: &Attr) -> Option<BigUint> {
        let ua = self.addr(user);
        let oa = self.addr(a.owner);
        let mut v = None;
        let a = a.clone();
        let amount = amount.clone();
        let out = &mut v;
        let r = farm_query!(self, |sc| {
            let x = sc.calculate_rewards_for_given_position(
                managed_address!(&ua),
                mbig(&amount),
                common_structs::FarmTokenAttributes {
                    reward_per_share: mbig(&a.rps),
                    entering_epoch: a.epoch,
                    compounded_reward: mbig(&a.comp),
                    current_farm_amount: mbig(&a.amt),
                    original_owner: managed_address!(&oa),
                },
            );
            *out = Some(to_big(&x));
        });
        if r.result_status == 0 { v } else { None }
    }
}
