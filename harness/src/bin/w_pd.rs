//! World `pd`: the real `dex/price-discovery` contract + the real `simple-lock` contract it
//! forwards redeemed tokens through, driven through the white-box VM.
//! Serves C17 (and the price-discovery clauses of C20).  Model: lean/MxModel/Core/PriceDiscovery.lean.
//!
//! Setup copied from /repo/dex/price-discovery/tests/tests_common.rs (token ids set directly,
//! local roles through the mock, one initial unit of each redeem SFT on the contract).

use mxharness::*;
use num_bigint::BigUint;
use num_traits::{One, Zero};

use multiversx_sc::codec::Empty;
use multiversx_sc::storage::mappers::StorageTokenWrapper;
use multiversx_sc::types::{Address, EsdtLocalRole};
use multiversx_sc_scenario::{
    managed_address, managed_token_id, managed_token_id_wrapped, rust_biguint,
    whitebox_legacy::*, DebugApi,
};

use price_discovery::common_storage::CommonStorageModule as _;
use price_discovery::phase::{Phase, PhaseModule as _};
use price_discovery::redeem_token::RedeemTokenModule as _;
use price_discovery::PriceDiscovery as _;
use simple_lock::locked_token::LockedTokenModule as _;
use simple_lock::SimpleLock as _;

const LAUNCHED: &[u8] = b"LAUNCH-abcdef";
const ACCEPTED: &[u8] = b"ACCEPT-abcdef";
const REDEEM: &[u8] = b"REDEEM-abcdef";
const LOCKED: &[u8] = b"LOCKED-abcdef";
const OTHER: &[u8] = b"OTHER-abcdef";
const FOREIGN_SFT: &[u8] = b"FOREIGN-abcdef";
/// `MAX_PERCENTAGE` of the README: 10^13 = 100 %
const MAXP: u64 = 10_000_000_000_000;

type PdObj = price_discovery::ContractObj<DebugApi>;
type PdW = ContractObjWrapper<PdObj, fn() -> PdObj>;
type LockObj = simple_lock::ContractObj<DebugApi>;
type LockW = ContractObjWrapper<LockObj, fn() -> LockObj>;

fn pd_builder() -> PdObj {
    price_discovery::contract_obj()
}
fn lock_builder() -> LockObj {
    simple_lock::contract_obj()
}

fn to_big(x: &multiversx_sc::types::BigUint<DebugApi>) -> BigUint {
    BigUint::from_bytes_be(x.to_bytes_be().as_slice())
}
fn mb(x: &BigUint) -> multiversx_sc::types::BigUint<DebugApi> {
    multiversx_sc::types::BigUint::from_bytes_be(&x.to_bytes_be())
}

#[derive(Clone, Copy, PartialEq, Eq, Debug)]
enum Ph {
    Idle,
    NoPenalty,
    Linear,
    Fixed,
    Redeem,
}
impl Ph {
    fn name(self) -> &'static str {
        match self {
            Ph::Idle => "idle",
            Ph::NoPenalty => "nopenalty",
            Ph::Linear => "linear",
            Ph::Fixed => "fixed",
            Ph::Redeem => "redeem",
        }
    }
    fn rank(self) -> u8 {
        match self {
            Ph::Idle => 0,
            Ph::NoPenalty => 1,
            Ph::Linear => 2,
            Ph::Fixed => 3,
            Ph::Redeem => 4,
        }
    }
}

#[derive(Clone, Debug)]
struct Cfg {
    start: u64,
    d1: u64,
    d2: u64,
    d3: u64,
    pmin: BigUint,
    pmax: BigUint,
    pfix: BigUint,
    minp: BigUint,
    dec: u32,
    unlock: u64,
    users: u64,
    len: u64,
}

impl Cfg {
    fn end(&self) -> u64 {
        self.start + self.d1 + self.d2 + self.d3
    }
    /// phase and penalty percentage recomputed from the README / docs text, independently of
    /// the contract: phase 1 lasts d1 blocks from `start`, phase 2 d2 blocks with a penalty growing
    /// linearly from pmin (first block) to pmax (last block), phase 3 d3 blocks at pfix, then redeem
    fn phase_at(&self, b: u64) -> (Ph, BigUint) {
        let z = BigUint::zero();
        if b < self.start {
            return (Ph::Idle, z);
        }
        let e1 = self.start + self.d1;
        let e2 = e1 + self.d2;
        let e3 = e2 + self.d3;
        if b < e1 {
            (Ph::NoPenalty, z)
        } else if b < e2 {
            let passed = b - e1;
            let pct = if self.d2 >= 2 {
                &self.pmin + (&self.pmax - &self.pmin) * BigUint::from(passed) / BigUint::from(self.d2 - 1)
            } else {
                self.pmin.clone()
            };
            (Ph::Linear, pct)
        } else if b < e3 {
            (Ph::Fixed, self.pfix.clone())
        } else {
            (Ph::Redeem, z)
        }
    }
}

#[derive(Clone, Debug, PartialEq)]
struct Snap {
    block: u64,
    epoch: u64,
    phase: Ph,
    pct: BigUint,
    bal: [BigUint; 2],  // tracked launched / accepted
    sup: [BigUint; 2],  // totalCirculatingSupply(1) / (2)
    real: [BigUint; 2], // real ESDT balance of the contract
    lock: [BigUint; 2], // held by the simple-lock contract
    price: Option<BigUint>,
    w: Vec<[BigUint; 2]>, // wallets
    h: Vec<[BigUint; 2]>, // redeem tokens nonce 1 / 2
    k: Vec<[BigUint; 2]>, // locked tokens wrapping launched / accepted
    own: [BigUint; 2],    // redeem SFTs on the contract itself (the initial unit each)
}

struct PdWorld {
    b: BlockchainStateWrapper,
    owner: Address,
    users: Vec<Address>,
    pd: PdW,
    lock: LockW,
    cfg: Cfg,
    block: u64,
    epoch: u64,
    /// nonce of the LOCKED SFT that wraps launched / accepted tokens (assigned by simple-lock on first use)
    lock_nonce: [Option<u64>; 2],
    next_lock_nonce: u64,
    /// cumulative redeem payouts (sum of the endpoint's return values), per paid token
    paid: [BigUint; 2],
    /// redeem tokens handed in during the redeem phase, per nonce
    red: [BigUint; 2],
    /// tracked balances at the moment the first redemption happened (the pools being shared)
    pool_at_redeem: Option<[BigUint; 2]>,
    sup_at_redeem: Option<[BigUint; 2]>,
    max_rank: u8,
    pending: Vec<(char, String)>,
    last_quote_phase: Option<(Ph, BigUint)>,
    last_quote_price: Option<Option<BigUint>>,
}

fn tok_idx(t: &str) -> usize {
    if t == "L" {
        0
    } else {
        1
    }
}
fn tok_name(i: usize) -> &'static str {
    if i == 0 {
        "L"
    } else {
        "A"
    }
}
fn tok_id(i: usize) -> &'static [u8] {
    if i == 0 {
        LAUNCHED
    } else {
        ACCEPTED
    }
}

impl PdWorld {
    fn user(&self, id: u64) -> Option<Address> {
        if id >= 1 && (id as usize) <= self.users.len() {
            Some(self.users[(id - 1) as usize].clone())
        } else {
            None
        }
    }

    fn snap(&mut self) -> Snap {
        let (mut bl, mut ba, mut sl, mut sa) = (BigUint::zero(), BigUint::zero(), BigUint::zero(), BigUint::zero());
        let mut ph = Ph::Idle;
        let mut pct = BigUint::zero();
        self.b
            .execute_query(&self.pd, |sc| {
                bl = to_big(&sc.launched_token_balance().get());
                ba = to_big(&sc.accepted_token_balance().get());
                sl = to_big(&sc.redeem_token_total_circulating_supply(1).get());
                sa = to_big(&sc.redeem_token_total_circulating_supply(2).get());
                match sc.get_current_phase() {
                    Phase::Idle => ph = Ph::Idle,
                    Phase::NoPenalty => ph = Ph::NoPenalty,
                    Phase::LinearIncreasingPenalty { penalty_percentage } => {
                        ph = Ph::Linear;
                        pct = to_big(&penalty_percentage);
                    }
                    Phase::OnlyWithdrawFixedPenalty { penalty_percentage } => {
                        ph = Ph::Fixed;
                        pct = to_big(&penalty_percentage);
                    }
                    Phase::Redeem => ph = Ph::Redeem,
                }
            })
            .assert_ok();
        let mut price = None;
        let r = self.b.execute_query(&self.pd, |sc| {
            price = Some(to_big(&sc.calculate_price()));
        });
        if r.result_status != 0 {
            price = None;
        }
        let pa = self.pd.address_ref().clone();
        let la = self.lock.address_ref().clone();
        let real = [self.b.get_esdt_balance(&pa, LAUNCHED, 0), self.b.get_esdt_balance(&pa, ACCEPTED, 0)];
        let lock = [self.b.get_esdt_balance(&la, LAUNCHED, 0), self.b.get_esdt_balance(&la, ACCEPTED, 0)];
        let own = [self.b.get_esdt_balance(&pa, REDEEM, 1), self.b.get_esdt_balance(&pa, REDEEM, 2)];
        let (mut w, mut h, mut k) = (vec![], vec![], vec![]);
        for u in self.users.clone().iter() {
            w.push([self.b.get_esdt_balance(u, LAUNCHED, 0), self.b.get_esdt_balance(u, ACCEPTED, 0)]);
            h.push([self.b.get_esdt_balance(u, REDEEM, 1), self.b.get_esdt_balance(u, REDEEM, 2)]);
            let kk = |n: Option<u64>, b: &BlockchainStateWrapper| match n {
                Some(n) => b.get_esdt_balance(u, LOCKED, n),
                None => BigUint::zero(),
            };
            k.push([kk(self.lock_nonce[0], &self.b), kk(self.lock_nonce[1], &self.b)]);
        }
        Snap {
            block: self.block,
            epoch: self.epoch,
            phase: ph,
            pct,
            bal: [bl, ba],
            sup: [sl, sa],
            real,
            lock,
            price,
            w,
            h,
            k,
            own,
        }
    }

    fn state_line(&self, s: &Snap) -> String {
        let mut line = format!(
            "blk={} ep={} ph={},{} bal={},{} sup={},{} real={},{} lock={},{} red={},{} paid={},{} price={}",
            s.block,
            s.epoch,
            s.phase.name(),
            s.pct,
            s.bal[0],
            s.bal[1],
            s.sup[0],
            s.sup[1],
            s.real[0],
            s.real[1],
            s.lock[0],
            s.lock[1],
            self.red[0],
            self.red[1],
            self.paid[0],
            self.paid[1],
            match &s.price {
                Some(p) => p.to_string(),
                None => "-".to_string(),
            }
        );
        for i in 0..s.w.len() {
            line += &format!(
                " u{}={},{},{},{},{},{}",
                i + 1,
                s.w[i][0],
                s.w[i][1],
                s.h[i][0],
                s.h[i][1],
                s.k[i][0],
                s.k[i][1]
            );
        }
        line
    }

    /// the clauses of C17 that are statements about a single reachable state, evaluated on the
    /// real contract after every transaction
    fn oracle_state(&mut self, tr: &mut Trace, site: &str, post: &Snap) {
        // phase is the documented function of the block
        let (eph, epct) = self.cfg.phase_at(post.block);
        if eph != post.phase || epct != post.pct {
            tr.fail("C17", "phase_fn", site,
                &format!("block {} expected {},{} view says {},{}", post.block, eph.name(), epct, post.phase.name(), post.pct));
        }
        if post.phase == Ph::Linear && (post.pct < self.cfg.pmin || post.pct > self.cfg.pmax) {
            tr.fail("C17", "penalty_within_range", site, &format!("pct {} outside [{},{}]", post.pct, self.cfg.pmin, self.cfg.pmax));
        }
        if post.phase.rank() < self.max_rank {
            tr.fail("C17", "phase_mono", site, &format!("phase went back to {}", post.phase.name()));
        }
        self.max_rank = self.max_rank.max(post.phase.rank());
        for i in 0..2 {
            // tracked = real, up to what redemptions paid out
            if &post.real[i] + &self.paid[i] != post.bal[i] {
                tr.fail("C17", "tracked_eq_real", site,
                    &format!("token {} tracked {} real {} paid out by redeem {}", tok_name(i), post.bal[i], post.real[i], self.paid[i]));
            }
            if post.phase != Ph::Redeem && post.real[i] != post.bal[i] {
                tr.fail("C17", "tracked_eq_real", site,
                    &format!("token {} tracked {} real {} before the redeem phase", tok_name(i), post.bal[i], post.real[i]));
            }
            // total payouts never exceed the pool
            if self.paid[i] > post.bal[i] {
                tr.fail("C17", "redeem_sum_le_pool", site, &format!("token {} paid {} pool {}", tok_name(i), self.paid[i], post.bal[i]));
            }
            // reported supply = redeem tokens in users' hands + those handed in by redeem
            let circ: BigUint = post.h.iter().map(|x| x[i].clone()).sum();
            if &circ + &self.red[i] != post.sup[i] {
                tr.fail("C17", "supply_eq_circulating", site,
                    &format!("nonce {} supply {} circulating {} redeemed {}", i + 1, post.sup[i], circ, self.red[i]));
            }
            if post.own[i] != BigUint::one() {
                tr.fail("C17", "redeem_token_burned", site, &format!("contract keeps {} redeem SFTs of nonce {}", post.own[i], i + 1));
            }
        }
        if let (Some(pool), Some(sup)) = (&self.pool_at_redeem, &self.sup_at_redeem) {
            if *pool != post.bal || *sup != post.sup {
                tr.fail("C17", "pool_frozen_in_redeem", site, "tracked balances or supplies moved after the first redemption");
            }
        }
    }

    fn unchanged(&self, tr: &mut Trace, prop: &str, clause: &str, site: &str, pre: &Snap, post: &Snap) {
        if pre != post {
            tr.fail(prop, clause, site, "observable state differs");
        }
    }
}

impl World for PdWorld {
    const NAME: &'static str = "pd";

    fn gen_header(rng: &mut Rng, _h: u64, _tier: &str) -> String {
        let len = parse_args().len;
        let dur = |rng: &mut Rng| -> u64 {
            match rng.below(10) {
                0 | 1 => 0,
                2 | 3 => 1,
                4 => 2,
                5 | 6 => rng.range(3, 6),
                7 => rng.range(7, 30),
                _ => rng.range(2, 4),
            }
        };
        let start = *rng.pick(&[1u64, 1, 2, 3, 5, 10]);
        let (d1, d2, d3) = (dur(rng).max(if rng.chance(4, 5) { 1 } else { 0 }), dur(rng), dur(rng));
        let maxp = BigUint::from(MAXP);
        let pct = |rng: &mut Rng| -> BigUint {
            match rng.below(8) {
                0 => BigUint::zero(),
                1 => BigUint::one(),
                2 => BigUint::from(MAXP - 1),
                3 => BigUint::from(MAXP / 10),
                4 => BigUint::from(MAXP / 2),
                5 => BigUint::from(MAXP / 4),
                _ => rng.big_below(&maxp),
            }
        };
        let (a, b2) = (pct(rng), pct(rng));
        let (pmin, pmax) = if a <= b2 { (a, b2) } else { (b2, a) };
        let pfix = pct(rng);
        let dec = *rng.pick(&[0u32, 6, 18, 18, 18, 1, 12]);
        let prec = pow10(dec);
        let minp = match rng.below(8) {
            0 | 1 => BigUint::zero(),
            2 => BigUint::one(),
            3 => &prec / 2u32,
            4 => prec.clone(),
            5 => &prec * 3u32,
            6 => &prec / 10u32 + BigUint::one(),
            _ => rng.magnitude(dec + 2),
        };
        let users = rng.range(2, 4);
        let unlock = *rng.pick(&[1u64, 2, 5, 5, 5]);
        format!("start={start} d1={d1} d2={d2} d3={d3} pmin={pmin} pmax={pmax} pfix={pfix} minp={minp} dec={dec} unlock={unlock} users={users} len={len}")
    }

    fn new(header: &str) -> Self {
        let cfg = Cfg {
            start: kv_u64(header, "start", 10),
            d1: kv_u64(header, "d1", 5),
            d2: kv_u64(header, "d2", 5),
            d3: kv_u64(header, "d3", 5),
            pmin: big(kv(header, "pmin").unwrap_or("1000000000000")),
            pmax: big(kv(header, "pmax").unwrap_or("5000000000000")),
            pfix: big(kv(header, "pfix").unwrap_or("2500000000000")),
            minp: big(kv(header, "minp").unwrap_or("0")),
            dec: kv_u64(header, "dec", 18) as u32,
            unlock: kv_u64(header, "unlock", 5),
            users: kv_u64(header, "users", 3),
            len: kv_u64(header, "len", 40),
        };
        let zero = rust_biguint!(0);
        let mut b = BlockchainStateWrapper::new();
        let owner = b.create_user_account(&zero);
        let funds = pow10(40);
        let mut users = vec![];
        for _ in 0..cfg.users {
            let u = b.create_user_account(&zero);
            b.set_esdt_balance(&u, LAUNCHED, &funds);
            b.set_esdt_balance(&u, ACCEPTED, &funds);
            b.set_esdt_balance(&u, OTHER, &funds);
            users.push(u);
        }
        let pd: PdW = b.create_sc_account(&zero, Some(&owner), pd_builder as fn() -> PdObj, "pd.wasm");
        b.set_esdt_local_roles(
            pd.address_ref(),
            REDEEM,
            &[EsdtLocalRole::NftCreate, EsdtLocalRole::NftBurn, EsdtLocalRole::NftAddQuantity],
        );
        b.set_nft_balance(pd.address_ref(), REDEEM, 1, &rust_biguint!(1), &Empty);
        b.set_nft_balance(pd.address_ref(), REDEEM, 2, &rust_biguint!(1), &Empty);
        b.set_block_nonce(0);
        b.set_block_epoch(0);
        let lock: LockW = b.create_sc_account(&zero, Some(&owner), lock_builder as fn() -> LockObj, "lock.wasm");
        b.execute_tx(&owner, &lock, &zero, |sc| {
            sc.init();
            sc.locked_token().set_token_id(managed_token_id!(LOCKED));
        })
        .assert_ok();
        b.set_esdt_local_roles(
            lock.address_ref(),
            LOCKED,
            &[EsdtLocalRole::NftCreate, EsdtLocalRole::NftAddQuantity, EsdtLocalRole::NftBurn],
        );
        let la = lock.address_ref().clone();
        let c = cfg.clone();
        b.execute_tx(&owner, &pd, &zero, |sc| {
            sc.init(
                managed_token_id!(LAUNCHED),
                managed_token_id_wrapped!(ACCEPTED),
                c.dec,
                mb(&c.minp),
                c.start,
                c.d1,
                c.d2,
                c.d3,
                c.unlock,
                mb(&c.pmin),
                mb(&c.pmax),
                mb(&c.pfix),
                managed_address!(&la),
            );
            sc.redeem_token().set_token_id(managed_token_id!(REDEEM));
        })
        .assert_ok();
        PdWorld {
            b,
            owner,
            users,
            pd,
            lock,
            cfg,
            block: 0,
            epoch: 0,
            lock_nonce: [None, None],
            next_lock_nonce: 1,
            paid: [BigUint::zero(), BigUint::zero()],
            red: [BigUint::zero(), BigUint::zero()],
            pool_at_redeem: None,
            sup_at_redeem: None,
            max_rank: 0,
            pending: vec![],
            last_quote_phase: None,
            last_quote_price: None,
        }
    }

    fn gen_line(&mut self, rng: &mut Rng, step: u64, _tier: &str) -> (char, String) {
        if let Some(p) = self.pending.pop() {
            return p;
        }
        let s = self.snap();
        let c = self.cfg.clone();
        let nu = self.users.len() as u64;
        let u = rng.range(1, nu);
        let ui = (u - 1) as usize;
        let one = BigUint::one();
        let maxp = BigUint::from(MAXP);
        let prec = pow10(c.dec);
        // ---- time: keep pace so that every phase (and the redeem phase) gets its share of the history
        let end = c.end();
        let target = (end + 2) * (step + 1) / c.len.max(1);
        let lag = self.block < target;
        if rng.chance(if lag { 45 } else { 12 }, 100) {
            // candidate blocks: next one, and every block around each phase boundary
            let mut cands: Vec<u64> = vec![self.block + 1];
            for bnd in [c.start, c.start + c.d1, c.start + c.d1 + c.d2, end] {
                for d in [-1i64, 0, 1] {
                    let x = bnd as i64 + d;
                    if x > self.block as i64 {
                        cands.push(x as u64);
                    }
                }
            }
            if c.d2 > 2 {
                let mid = c.start + c.d1 + c.d2 / 2;
                if mid > self.block {
                    cands.push(mid);
                }
            }
            cands.sort();
            let nb = match rng.below(10) {
                0..=4 => self.block + 1,
                5..=7 => cands.iter().copied().find(|x| *x > self.block + 1).unwrap_or(self.block + 1),
                8 => self.block, // same block: allowed, nothing moves
                _ => {
                    if self.block > 0 && rng.chance(1, 2) {
                        self.block - 1 // going back: rejected by the harness and the model
                    } else {
                        self.block + rng.range(1, 3)
                    }
                }
            };
            return ('O', format!("advance {}", nb));
        }
        if rng.chance(3, 100) {
            return ('O', format!("epoch {}", self.epoch + rng.range(0, 2)));
        }
        if rng.chance(6, 100) {
            return ('Q', (*rng.pick(&["phase", "price", "phase", "price", "supply L", "supply A"])).to_string());
        }
        if rng.chance(8, 100) {
            // malformed
            return match rng.below(11) {
                // an SFT of a FOREIGN collection carrying the redeem nonces 1 / 2 (mutant: token-id check of withdraw / redeem removed)
                8 => ('O', format!("bad withdraw {} foreign{} {}", u, rng.range(1, 2), rng.range(1, 1000))),
                9 => ('O', format!("bad redeem {} foreign{} {}", u, rng.range(1, 2), rng.range(1, 1000))),
                10 => ('O', format!("bad deposit {} foreign{} {}", u, rng.range(1, 2), rng.range(1, 1000))),
                0 => ('O', format!("bad deposit {} other 1000", u)),
                1 => ('O', format!("bad deposit {} redeem{} 1", u, rng.range(1, 2))),
                2 => ('O', format!("bad withdraw {} launched 1000", u)),
                3 => ('O', format!("bad redeem {} accepted 1000", u)),
                4 => ('O', format!("bad withdraw {} nonce3 5", u)),
                5 => ('O', format!("{} {} {} 0", rng.pick(&["deposit", "deposit", "withdraw", "redeem"]), u, rng.pick(&["L", "A"]))),
                6 => ('O', format!("deposit {} L 1", nu + 1 + rng.below(3))),
                _ => ('O', format!("bad redeem {} nonce3 5", u)),
            };
        }
        let ti = if rng.chance(1, 2) { 0 } else { 1 };
        let t = tok_name(ti);
        let amount_mix = |rng: &mut Rng, cap: &BigUint| -> BigUint {
            let a = match rng.below(9) {
                0 => one.clone(),
                1 => BigUint::from(rng.range(2, 100)),
                2 => rng.magnitude(6),
                3 => rng.magnitude(18),
                4 => rng.magnitude(30),
                5 => pow10(18),
                6 => pow10(30),
                _ => rng.magnitude(24),
            };
            a.min(cap.clone())
        };
        match s.phase {
            Ph::Idle => {
                // nothing is allowed: try each op (all must fail), mostly move on
                match rng.below(4) {
                    0 => ('O', format!("deposit {} {} {}", u, t, amount_mix(rng, &s.w[ui][ti]))),
                    1 => ('O', format!("withdraw {} {} 1", u, t)),
                    2 => ('O', format!("redeem {} {} 1", u, t)),
                    _ => ('O', format!("advance {}", self.block + 1)),
                }
            }
            Ph::Redeem => {
                let holders: Vec<(usize, usize)> = (0..self.users.len())
                    .flat_map(|i| (0..2).map(move |j| (i, j)))
                    .filter(|(i, j)| !s.h[*i][*j].is_zero())
                    .collect();
                match rng.below(12) {
                    0 => ('O', format!("deposit {} {} {}", u, t, amount_mix(rng, &s.w[ui][ti]))),
                    1 => ('O', format!("withdraw {} {} {}", u, t, s.h[ui][ti].clone().max(one.clone()))),
                    _ => {
                        if holders.is_empty() {
                            // everything has been redeemed: idle traffic
                            return match rng.below(6) {
                                0 => ('O', format!("redeem {} {} 1", u, t)),
                                1 => ('Q', "price".to_string()),
                                2 => ('Q', "phase".to_string()),
                                3 => ('O', format!("epoch {}", self.epoch + 1)),
                                _ => ('O', format!("advance {}", self.block + rng.range(1, 50))),
                            };
                        }
                        let (i, j) = *rng.pick(&holders);
                        let have = s.h[i][j].clone();
                        let amt = match rng.below(8) {
                            0 => one.clone(),
                            1 | 2 => have.clone(),
                            3 => &have / 2u32 + &one,
                            4 => &have + &one, // more than held: must fail
                            5 => {
                                // smallest amount that still pays 1 unit
                                let opp = &s.bal[1 - j];
                                if opp.is_zero() { one.clone() } else { (&s.sup[j] + opp - &one) / opp }
                            }
                            _ => rng.big_range(&one, &have),
                        };
                        ('O', format!("redeem {} {} {}", i + 1, tok_name(j), amt))
                    }
                }
            }
            Ph::NoPenalty | Ph::Linear | Ph::Fixed => {
                let can_deposit = s.phase != Ph::Fixed;
                // first deposit has to be launched tokens
                if s.bal[0].is_zero() && can_deposit && rng.chance(5, 6) {
                    let a = match rng.below(4) {
                        0 => pow10(18) * BigUint::from(rng.range(1, 5000)),
                        _ => amount_mix(rng, &s.w[ui][0]),
                    };
                    return ('O', format!("deposit {} L {}", u, a));
                }
                let k = rng.weighted(&[if can_deposit { 10 } else { 2 }, if can_deposit { 8 } else { 1 }, 7, 7, 1]);
                let quote = rng.chance(1, 4);
                let line = match k {
                    0 => {
                        // accepted deposit
                        let a = match rng.below(6) {
                            0 => {
                                // lift the price to exactly the minimum: A' = ceil(min*L/prec)
                                let need = (&c.minp * &s.bal[0] + &prec - &one) / &prec;
                                if need > s.bal[1] { &need - &s.bal[1] } else { one.clone() }
                            }
                            1 => {
                                let need = (&c.minp * &s.bal[0] + &prec - &one) / &prec;
                                if need > &s.bal[1] + &one { &need - &s.bal[1] - &one } else { one.clone() }
                            }
                            2 => &s.bal[0] * &c.minp / &prec * 2u32 + &one,
                            _ => amount_mix(rng, &s.w[ui][1]),
                        };
                        format!("deposit {} A {}", u, a.min(s.w[ui][1].clone()).max(one.clone()))
                    }
                    1 => {
                        // launched deposit: around the largest pool that keeps price >= min
                        let a = if !c.minp.is_zero() && rng.chance(1, 2) {
                            let lmax = &s.bal[1] * &prec / &c.minp;
                            let room = if lmax > s.bal[0] { &lmax - &s.bal[0] } else { BigUint::zero() };
                            match rng.below(4) {
                                0 => room.clone(),
                                1 => &room + &one,
                                2 => if room > one { &room - &one } else { one.clone() },
                                _ => rng.big_range(&one, &(&room * 2u32 + &one)),
                            }
                        } else if rng.chance(1, 4) {
                            // make the price hit 0: L' > A*prec
                            &s.bal[1] * &prec + &one
                        } else {
                            amount_mix(rng, &s.w[ui][0])
                        };
                        format!("deposit {} L {}", u, a.min(s.w[ui][0].clone()).max(one.clone()))
                    }
                    2 | 3 => {
                        // withdraw
                        let holders: Vec<usize> = (0..self.users.len()).filter(|i| !s.h[*i][ti].is_zero()).collect();
                        let (i, tj) = if let Some(i) = holders.first().map(|_| *rng.pick(&holders)) {
                            (i, ti)
                        } else {
                            let other: Vec<usize> = (0..self.users.len()).filter(|i| !s.h[*i][1 - ti].is_zero()).collect();
                            if other.is_empty() { (ui, ti) } else { (*rng.pick(&other), 1 - ti) }
                        };
                        let have = s.h[i][tj].clone();
                        let keep = &maxp - &s.pct; // amt - pen ~ amt*keep/maxp
                        let amt = if have.is_zero() {
                            one.clone()
                        } else {
                            match rng.below(10) {
                                0 => one.clone(),
                                1 => have.clone(),
                                2 => &have + &one,
                                3 => &have / 2u32 + &one,
                                4 | 5 if tj == 1 && !c.minp.is_zero() => {
                                    // accepted withdrawal leaving the price exactly at / just below the minimum
                                    let need = (&c.minp * &s.bal[0] + &prec - &one) / &prec;
                                    let room = if s.bal[1] > need { &s.bal[1] - &need } else { BigUint::zero() };
                                    let a = &room * &maxp / &keep;
                                    let a = match rng.below(3) { 0 => a, 1 => &a + &one, _ => if a > one { &a - &one } else { one.clone() } };
                                    a.max(one.clone())
                                }
                                6 if tj == 0 => {
                                    // launched withdrawal that empties the launched pool (price undefined -> must fail unless penalty keeps some)
                                    s.bal[0].clone().min(have.clone()).max(one.clone())
                                }
                                7 => {
                                    // amount whose penalty floors to 0 / 1
                                    if s.pct.is_zero() { one.clone() } else { (&maxp / &s.pct + rng.range(0, 1)).max(one.clone()) }
                                }
                                _ => rng.big_range(&one, &have),
                            }
                        };
                        format!("withdraw {} {} {}", i + 1, tok_name(tj), amt)
                    }
                    _ => format!("redeem {} {} {}", u, t, s.h[ui][ti].clone().max(one.clone())),
                };
                if quote {
                    self.pending.push(('O', line));
                    if rng.chance(1, 2) {
                        self.pending.push(('Q', "price".to_string()));
                    }
                    return ('Q', "phase".to_string());
                }
                ('O', line)
            }
        }
    }

    fn exec(&mut self, tr: &mut Trace, text: &str) {
        let n = tr.op(text);
        let w: Vec<&str> = text.split_whitespace().collect();
        let site = w[0].to_string();
        tr.count(&format!("op.{}", site));
        let pre = self.snap();
        tr.count(&format!("phase.{}.{}", pre.phase.name(), site));
        let maxp = BigUint::from(MAXP);
        let prec = pow10(self.cfg.dec);
        let minp = self.cfg.minp.clone();
        let mut outs = String::from("0 0 0");
        let mut paid_now: Option<(usize, BigUint)> = None;
        let mut red_now: Option<(usize, BigUint)> = None;
        let quoted_phase = self.last_quote_phase.take();
        let quoted_price = self.last_quote_price.take();
        let ok: bool = match w[0] {
            "deposit" => {
                let who: u64 = w[1].parse().unwrap();
                let ti = tok_idx(w[2]);
                let amt = big(w[3]);
                // a zero-value ESDT transfer is rejected by the protocol before it reaches any
                // contract (the mock VM would let some of them through): refused here
                match self.user(who).filter(|_| !amt.is_zero()) {
                    None => false,
                    Some(c) => {
                        let mut o = (BigUint::zero(), 0u64);
                        let r = self.b.execute_esdt_transfer(&c, &self.pd, tok_id(ti), 0, &amt, |sc| {
                            let p = sc.deposit();
                            o = (to_big(&p.amount), p.token_nonce);
                        });
                        let ok = r.result_status == 0;
                        // ---- C20 quote_eq_exec.pd: what the views promised is what deposit does
                        let allowed = matches!(pre.phase, Ph::NoPenalty | Ph::Linear);
                        let nl = if ti == 0 { &pre.bal[0] + &amt } else { pre.bal[0].clone() };
                        let na = if ti == 1 { &pre.bal[1] + &amt } else { pre.bal[1].clone() };
                        let predicted = allowed && !amt.is_zero() && !nl.is_zero() && amt <= pre.w[(who - 1) as usize][ti] && {
                            let p = &na * &prec / &nl;
                            ti == 1 || p.is_zero() || p >= minp
                        };
                        if predicted != ok {
                            tr.fail("C20", "quote_eq_exec.pd", &site,
                                &format!("views (phase {}, balances {},{}) predict {} but deposit of {} {} {}", pre.phase.name(), pre.bal[0], pre.bal[1],
                                    if predicted { "success" } else { "failure" }, amt, w[2], if ok { "succeeded" } else { "failed" }));
                        }
                        if let Some((qp, _)) = &quoted_phase {
                            tr.count("quote.phase_then_deposit");
                            if (matches!(qp, Ph::NoPenalty | Ph::Linear)) != allowed || (ok && !matches!(qp, Ph::NoPenalty | Ph::Linear)) {
                                tr.fail("C20", "quote_eq_exec.pd", &site, &format!("getCurrentPhase said {} but deposit {}", qp.name(), if ok { "succeeded" } else { "failed" }));
                            }
                        }
                        if ok {
                            outs = format!("{} {} 0", o.0, o.1);
                            let post = self.snap();
                            // ---- C17
                            if !allowed {
                                tr.fail("C17", "op_phase_gate", &site, &format!("deposit accepted in phase {}", pre.phase.name()));
                            }
                            let i = (who - 1) as usize;
                            let mut good = o.0 == amt && o.1 == (ti as u64 + 1)
                                && post.bal[ti] == &pre.bal[ti] + &amt && post.bal[1 - ti] == pre.bal[1 - ti]
                                && post.sup[ti] == &pre.sup[ti] + &amt && post.sup[1 - ti] == pre.sup[1 - ti]
                                && post.h[i][ti] == &pre.h[i][ti] + &amt && post.w[i][ti] == &pre.w[i][ti] - &amt
                                && post.real[ti] == &pre.real[ti] + &amt;
                            for j in 0..self.users.len() {
                                if j != i && (post.w[j] != pre.w[j] || post.h[j] != pre.h[j] || post.k[j] != pre.k[j]) {
                                    good = false;
                                }
                            }
                            if !good {
                                tr.fail("C17", "deposit_effects", &site, "deposit did not mint 1:1 / move exactly the deposited amount");
                            }
                            if ti == 0 {
                                let p = &post.bal[1] * &prec / &post.bal[0];
                                if !(p.is_zero() || p >= minp) {
                                    tr.fail("C17", "price_floor", &site, &format!("launched deposit left price {} below min {}", p, minp));
                                }
                                if p.is_zero() { tr.count("branch.deposit_price_zero"); }
                                if p == minp && !minp.is_zero() { tr.count("branch.deposit_price_eq_min"); }
                            } else if let Some(p) = &post.price {
                                if p < &minp { tr.count("branch.accepted_deposit_below_min"); }
                            }
                            // the price view agrees with the balances the deposit left behind
                            let pv = &post.bal[1] * &prec / &post.bal[0];
                            if post.price != Some(pv.clone()) {
                                tr.fail("C20", "quote_eq_exec.pd", &site, &format!("getCurrentPrice {:?} but balances give {}", post.price, pv));
                            }
                        } else if allowed && !amt.is_zero() && ti == 0 && !nl.is_zero() {
                            tr.count("branch.deposit_rejected_price");
                        }
                        ok
                    }
                }
            }
            "withdraw" => {
                let who: u64 = w[1].parse().unwrap();
                let ti = tok_idx(w[2]);
                let amt = big(w[3]);
                // a zero-value ESDT transfer is rejected by the protocol before it reaches any
                // contract (the mock VM would let some of them through): refused here
                match self.user(who).filter(|_| !amt.is_zero()) {
                    None => false,
                    Some(c) => {
                        let mut o = BigUint::zero();
                        let r = self.b.execute_esdt_transfer(&c, &self.pd, REDEEM, ti as u64 + 1, &amt, |sc| {
                            let p = sc.withdraw();
                            o = to_big(&p.amount);
                        });
                        let ok = r.result_status == 0;
                        let i = (who - 1) as usize;
                        // independent recomputation (README: penalty stays in the pool)
                        let (_, epct) = self.cfg.phase_at(pre.block);
                        let pen = &amt * &epct / &maxp;
                        let wd = &amt - &pen;
                        let allowed = matches!(pre.phase, Ph::NoPenalty | Ph::Linear | Ph::Fixed);
                        // ---- C20: prediction from the views
                        let vpen = &amt * &pre.pct / &maxp;
                        let vwd = &amt - &vpen;
                        let predicted = allowed && !amt.is_zero() && amt <= pre.h[i][ti] && amt <= pre.sup[ti] && vwd <= pre.bal[ti] && {
                            let nl = if ti == 0 { &pre.bal[0] - &vwd } else { pre.bal[0].clone() };
                            let na = if ti == 1 { &pre.bal[1] - &vwd } else { pre.bal[1].clone() };
                            !nl.is_zero() && &na * &prec / &nl >= minp
                        };
                        if predicted != ok || (ok && o != vwd) {
                            tr.fail("C20", "quote_eq_exec.pd", &site,
                                &format!("views (phase {},{} balances {},{}) predict {} paying {} but withdraw of {} {} {} paying {}", pre.phase.name(), pre.pct, pre.bal[0], pre.bal[1],
                                    if predicted { "success" } else { "failure" }, vwd, amt, w[2], if ok { "succeeded" } else { "failed" }, o));
                        }
                        if let Some((qp, qpct)) = &quoted_phase {
                            tr.count("quote.phase_then_withdraw");
                            let q_allowed = matches!(qp, Ph::NoPenalty | Ph::Linear | Ph::Fixed);
                            if (ok && !q_allowed) || (ok && o != &amt - &amt * qpct / &maxp) {
                                tr.fail("C20", "quote_eq_exec.pd", &site, &format!("getCurrentPhase said {},{} but withdraw paid {} of {}", qp.name(), qpct, o, amt));
                            }
                        }
                        if ok {
                            outs = format!("{} {} 0", o, &amt - &o);
                            let post = self.snap();
                            if !allowed {
                                tr.fail("C17", "op_phase_gate", &site, &format!("withdraw accepted in phase {}", pre.phase.name()));
                            }
                            if o != wd {
                                tr.fail("C17", "penalty_schedule", &site, &format!("amount {} pct {} expected payout {} got {}", amt, epct, wd, o));
                            }
                            let mut good = post.bal[ti] == &pre.bal[ti] - &wd && post.bal[1 - ti] == pre.bal[1 - ti]
                                && post.real[ti] == &pre.real[ti] - &wd && post.real[1 - ti] == pre.real[1 - ti]
                                && post.sup[ti] == &pre.sup[ti] - &amt && post.sup[1 - ti] == pre.sup[1 - ti]
                                && post.h[i][ti] == &pre.h[i][ti] - &amt && post.w[i][ti] == &pre.w[i][ti] + &wd;
                            for j in 0..self.users.len() {
                                if j != i && (post.w[j] != pre.w[j] || post.h[j] != pre.h[j] || post.k[j] != pre.k[j]) {
                                    good = false;
                                }
                            }
                            if !good {
                                tr.fail("C17", "penalty_stays", &site,
                                    &format!("withdraw of {} (penalty {}) must move exactly {} out of pool and balance and burn {}", amt, pen, wd, amt));
                            }
                            let p = &post.bal[1] * &prec / &post.bal[0];
                            if p < minp {
                                tr.fail("C17", "price_floor", &site, &format!("withdrawal left price {} below min {}", p, minp));
                            }
                            if post.price != Some(p.clone()) {
                                tr.fail("C20", "quote_eq_exec.pd", &site, &format!("getCurrentPrice {:?} but balances give {}", post.price, p));
                            }
                            if !pen.is_zero() { tr.count("branch.penalty_nonzero"); }
                            if p == minp && !minp.is_zero() { tr.count("branch.withdraw_price_eq_min"); }
                            tr.count(&format!("ok.withdraw.{}", pre.phase.name()));
                        } else if allowed && !amt.is_zero() && amt <= pre.h[i][ti] {
                            tr.count("branch.withdraw_rejected_price");
                        }
                        ok
                    }
                }
            }
            "redeem" => {
                let who: u64 = w[1].parse().unwrap();
                let ti = tok_idx(w[2]);
                let amt = big(w[3]);
                // a zero-value ESDT transfer is rejected by the protocol before it reaches any
                // contract (the mock VM would let some of them through): refused here
                match self.user(who).filter(|_| !amt.is_zero()) {
                    None => false,
                    Some(c) => {
                        let mut o = BigUint::zero();
                        let r = self.b.execute_esdt_transfer(&c, &self.pd, REDEEM, ti as u64 + 1, &amt, |sc| {
                            let p = sc.redeem();
                            o = to_big(&p.amount);
                        });
                        let ok = r.result_status == 0;
                        if ok {
                            let i = (who - 1) as usize;
                            let opp = 1 - ti;
                            let locked = pre.epoch < self.cfg.unlock;
                            outs = format!("{} {} 0", o, if locked { 1 } else { 0 });
                            if self.pool_at_redeem.is_none() {
                                self.pool_at_redeem = Some(pre.bal.clone());
                                self.sup_at_redeem = Some(pre.sup.clone());
                            }
                            // which LOCKED nonce received the tokens (assigned on first use)
                            if locked && !o.is_zero() && self.lock_nonce[opp].is_none() {
                                self.lock_nonce[opp] = Some(self.next_lock_nonce);
                                self.next_lock_nonce += 1;
                            }
                            let post = self.snap();
                            if pre.phase != Ph::Redeem {
                                tr.fail("C17", "op_phase_gate", &site, &format!("redeem accepted in phase {}", pre.phase.name()));
                            }
                            let e = &pre.bal[opp] * &amt / &pre.sup[ti];
                            if o != e {
                                tr.fail("C17", "redeem_formula", &site,
                                    &format!("pool {} amount {} supply {} expected {} got {}", pre.bal[opp], amt, pre.sup[ti], e, o));
                            }
                            let got_locked = &post.k[i][opp] - &pre.k[i][opp];
                            let got_free = &post.w[i][opp] - &pre.w[i][opp];
                            let mut good = post.h[i][ti] == &pre.h[i][ti] - &amt
                                && post.real[opp] == &pre.real[opp] - &o && post.real[ti] == pre.real[ti]
                                && post.bal == pre.bal && post.sup == pre.sup
                                && if locked { got_locked == o && got_free.is_zero() && post.lock[opp] == &pre.lock[opp] + &o }
                                   else { got_free == o && got_locked.is_zero() && post.lock == pre.lock };
                            for j in 0..self.users.len() {
                                if j != i && (post.w[j] != pre.w[j] || post.h[j] != pre.h[j] || post.k[j] != pre.k[j]) {
                                    good = false;
                                }
                            }
                            if !good {
                                tr.fail("C17", "redeem_once", &site, "redeem must burn the tokens handed in, pay only the caller, and leave pools and supplies frozen");
                            }
                            paid_now = Some((opp, o.clone()));
                            red_now = Some((ti, amt.clone()));
                            if o.is_zero() { tr.count("branch.redeem_pays_zero"); }
                            if !locked { tr.count("branch.redeem_unlocked"); }
                        }
                        ok
                    }
                }
            }
            "advance" => {
                let nb: u64 = w[1].parse().unwrap();
                if nb >= self.block {
                    self.block = nb;
                    self.b.set_block_nonce(nb);
                    true
                } else {
                    false
                }
            }
            "epoch" => {
                let e: u64 = w[1].parse().unwrap();
                if e >= self.epoch {
                    self.epoch = e;
                    self.b.set_block_epoch(e);
                    true
                } else {
                    false
                }
            }
            "bad" => {
                // malformed payments: must fail and leave everything unchanged
                let who: u64 = w[2].parse().unwrap_or(1);
                let c = self.user(who).unwrap_or_else(|| self.users[0].clone());
                let amt = big(w[4]);
                let r = match (w[1], w[3]) {
                    ("deposit", "other") => self.b.execute_esdt_transfer(&c, &self.pd, OTHER, 0, &amt, |sc| {
                        sc.deposit();
                    }),
                    ("deposit", "redeem1") | ("deposit", "redeem2") => {
                        let nonce = if w[3] == "redeem1" { 1 } else { 2 };
                        // (without the tokens the transfer itself fails in the VM)
                        self.b.execute_esdt_transfer(&c, &self.pd, REDEEM, nonce, &amt, |sc| {
                            sc.deposit();
                        })
                    }
                    ("withdraw", "launched") => self.b.execute_esdt_transfer(&c, &self.pd, LAUNCHED, 0, &amt, |sc| {
                        sc.withdraw();
                    }),
                    ("redeem", "accepted") => self.b.execute_esdt_transfer(&c, &self.pd, ACCEPTED, 0, &amt, |sc| {
                        sc.redeem();
                    }),
                    (ep, "foreign1") | (ep, "foreign2") => {
                        let nonce = if w[3] == "foreign1" { 1 } else { 2 };
                        self.b.set_nft_balance(&c, FOREIGN_SFT, nonce, &amt, &Empty);
                        let r = self.b.execute_esdt_transfer(&c, &self.pd, FOREIGN_SFT, nonce, &amt, |sc| match ep {
                            "withdraw" => {
                                sc.withdraw();
                            }
                            "redeem" => {
                                sc.redeem();
                            }
                            _ => {
                                sc.deposit();
                            }
                        });
                        // whatever happened, take the foreign tokens out of the picture again
                        self.b.set_nft_balance(&c, FOREIGN_SFT, nonce, &BigUint::zero(), &Empty);
                        self.b.set_nft_balance(&self.pd.address_ref().clone(), FOREIGN_SFT, nonce, &BigUint::zero(), &Empty);
                        r
                    }
                    ("withdraw", "nonce3") => {
                        self.b.set_nft_balance(&c, REDEEM, 3, &amt, &Empty);
                        let r = self.b.execute_esdt_transfer(&c, &self.pd, REDEEM, 3, &amt, |sc| {
                            sc.withdraw();
                        });
                        self.b.set_nft_balance(&c, REDEEM, 3, &BigUint::zero(), &Empty);
                        r
                    }
                    _ => {
                        self.b.set_nft_balance(&c, REDEEM, 3, &amt, &Empty);
                        let r = self.b.execute_esdt_transfer(&c, &self.pd, REDEEM, 3, &amt, |sc| {
                            sc.redeem();
                        });
                        self.b.set_nft_balance(&c, REDEEM, 3, &BigUint::zero(), &Empty);
                        r
                    }
                };
                r.result_status == 0
            }
            other => panic!("unknown op {other}"),
        };
        if let Some((i, x)) = paid_now {
            self.paid[i] += x;
        }
        if let Some((i, x)) = red_now {
            self.red[i] += x;
        }
        let post = self.snap();
        self.oracle_state(tr, &site, &post);
        if !ok {
            self.unchanged(tr, "C17", "failed_tx_changes_state", &site, &pre, &post);
        }
        let _ = quoted_price;
        if ok {
            tr.count(&format!("ok.{}", site));
            let line = self.state_line(&post);
            tr.res_ok(n, &outs, &line);
        } else {
            tr.count(&format!("err.{}", site));
            tr.res_err(n);
        }
    }

    fn query(&mut self, tr: &mut Trace, text: &str) {
        let n = tr.query(text);
        let w: Vec<&str> = text.split_whitespace().collect();
        tr.count(&format!("view.{}", w[0]));
        let pre = self.snap();
        let mut val: Option<String> = None;
        match w[0] {
            "phase" => {
                let mut ph = Ph::Idle;
                let mut pct = BigUint::zero();
                let r = self.b.execute_query(&self.pd, |sc| match sc.get_current_phase() {
                    Phase::Idle => ph = Ph::Idle,
                    Phase::NoPenalty => ph = Ph::NoPenalty,
                    Phase::LinearIncreasingPenalty { penalty_percentage } => {
                        ph = Ph::Linear;
                        pct = to_big(&penalty_percentage);
                    }
                    Phase::OnlyWithdrawFixedPenalty { penalty_percentage } => {
                        ph = Ph::Fixed;
                        pct = to_big(&penalty_percentage);
                    }
                    Phase::Redeem => ph = Ph::Redeem,
                });
                if r.result_status == 0 {
                    val = Some(format!("{} {}", ph.name(), pct));
                    self.last_quote_phase = Some((ph, pct));
                }
            }
            "price" => {
                let mut p = BigUint::zero();
                let r = self.b.execute_query(&self.pd, |sc| {
                    p = to_big(&sc.calculate_price());
                });
                if r.result_status == 0 {
                    val = Some(p.to_string());
                    self.last_quote_price = Some(Some(p));
                } else {
                    self.last_quote_price = Some(None);
                }
            }
            "supply" => {
                let nonce = tok_idx(w[1]) as u64 + 1;
                let mut p = BigUint::zero();
                let r = self.b.execute_query(&self.pd, |sc| {
                    p = to_big(&sc.redeem_token_total_circulating_supply(nonce).get());
                });
                if r.result_status == 0 {
                    val = Some(p.to_string());
                }
            }
            other => panic!("unknown view {other}"),
        }
        // C20: quoting never changes state
        let post = self.snap();
        self.unchanged(tr, "C20", "view_pure", w[0], &pre, &post);
        match val {
            Some(v) => tr.view_ok(n, &v),
            None => tr.view_err(n),
        }
    }
}

fn main() {
    run_world::<PdWorld>();
}
