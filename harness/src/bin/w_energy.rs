//! World `energy`: the real energy-factory (+ simple-lock base modules), token-unstake,
//! lkmex-transfer, locked-token-wrapper and a real fees-collector as the sink of penalty fees,
//! driven through the white-box VM.  Serves C08, C09 (and the energy clause of C20).
//! Model: lean/MxModel/Core/Energy.lean.
//!
//! The account `FARM` (id 9) is a REAL smart-contract account (a deployed, never-called
//! farm-with-locked-rewards object: `is_smart_contract(farm)` is true): it can be whitelisted, calls
//! `lockVirtual` for users and for itself, holds locked tokens, has an energy entry and calls the
//! factory / token-unstake like a user (a vault that farms in its own name).  It is snapshotted and
//! printed like a user (`farm=` entry at the end of the state line) and is part of every supply sum.
//! The C08 oracle is the ATTRIBUTED form (Props/C08Attr): a signed ledger kept from REAL balance
//! deltas (the change of the holder's row is booked on the transaction's energy address).

use mxharness::*;
use num_bigint::{BigInt, BigUint, Sign};
use num_traits::{One, Zero};

use multiversx_sc::codec::multi_types::OptionalValue;
use multiversx_sc::storage::mappers::StorageTokenWrapper;
use multiversx_sc::types::{Address, EsdtLocalRole, MultiValueEncoded};
use multiversx_sc_scenario::{
    managed_address, managed_token_id, rust_biguint, whitebox_legacy::*, DebugApi,
};

use energy_factory::energy::{Energy, EnergyModule as _};
use energy_factory::lock_options_endpoints::LockOptionsEndpointsModule as _;
use energy_factory::locked_token_transfer::LockedTokenTransferModule as _;
use energy_factory::token_merging::TokenMergingModule as _;
use energy_factory::unlock_with_penalty::UnlockWithPenaltyModule as _;
use energy_factory::unstake::UnstakeModule as _;
use energy_factory::virtual_lock::VirtualLockModule as _;
use energy_factory::SimpleLockEnergy as _;
use fees_collector::config::ConfigModule as _;
use fees_collector::fees_accumulation::FeesAccumulationModule as _;
use fees_collector::FeesCollector as _;
use lkmex_transfer::LkmexTransfer as _;
use locked_token_wrapper::wrapped_token::{WrappedTokenAttributes, WrappedTokenModule as _};
use locked_token_wrapper::LockedTokenWrapper as _;
use multiversx_sc_modules::pause::PauseModule as _;
use permissions_module::PermissionsModule as _;
use sc_whitelist_module::SCWhitelistModule as _;
use simple_lock::locked_token::LockedTokenModule as _;
use token_unstake::cancel_unstake::CancelUnstakeModule as _;
use token_unstake::fees_handler::FeesHandlerModule as _;
use token_unstake::tokens_per_user::TokensPerUserModule as _;
use token_unstake::unbond_tokens::UnbondTokensModule as _;
use token_unstake::TokenUnstakeModule as _;
use week_timekeeping::WeekTimekeepingModule as _;

const BASE: &[u8] = b"MEX-123456";
const LOCKED: &[u8] = b"LOCKED-123456";
const LEGACY: &[u8] = b"LEGACY-123456";
const WRAPPED: &[u8] = b"WRAPPED-123456";
const OTHER: &[u8] = b"OTHER-123456";
const MAXPCT: u64 = 10_000;
const FARM: u64 = 9;

type FacObj = energy_factory::ContractObj<DebugApi>;
type FacW = ContractObjWrapper<FacObj, fn() -> FacObj>;
type UnObj = token_unstake::ContractObj<DebugApi>;
type UnW = ContractObjWrapper<UnObj, fn() -> UnObj>;
type TrObj = lkmex_transfer::ContractObj<DebugApi>;
type TrW = ContractObjWrapper<TrObj, fn() -> TrObj>;
type WrObj = locked_token_wrapper::ContractObj<DebugApi>;
type WrW = ContractObjWrapper<WrObj, fn() -> WrObj>;
type CollObj = fees_collector::ContractObj<DebugApi>;
type CollW = ContractObjWrapper<CollObj, fn() -> CollObj>;
type FarmObj = farm_with_locked_rewards::ContractObj<DebugApi>;
type FarmW = ContractObjWrapper<FarmObj, fn() -> FarmObj>;

fn fac_builder() -> FacObj {
    energy_factory::contract_obj()
}
fn un_builder() -> UnObj {
    token_unstake::contract_obj()
}
fn tr_builder() -> TrObj {
    lkmex_transfer::contract_obj()
}
fn wr_builder() -> WrObj {
    locked_token_wrapper::contract_obj()
}
fn coll_builder() -> CollObj {
    fees_collector::contract_obj()
}
fn farm_builder() -> FarmObj {
    farm_with_locked_rewards::contract_obj()
}

type MBig = multiversx_sc::types::BigUint<DebugApi>;
type MInt = multiversx_sc::types::BigInt<DebugApi>;

fn to_big(x: &MBig) -> BigUint {
    BigUint::from_bytes_be(x.to_bytes_be().as_slice())
}
fn to_int(x: &MInt) -> BigInt {
    let mag = to_big(&x.magnitude());
    if *x < 0 {
        BigInt::from_biguint(Sign::Minus, mag)
    } else {
        BigInt::from_biguint(Sign::Plus, mag)
    }
}
fn mbig(x: &BigUint) -> MBig {
    MBig::from_bytes_be(&x.to_bytes_be())
}
fn mint(x: &BigInt) -> MInt {
    let m = MInt::from(mbig(x.magnitude()));
    if x.sign() == Sign::Minus {
        m * MInt::from(-1i64)
    } else {
        m
    }
}

type Pays = Vec<(u64, BigUint)>;

fn parse_pays(t: &str, sep: char) -> Pays {
    if t == "-" {
        return vec![];
    }
    t.split(sep)
        .map(|w| {
            let (a, b) = w.split_once(':').unwrap();
            (a.parse().unwrap(), big(b))
        })
        .collect()
}
fn show_pays(p: &[(u64, BigUint)], sep: &str) -> String {
    if p.is_empty() {
        return "-".into();
    }
    p.iter().map(|(n, a)| format!("{n}:{a}")).collect::<Vec<_>>().join(sep)
}
fn show_row(r: &[BigUint]) -> String {
    let v: Vec<String> = r
        .iter()
        .enumerate()
        .filter(|(_, a)| !a.is_zero())
        .map(|(i, a)| format!("{}:{}", i + 1, a))
        .collect();
    if v.is_empty() {
        "-".into()
    } else {
        v.join(",")
    }
}
fn show_u64s(v: &[u64]) -> String {
    if v.is_empty() {
        "-".into()
    } else {
        v.iter().map(|x| x.to_string()).collect::<Vec<_>>().join(",")
    }
}
fn or_dash(s: String) -> String {
    if s.is_empty() {
        "-".into()
    } else {
        s
    }
}

#[derive(Clone, Default, Debug, PartialEq)]
struct USnap {
    base: BigUint,
    raw: Option<(BigInt, u64, BigUint)>,
    view: (BigInt, u64, BigUint),
    amount: BigUint,
    locked: Vec<BigUint>,
    wrapped: Vec<BigUint>,
    queue: Vec<(u64, u64, BigUint, BigUint)>,
}

#[derive(Clone, Default, Debug, PartialEq)]
struct Snap {
    epoch: u64,
    paused: bool,
    nonces: Vec<u64>,
    wnonces: Vec<u64>,
    opts: Vec<(u64, u64)>,
    bp: u64,
    wl: Vec<u64>,
    users: Vec<USnap>,
    /// the FARM contract account, a first-class holder
    farm: USnap,
    /// the account every id outside the world maps to (not printed; part of the supply sums)
    nobody: USnap,
    fac: Vec<BigUint>,
    un: Vec<BigUint>,
    un_base: BigUint,
    tr: Vec<BigUint>,
    wr: Vec<BigUint>,
    xfers: Vec<(u64, u64, u64, Pays)>,
    sl: Vec<(u64, u64)>,
    rl: Vec<(u64, u64)>,
    sce: bool,
    sc_views: Vec<(BigInt, BigUint)>,
    base_supply: BigUint,
    locked_supply: BigUint,
    circ: BigUint,
    pp: BigUint,
    coll_cell: BigUint,
}

impl Snap {
    /// the account with model id `id`
    fn acc(&self, id: u64) -> &USnap {
        if id == FARM {
            &self.farm
        } else if id >= 1 && (id as usize) <= self.users.len() {
            &self.users[(id - 1) as usize]
        } else {
            &self.nobody
        }
    }
    /// every account that can hold locked tokens / have an entry, with its id (0 = `nobody`)
    fn accounts(&self) -> Vec<(u64, &USnap)> {
        let mut v: Vec<(u64, &USnap)> = self.users.iter().enumerate().map(|(i, u)| (i as u64 + 1, u)).collect();
        v.push((FARM, &self.farm));
        v.push((0, &self.nobody));
        v
    }
}

fn acc_name(id: u64) -> String {
    if id == FARM { "farm".into() } else if id == 0 { "nobody".into() } else { format!("u{id}") }
}

#[derive(Clone, Default, Debug, PartialEq)]
struct Ghost {
    pb: BigUint,
    co: BigUint,
    mu: BigUint,
    me: BigUint,
    bl: BigUint,
    bc: BigUint,
    vl: BigUint,
}

struct EnergyWorld {
    b: BlockchainStateWrapper,
    owner: Address,
    users: Vec<Address>,
    farm: Address,
    #[allow(dead_code)]
    farm_sc: FarmW,
    nobody: Address,
    fac: FacW,
    un: UnW,
    tr: TrW,
    wr: WrW,
    coll: CollW,
    epoch: u64,
    unbond: u64,
    min_lock: u64,
    cooldown: u64,
    nonces: Vec<u64>,
    wnonces: Vec<u64>,
    base_init: BigUint,
    g: Ghost,
    pending: Vec<String>,
    last_quote: Option<(String, BigUint)>,
    /// C08 attribution ledger (Props/C08Attr `attr`): account id -> signed row over the nonces,
    /// accumulated from REAL balance deltas: the change of the holder's row in a successful
    /// transaction is booked on the energy address of that transaction
    attr: std::collections::BTreeMap<u64, Vec<BigInt>>,
    /// a separating op (merge for another account / lockVirtual with energy address != destination)
    /// has succeeded in this history: from then on holder and attributed account may differ
    separated: bool,
}

impl EnergyWorld {
    fn in_world(&self, id: u64) -> bool {
        id == FARM || (id >= 1 && (id as usize) <= self.users.len())
    }
    /// key of an account id in the attribution ledger (ids outside the world share `nobody` = 0)
    fn key(&self, id: u64) -> u64 {
        if self.in_world(id) { id } else { 0 }
    }
    fn addr(&self, id: u64) -> Address {
        if id == FARM {
            self.farm.clone()
        } else if id >= 1 && (id as usize) <= self.users.len() {
            self.users[(id - 1) as usize].clone()
        } else {
            // ids outside the world act as one extra user account without funds
            self.nobody.clone()
        }
    }
    fn lbal(&self, a: &Address, n: u64) -> BigUint {
        self.b.get_esdt_balance(a, LOCKED, n)
    }

    /// discover nonces created since the last snapshot (the creator keeps 1 unit of each for ever)
    fn refresh_nonces(&mut self) {
        let fa = self.fac.address_ref().clone();
        loop {
            let n = self.nonces.len() as u64 + 1;
            if self.lbal(&fa, n).is_zero() {
                break;
            }
            let raw: Vec<u8> = self.b.get_nft_attributes::<Vec<u8>>(&fa, LOCKED, n).unwrap();
            let l = raw.len();
            let mut x = [0u8; 8];
            x.copy_from_slice(&raw[l - 8..]);
            self.nonces.push(u64::from_be_bytes(x));
        }
        let wa = self.wr.address_ref().clone();
        loop {
            let n = self.wnonces.len() as u64 + 1;
            if self.b.get_esdt_balance(&wa, WRAPPED, n).is_zero() {
                break;
            }
            let raw: Vec<u8> = self.b.get_nft_attributes::<Vec<u8>>(&wa, WRAPPED, n).unwrap();
            let mut x = [0u8; 8];
            x.copy_from_slice(&raw[raw.len() - 8..]);
            self.wnonces.push(u64::from_be_bytes(x));
        }
    }

    fn row(&self, a: &Address) -> Vec<BigUint> {
        (1..=self.nonces.len() as u64).map(|n| self.lbal(a, n)).collect()
    }

    fn snap(&mut self) -> Snap {
        self.refresh_nonces();
        let mut s = Snap { epoch: self.epoch, nonces: self.nonces.clone(), wnonces: self.wnonces.clone(), ..Default::default() };
        let nusers = self.users.len();
        // users, then the FARM contract account, then `nobody`
        let users: Vec<Address> = self.users.iter().cloned().chain([self.farm.clone(), self.nobody.clone()]).collect();
        let sc_addrs: Vec<Address> = vec![
            self.fac.address_ref().clone(),
            self.un.address_ref().clone(),
            self.tr.address_ref().clone(),
            self.wr.address_ref().clone(),
            self.coll.address_ref().clone(),
        ];
        let cand: Vec<(u64, Address)> = (1..=nusers as u64).map(|i| (i, self.addr(i))).chain(std::iter::once((FARM, self.farm.clone()))).collect();
        // ---- factory: energy entries, options, pause, whitelist
        let mut ents: Vec<(Option<(BigInt, u64, BigUint)>, (BigInt, u64, BigUint), BigUint)> = vec![];
        let mut scv: Vec<(BigInt, BigUint)> = vec![];
        let mut sce = false;
        let (mut opts, mut paused, mut wl) = (vec![], false, vec![]);
        self.b
            .execute_query(&self.fac, |sc| {
                for u in users.iter() {
                    let ma = managed_address!(u);
                    let m = sc.user_energy(&ma);
                    let raw = if m.is_empty() {
                        None
                    } else {
                        let e = m.get();
                        Some((to_int(e.get_energy_amount_raw()), e.get_last_update_epoch(), to_big(e.get_total_locked_tokens())))
                    };
                    let v = sc.get_updated_energy_entry_for_user(&ma);
                    let view = (to_int(v.get_energy_amount_raw()), v.get_last_update_epoch(), to_big(v.get_total_locked_tokens()));
                    let amt = to_big(&sc.get_energy_amount_for_user(ma));
                    ents.push((raw, view, amt));
                }
                for a in sc_addrs.iter() {
                    let ma = managed_address!(a);
                    if !sc.user_energy(&ma).is_empty() {
                        sce = true;
                    }
                    let v = sc.get_updated_energy_entry_for_user(&ma);
                    scv.push((to_int(v.get_energy_amount_raw()), to_big(v.get_total_locked_tokens())));
                }
                for o in sc.get_lock_options_view().iter() {
                    opts.push((o.lock_epochs, o.penalty_start_percentage));
                }
                paused = sc.is_paused();
                for (i, a) in cand.iter() {
                    if sc.is_sc_address_whitelisted(managed_address!(a)) {
                        wl.push(*i);
                    }
                }
            })
            .assert_ok();
        s.opts = opts;
        s.paused = paused;
        s.wl = wl;
        s.sce = sce;
        s.sc_views = scv;
        // ---- token-unstake: queues, burn percentage
        let mut queues: Vec<Vec<(u64, u64, BigUint, BigUint)>> = vec![];
        let mut bp = 0u64;
        self.b
            .execute_query(&self.un, |sc| {
                for u in users.iter() {
                    let mut q = vec![];
                    let m = sc.unlocked_tokens_for_user(&managed_address!(u));
                    if !m.is_empty() {
                        for e in m.get().iter() {
                            q.push((e.unlock_epoch, e.locked_tokens.token_nonce, to_big(&e.locked_tokens.amount), to_big(&e.unlocked_tokens.amount)));
                        }
                    }
                    queues.push(q);
                }
                bp = sc.fees_burn_percentage().get();
            })
            .assert_ok();
        s.bp = bp;
        // ---- lkmex-transfer: pending transfers, cooldown records
        let mut xf: Vec<(u64, u64, u64, Pays)> = vec![];
        let (mut sl, mut rl) = (vec![], vec![]);
        let ids: Vec<(u64, Address)> = (1..=nusers as u64).map(|i| (i, self.addr(i))).collect();
        self.b
            .execute_query(&self.tr, |sc| {
                for (ri, ra) in ids.iter() {
                    let mra = managed_address!(ra);
                    for (si, sa) in ids.iter() {
                        let m = sc.locked_funds(&mra, &managed_address!(sa));
                        if !m.is_empty() {
                            let lf = m.get();
                            let funds: Pays = lf.funds.iter().map(|p| (p.token_nonce, to_big(&p.amount))).collect();
                            xf.push((*ri, *si, lf.locked_epoch, funds));
                        }
                    }
                    let m = sc.sender_last_transfer_epoch(&mra);
                    if !m.is_empty() {
                        sl.push((*ri, m.get()));
                    }
                    let m = sc.receiver_last_transfer_epoch(&mra);
                    if !m.is_empty() {
                        rl.push((*ri, m.get()));
                    }
                }
            })
            .assert_ok();
        s.xfers = xf;
        s.sl = sl;
        s.rl = rl;
        // ---- fees collector: this week's locked-token counter
        let mut cell = BigUint::zero();
        self.b
            .execute_query(&self.coll, |sc| {
                let w = sc.get_current_week();
                cell = to_big(&sc.accumulated_fees(w, &managed_token_id!(LOCKED)).get());
            })
            .assert_ok();
        s.coll_cell = cell;
        // ---- balances
        let mut base_supply = BigUint::zero();
        let mut locked_supply = BigUint::zero();
        let mut circ = BigUint::zero();
        let mut pp = BigUint::zero();
        for (i, u) in users.iter().enumerate() {
            let (raw, view, amount) = ents[i].clone();
            let us = USnap {
                base: self.b.get_esdt_balance(u, BASE, 0),
                raw,
                view,
                amount,
                locked: self.row(u),
                wrapped: (1..=self.wnonces.len() as u64).map(|n| self.b.get_esdt_balance(u, WRAPPED, n)).collect(),
                queue: queues[i].clone(),
            };
            base_supply += &us.base;
            for a in us.locked.iter() {
                locked_supply += a;
                circ += a;
            }
            for q in us.queue.iter() {
                pp += &q.2 - &q.3;
            }
            if i < nusers {
                s.users.push(us);
            } else if i == nusers {
                s.farm = us;
            } else {
                s.nobody = us;
            }
        }
        s.fac = self.row(&sc_addrs[0]);
        s.un = self.row(&sc_addrs[1]);
        s.tr = self.row(&sc_addrs[2]);
        s.wr = self.row(&sc_addrs[3]);
        let collr = self.row(&sc_addrs[4]);
        let extra = [self.owner.clone()];
        for a in sc_addrs.iter().chain(extra.iter()) {
            base_supply += self.b.get_esdt_balance(a, BASE, 0);
        }
        for r in [&s.fac, &s.un, &s.tr, &s.wr, &collr] {
            for a in r.iter() {
                locked_supply += a;
            }
        }
        for a in extra.iter() {
            for x in self.row(a) {
                locked_supply += &x;
                circ += &x;
            }
        }
        for a in s.tr.iter().chain(s.wr.iter()) {
            circ += a;
        }
        s.un_base = self.b.get_esdt_balance(&sc_addrs[1], BASE, 0);
        s.base_supply = base_supply;
        s.locked_supply = locked_supply;
        s.circ = circ;
        s.pp = pp;
        s
    }

    fn state_line(&self, s: &Snap) -> String {
        let show_acc = |name: &str, u: &USnap| -> String {
            let raw = match &u.raw {
                None => "-".to_string(),
                Some((e, l, t)) => format!("{e},{l},{t}"),
            };
            let q = or_dash(u.queue.iter().map(|(a, b, c, d)| format!("{a},{b},{c},{d}")).collect::<Vec<_>>().join(";"));
            format!(
                "{}={}/{}/{},{},{}/{}/{}/{}",
                name, u.base, raw, u.view.0, u.view.2, u.amount, show_row(&u.locked), show_row(&u.wrapped), q
            )
        };
        let mut us = vec![];
        for (i, u) in s.users.iter().enumerate() {
            us.push(show_acc(&format!("u{}", i + 1), u));
        }
        let mut xs = s.xfers.clone();
        xs.sort_by(|a, b| (a.0, a.1).cmp(&(b.0, b.1)));
        let x = or_dash(xs.iter().map(|(r, sd, e, f)| format!("{r},{sd},{e},{}", show_pays(f, "+"))).collect::<Vec<_>>().join(";"));
        let last = |v: &Vec<(u64, u64)>| or_dash(v.iter().map(|(u, e)| format!("{u}:{e}")).collect::<Vec<_>>().join(","));
        let opts: Vec<(u64, BigUint)> = s.opts.iter().map(|(e, p)| (*e, BigUint::from(*p))).collect();
        format!(
            "ep={} ps={} N={} WN={} opts={} bp={} wl={} {} fac={} un={}/{} tr={} wr={} x={} sl={} rl={} sce={} bs={} ci={} pp={} pb={} co={} mu={} me={} bl={} bc={} vl={} {}",
            s.epoch, if s.paused { 1 } else { 0 }, show_u64s(&s.nonces), show_u64s(&s.wnonces), show_pays(&opts, ","), s.bp,
            show_u64s(&s.wl), us.join(" "), show_row(&s.fac), show_row(&s.un), s.un_base, show_row(&s.tr), show_row(&s.wr),
            x, last(&s.sl), last(&s.rl), if s.sce { 1 } else { 0 }, s.base_supply, s.circ, s.pp,
            self.g.pb, self.g.co, self.g.mu, self.g.me, self.g.bl, self.g.bc, self.g.vl,
            show_acc("farm", &s.farm)
        )
    }
}

impl World for EnergyWorld {
    const NAME: &'static str = "energy";

    fn gen_header(rng: &mut Rng, h: u64, tier: &str) -> String {
        gen_header_impl(rng, h, tier)
    }

    fn new(header: &str) -> Self {
        DebugApi::dummy();
        let ep0 = kv_u64(header, "ep", 1);
        let nusers = kv_u64(header, "users", 3);
        let funds = big(kv(header, "funds").unwrap_or("1000000000000000000000000000000000000"));
        let unbond = kv_u64(header, "unbond", 10);
        let burn = kv_u64(header, "burn", 5000);
        let min_lock = kv_u64(header, "minlock", 4);
        let cooldown = kv_u64(header, "cooldown", 6);
        let opts: Vec<(u64, u64)> = parse_pays(kv(header, "opts").unwrap_or("360:4000,720:6000,1440:8000"), ',')
            .into_iter()
            .map(|(e, p)| (e, p.to_string().parse::<u64>().unwrap()))
            .collect();
        let zero = rust_biguint!(0);
        let mut b = BlockchainStateWrapper::new();
        let owner = b.create_user_account(&zero);
        let mut users = vec![];
        for _ in 0..nusers {
            let u = b.create_user_account(&zero);
            b.set_esdt_balance(&u, BASE, &funds);
            users.push(u);
        }
        let nobody = b.create_user_account(&zero);
        b.set_block_epoch(ep0);
        let fac: FacW = b.create_sc_account(&zero, Some(&owner), fac_builder as fn() -> FacObj, "energy factory");
        let un: UnW = b.create_sc_account(&zero, Some(&owner), un_builder as fn() -> UnObj, "token unstake");
        let tr: TrW = b.create_sc_account(&zero, Some(&owner), tr_builder as fn() -> TrObj, "lkmex transfer");
        let wr: WrW = b.create_sc_account(&zero, Some(&owner), wr_builder as fn() -> WrObj, "wrapper");
        let coll: CollW = b.create_sc_account(&zero, Some(&owner), coll_builder as fn() -> CollObj, "fees collector");
        // FARM: a real smart-contract account (never called; it is the CALLER / holder / energy address)
        let farm_sc: FarmW = b.create_sc_account(&zero, Some(&owner), farm_builder as fn() -> FarmObj, "farm vault");
        let farm = farm_sc.address_ref().clone();
        let (fa, ua, ta, wa, ca) = (
            fac.address_ref().clone(),
            un.address_ref().clone(),
            tr.address_ref().clone(),
            wr.address_ref().clone(),
            coll.address_ref().clone(),
        );
        // energy factory, as in energy_factory_setup / token_unstake_setup / lkmex_transfer_tests
        b.execute_tx(&owner, &fac, &zero, |sc| {
            let mut lock_options = MultiValueEncoded::new();
            for (e, p) in opts.iter() {
                lock_options.push((*e, *p).into());
            }
            sc.init(managed_token_id!(BASE), managed_token_id!(LEGACY), managed_address!(&ua), 0, lock_options);
            sc.locked_token().set_token_id(managed_token_id!(LOCKED));
            sc.set_paused(false);
            sc.set_token_unstake_address(managed_address!(&ua));
            sc.token_transfer_whitelist().add(&managed_address!(&ta));
            sc.token_transfer_whitelist().add(&managed_address!(&wa));
        })
        .assert_ok();
        b.execute_tx(&owner, &un, &zero, |sc| {
            sc.init(unbond, managed_address!(&fa), burn, managed_address!(&ca));
        })
        .assert_ok();
        b.execute_tx(&owner, &tr, &zero, |sc| {
            sc.init(managed_address!(&fa), managed_token_id!(LOCKED), min_lock, cooldown);
            // `cancelTransfer` wants the ADMIN bit; `init` only gives the deployer OWNER
            sc.add_permissions(managed_address!(&owner), permissions_module::Permissions::OWNER | permissions_module::Permissions::ADMIN);
        })
        .assert_ok();
        b.execute_tx(&owner, &wr, &zero, |sc| {
            sc.init(managed_address!(&fa));
            sc.wrapped_token().set_token_id(managed_token_id!(WRAPPED));
        })
        .assert_ok();
        b.execute_tx(&owner, &coll, &zero, |sc| {
            sc.init(managed_token_id!(LOCKED), managed_address!(&fa));
            let _ = sc.known_contracts().insert(managed_address!(&ua));
        })
        .assert_ok();
        b.set_esdt_local_roles(&fa, BASE, &[EsdtLocalRole::Mint, EsdtLocalRole::Burn]);
        b.set_esdt_local_roles(&fa, LOCKED, &[EsdtLocalRole::NftCreate, EsdtLocalRole::NftAddQuantity, EsdtLocalRole::NftBurn, EsdtLocalRole::Transfer]);
        b.set_esdt_local_roles(&fa, LEGACY, &[EsdtLocalRole::NftBurn]);
        b.set_esdt_local_roles(&ua, BASE, &[EsdtLocalRole::Burn]);
        b.set_esdt_local_roles(&ua, LOCKED, &[EsdtLocalRole::NftBurn]);
        b.set_esdt_local_roles(&ta, LOCKED, &[EsdtLocalRole::Transfer]);
        b.set_esdt_local_roles(&wa, LOCKED, &[EsdtLocalRole::Transfer]);
        b.set_esdt_local_roles(&wa, WRAPPED, &[EsdtLocalRole::NftCreate, EsdtLocalRole::NftAddQuantity, EsdtLocalRole::NftBurn]);
        b.set_esdt_local_roles(&ca, LOCKED, &[EsdtLocalRole::NftBurn]);
        let base_init = &funds * BigUint::from(nusers);
        EnergyWorld {
            b, owner, users, farm, farm_sc, nobody, fac, un, tr, wr, coll,
            epoch: ep0, unbond, min_lock, cooldown,
            nonces: vec![], wnonces: vec![], base_init, g: Ghost::default(), pending: vec![], last_quote: None,
            attr: Default::default(), separated: false,
        }
    }

    fn gen_line(&mut self, rng: &mut Rng, step: u64, tier: &str) -> (char, String) {
        self.gen_line_impl(rng, step, tier)
    }

    fn exec(&mut self, tr: &mut Trace, text: &str) {
        self.exec_impl(tr, text)
    }

    fn query(&mut self, tr: &mut Trace, text: &str) {
        self.query_impl(tr, text)
    }
}

// ---------------------------------------------------------------------------------------
// execution of op text on the real contracts
// ---------------------------------------------------------------------------------------
fn transfers(token: &[u8], ps: &Pays) -> Vec<TxTokenTransfer> {
    ps.iter()
        .map(|(n, a)| TxTokenTransfer { token_identifier: token.to_vec(), nonce: *n, value: a.clone() })
        .collect()
}

/// what an executed op reported / what the oracles need to know about it
#[derive(Default, Clone)]
struct Info {
    who: u64,
    outs: (BigUint, BigUint, BigUint),
    pays: Pays,
    arg_epochs: u64,
    dest: u64,
    /// (holder, energy address) of the transaction = `Op.parties` of Lemmas/EnergyAttrStep
    parties: Option<(u64, u64)>,
}

impl EnergyWorld {
    fn exec_impl(&mut self, tr: &mut Trace, text: &str) {
        let n = tr.op(text);
        let w: Vec<&str> = text.split_whitespace().collect();
        let site = w[0].to_string();
        tr.count(&format!("op.{site}"));
        let pre = self.snap();
        let pre_line = self.state_line(&pre);
        let zero = rust_biguint!(0);
        let owner = self.owner.clone();
        let mut inf = Info::default();
        let u64of = |s: &str| -> u64 { s.parse().unwrap() };
        let ok: bool = match w[0] {
            "lock" => {
                let (c, amt, ep, d) = (u64of(w[1]), big(w[2]), u64of(w[3]), u64of(w[4]));
                inf.who = c;
                inf.arg_epochs = ep;
                inf.dest = if d == 0 { c } else { d };
                inf.parties = Some((inf.dest, inf.dest));
                inf.pays = vec![(0, amt.clone())];
                let ca = self.addr(c);
                let da = self.addr(d);
                let mut o = (0u64, BigUint::zero());
                let r = self.b.execute_esdt_transfer(&ca, &self.fac, BASE, 0, &amt, |sc| {
                    let dest = if d == 0 { OptionalValue::None } else { OptionalValue::Some(managed_address!(&da)) };
                    let p = sc.lock_tokens_endpoint(ep, dest);
                    o = (p.token_nonce, to_big(&p.amount));
                });
                inf.outs = (BigUint::from(o.0), o.1, BigUint::zero());
                r.result_status == 0
            }
            "extend" => {
                let (c, nn, amt, ep, d) = (u64of(w[1]), u64of(w[2]), big(w[3]), u64of(w[4]), u64of(w[5]));
                inf.who = c;
                inf.arg_epochs = ep;
                inf.dest = if d == 0 { c } else { d };
                inf.parties = Some((c, c));
                inf.pays = vec![(nn, amt.clone())];
                let ca = self.addr(c);
                let da = self.addr(d);
                let mut o = (0u64, BigUint::zero());
                let r = self.b.execute_esdt_transfer(&ca, &self.fac, LOCKED, nn, &amt, |sc| {
                    let dest = if d == 0 { OptionalValue::None } else { OptionalValue::Some(managed_address!(&da)) };
                    let p = sc.lock_tokens_endpoint(ep, dest);
                    o = (p.token_nonce, to_big(&p.amount));
                });
                inf.outs = (BigUint::from(o.0), o.1, BigUint::zero());
                r.result_status == 0
            }
            "unlock" => {
                let c = u64of(w[1]);
                let ps = parse_pays(w[2], ',');
                inf.who = c;
                inf.parties = Some((c, c));
                inf.pays = ps.clone();
                let ca = self.addr(c);
                let mut o = BigUint::zero();
                let r = if ps.is_empty() {
                    self.b.execute_tx(&ca, &self.fac, &zero, |sc| {
                        let p = sc.unlock_tokens_endpoint();
                        o = to_big(&p.amount);
                    })
                } else {
                    self.b.execute_esdt_multi_transfer(&ca, &self.fac, &transfers(LOCKED, &ps), |sc| {
                        let p = sc.unlock_tokens_endpoint();
                        o = to_big(&p.amount);
                    })
                };
                inf.outs = (o, BigUint::zero(), BigUint::zero());
                r.result_status == 0
            }
            "merge" => {
                let (c, orig) = (u64of(w[1]), u64of(w[2]));
                let ps = parse_pays(w[3], ',');
                inf.who = c;
                inf.dest = if orig == 0 { c } else { orig };
                inf.parties = Some((c, inf.dest));
                inf.pays = ps.clone();
                let ca = self.addr(c);
                let oa = self.addr(orig);
                let mut o = (0u64, BigUint::zero());
                let f = |sc: FacObj, o: &mut (u64, BigUint)| {
                    let oc = if orig == 0 { OptionalValue::None } else { OptionalValue::Some(managed_address!(&oa)) };
                    let p = sc.merge_tokens_endpoint(oc);
                    *o = (p.token_nonce, to_big(&p.amount));
                };
                let r = if ps.is_empty() {
                    self.b.execute_tx(&ca, &self.fac, &zero, |sc| f(sc, &mut o))
                } else {
                    self.b.execute_esdt_multi_transfer(&ca, &self.fac, &transfers(LOCKED, &ps), |sc| f(sc, &mut o))
                };
                inf.outs = (BigUint::from(o.0), o.1, BigUint::zero());
                r.result_status == 0
            }
            "unlockEarly" => {
                let (c, nn, amt) = (u64of(w[1]), u64of(w[2]), big(w[3]));
                inf.who = c;
                inf.parties = Some((c, c));
                inf.pays = vec![(nn, amt.clone())];
                let ca = self.addr(c);
                let r = self.b.execute_esdt_transfer(&ca, &self.fac, LOCKED, nn, &amt, |sc| {
                    sc.unlock_early();
                });
                r.result_status == 0
            }
            "reduce" => {
                let (c, nn, amt, ep) = (u64of(w[1]), u64of(w[2]), big(w[3]), u64of(w[4]));
                inf.who = c;
                inf.parties = Some((c, c));
                inf.arg_epochs = ep;
                inf.pays = vec![(nn, amt.clone())];
                let ca = self.addr(c);
                let mut o = (0u64, BigUint::zero());
                let r = self.b.execute_esdt_transfer(&ca, &self.fac, LOCKED, nn, &amt, |sc| {
                    let p = sc.reduce_lock_period(ep);
                    o = (p.token_nonce, to_big(&p.amount));
                });
                let okk = r.result_status == 0;
                let pen = if okk { &amt - &o.1 } else { BigUint::zero() };
                inf.outs = (BigUint::from(o.0), o.1, pen);
                okk
            }
            "lockVirtual" => {
                let (c, amt, ep, d, ea) = (u64of(w[1]), big(w[2]), u64of(w[3]), u64of(w[4]), u64of(w[5]));
                inf.who = c;
                inf.arg_epochs = ep;
                inf.dest = d;
                inf.parties = Some((d, ea));
                inf.pays = vec![(0, amt.clone())];
                let (ca, da, eaa) = (self.addr(c), self.addr(d), self.addr(ea));
                let mut o = (0u64, BigUint::zero());
                let r = self.b.execute_tx(&ca, &self.fac, &zero, |sc| {
                    let p = sc.lock_virtual(managed_token_id!(BASE), mbig(&amt), ep, managed_address!(&da), managed_address!(&eaa));
                    o = (p.token_nonce, to_big(&p.amount));
                });
                inf.outs = (BigUint::from(o.0), o.1, BigUint::zero());
                r.result_status == 0
            }
            "claim" => {
                let c = u64of(w[1]);
                inf.who = c;
                let ca = self.addr(c);
                let mut o = (BigUint::zero(), 0u64);
                let r = self.b.execute_tx(&ca, &self.un, &zero, |sc| {
                    let ps = sc.claim_unlocked_tokens();
                    for p in ps.into_iter() {
                        o.0 += to_big(&p.amount);
                        o.1 += 1;
                    }
                });
                inf.outs = (o.0, BigUint::from(o.1), BigUint::zero());
                r.result_status == 0
            }
            "cancel" => {
                let c = u64of(w[1]);
                inf.who = c;
                inf.parties = Some((c, c));
                let ca = self.addr(c);
                let mut cnt = 0u64;
                let r = self.b.execute_tx(&ca, &self.un, &zero, |sc| {
                    let ps = sc.cancel_unbond();
                    cnt = ps.len() as u64;
                });
                inf.outs = (BigUint::from(cnt), BigUint::zero(), BigUint::zero());
                r.result_status == 0
            }
            "lockFunds" => {
                let (c, rcv) = (u64of(w[1]), u64of(w[2]));
                let ps = parse_pays(w[3], ',');
                inf.who = c;
                inf.dest = rcv;
                inf.parties = Some((c, c));
                inf.pays = ps.clone();
                let (ca, ra) = (self.addr(c), self.addr(rcv));
                let r = if ps.is_empty() {
                    self.b.execute_tx(&ca, &self.tr, &zero, |sc| sc.lock_funds(managed_address!(&ra)))
                } else {
                    self.b.execute_esdt_multi_transfer(&ca, &self.tr, &transfers(LOCKED, &ps), |sc| sc.lock_funds(managed_address!(&ra)))
                };
                r.result_status == 0
            }
            "withdraw" => {
                let (c, sd) = (u64of(w[1]), u64of(w[2]));
                inf.who = c;
                inf.dest = sd;
                inf.parties = Some((c, c));
                let (ca, sa) = (self.addr(c), self.addr(sd));
                self.b.execute_tx(&ca, &self.tr, &zero, |sc| sc.withdraw(managed_address!(&sa))).result_status == 0
            }
            "cancelTransfer" => {
                let (sd, rcv) = (u64of(w[1]), u64of(w[2]));
                inf.who = sd;
                inf.dest = rcv;
                inf.parties = Some((sd, sd));
                let (sa, ra) = (self.addr(sd), self.addr(rcv));
                self.b.execute_tx(&owner, &self.tr, &zero, |sc| sc.cancel_transfer(managed_address!(&sa), managed_address!(&ra))).result_status == 0
            }
            "wrap" => {
                let (c, nn, amt) = (u64of(w[1]), u64of(w[2]), big(w[3]));
                inf.who = c;
                inf.parties = Some((c, c));
                inf.pays = vec![(nn, amt.clone())];
                let ca = self.addr(c);
                let mut o = (0u64, BigUint::zero());
                let r = self.b.execute_esdt_transfer(&ca, &self.wr, LOCKED, nn, &amt, |sc| {
                    let p = sc.wrap_locked_token_endpoint();
                    o = (p.token_nonce, to_big(&p.amount));
                });
                inf.outs = (BigUint::from(o.0), o.1, BigUint::zero());
                r.result_status == 0
            }
            "unwrap" => {
                let (c, wn, amt) = (u64of(w[1]), u64of(w[2]), big(w[3]));
                inf.who = c;
                inf.parties = Some((c, c));
                inf.pays = vec![(wn, amt.clone())];
                let ca = self.addr(c);
                let mut o = (0u64, BigUint::zero());
                let r = self.b.execute_esdt_transfer(&ca, &self.wr, WRAPPED, wn, &amt, |sc| {
                    let p = sc.unwrap_locked_token_endpoint();
                    o = (p.token_nonce, to_big(&p.amount));
                });
                inf.outs = (BigUint::from(o.0), o.1, BigUint::zero());
                r.result_status == 0
            }
            "xferWrapped" => {
                // plain ESDT transfer between two accounts (platform operation, no contract involved)
                let (c, to, wn, amt) = (u64of(w[1]), u64of(w[2]), u64of(w[3]), big(w[4]));
                inf.who = c;
                inf.dest = to;
                let (ca, ta) = (self.addr(c), self.addr(to));
                let have = self.b.get_esdt_balance(&ca, WRAPPED, wn);
                if amt.is_zero() || c == to || have < amt || wn == 0 || wn as usize > self.wnonces.len() {
                    false
                } else {
                    let attr = WrappedTokenAttributes { locked_token_nonce: self.wnonces[(wn - 1) as usize] };
                    let th = self.b.get_esdt_balance(&ta, WRAPPED, wn);
                    self.b.set_nft_balance(&ca, WRAPPED, wn, &(&have - &amt), &attr);
                    self.b.set_nft_balance(&ta, WRAPPED, wn, &(&th + &amt), &attr);
                    true
                }
            }
            "addOptions" => {
                let ps = parse_pays(w[1], ',');
                self.b
                    .execute_tx(&owner, &self.fac, &zero, |sc| {
                        let mut lo = MultiValueEncoded::new();
                        for (e, p) in ps.iter() {
                            lo.push((*e, p.to_string().parse::<u64>().unwrap()).into());
                        }
                        sc.add_lock_options(lo);
                    })
                    .result_status == 0
            }
            "setBurnPct" => {
                let p = u64of(w[1]);
                self.b.execute_tx(&owner, &self.un, &zero, |sc| sc.set_fees_burn_percentage(p)).result_status == 0
            }
            "pause" => {
                let on = w[1] == "1";
                self.b.execute_tx(&owner, &self.fac, &zero, |sc| if on { sc.pause_endpoint() } else { sc.unpause_endpoint() }).result_status == 0
            }
            "whitelist" => {
                let a = self.addr(u64of(w[1]));
                self.b.execute_tx(&owner, &self.fac, &zero, |sc| sc.add_sc_address_to_whitelist(managed_address!(&a))).result_status == 0
            }
            "unwhitelist" => {
                let a = self.addr(u64of(w[1]));
                self.b.execute_tx(&owner, &self.fac, &zero, |sc| sc.remove_sc_address_from_whitelist(managed_address!(&a))).result_status == 0
            }
            "advance" => {
                let e = u64of(w[1]);
                if e >= self.epoch {
                    self.epoch = e;
                    self.b.set_block_epoch(e);
                    true
                } else {
                    false
                }
            }
            "bad" => self.exec_bad(&w),
            other => panic!("unknown op {other}"),
        };
        let post = self.snap();
        if ok {
            self.update_ghosts(&site, &pre, &post, &mut inf);
            self.update_attr(&pre, &post, &inf);
        }
        let post_line = self.state_line(&post);
        self.oracles(tr, &site, &pre, &post, ok, &inf, &pre_line, &post_line);
        self.last_quote = None;
        if ok {
            tr.count(&format!("ok.{site}"));
            tr.res_ok(n, &format!("{} {} {}", inf.outs.0, inf.outs.1, inf.outs.2), &post_line);
        } else {
            tr.count(&format!("err.{site}"));
            tr.res_err(n);
        }
    }

    /// the attribution ledger of Props/C08Attr (`attrStep`), from the REAL balance rows: the change of the
    /// holder's row in a successful transaction is booked on the energy address of that transaction
    fn update_attr(&mut self, pre: &Snap, post: &Snap, inf: &Info) {
        if let Some((h, ea)) = inf.parties {
            let (r0, r1) = (&pre.acc(h).locked, &post.acc(h).locked);
            let k = self.key(ea);
            let row = self.attr.entry(k).or_default();
            if row.len() < r1.len() {
                row.resize(r1.len(), BigInt::zero());
            }
            for (n, b) in r1.iter().enumerate() {
                let a = r0.get(n).cloned().unwrap_or_default();
                row[n] += BigInt::from(b.clone()) - BigInt::from(a);
            }
            if self.key(h) != k {
                self.separated = true;
            }
        }
    }

    /// ledger counters are accumulated from the balance deltas actually observed
    fn update_ghosts(&mut self, site: &str, pre: &Snap, post: &Snap, inf: &mut Info) {
        let up = |a: &BigUint, b: &BigUint| if b > a { b - a } else { BigUint::zero() };
        let dco = up(&pre.coll_cell, &post.coll_cell);
        match site {
            "lock" => self.g.bl += up(&post.base_supply, &pre.base_supply),
            "unlock" => self.g.mu += up(&pre.base_supply, &post.base_supply),
            "unlockEarly" => {
                self.g.me += up(&pre.base_supply, &post.base_supply);
                if let Some(q) = post.acc(inf.who).queue.last() {
                    inf.outs = (&q.2 - &q.3, q.3.clone(), BigUint::zero());
                }
            }
            "cancel" => self.g.bc += up(&post.base_supply, &pre.base_supply),
            "lockVirtual" => self.g.vl += up(&pre.circ, &post.circ),
            "reduce" => {
                let pen = up(&post.circ, &pre.circ);
                self.g.pb += up(&dco, &pen);
            }
            "claim" => {
                let pen = up(&post.pp, &pre.pp);
                self.g.pb += up(&dco, &pen);
            }
            _ => {}
        }
        self.g.co += dco;
    }

    /// malformed calls: all of them must fail and leave everything unchanged
    fn exec_bad(&mut self, w: &[&str]) -> bool {
        let zero = rust_biguint!(0);
        let c: u64 = w.get(2).and_then(|x| x.parse().ok()).unwrap_or(1);
        let ca = self.addr(c);
        let amt = rust_biguint!(1000);
        let fat = (BigInt::from(10u64).pow(40), self.epoch, BigUint::from(10u64).pow(30));
        match w[1] {
            "wrongTokenLock" => {
                self.b.set_esdt_balance(&ca, OTHER, &amt);
                self.b.execute_esdt_transfer(&ca, &self.fac, OTHER, 0, &amt, |sc| {
                    sc.lock_tokens_endpoint(360, OptionalValue::None);
                }).result_status == 0
            }
            "baseToUnlockEarly" => self.b.execute_esdt_transfer(&ca, &self.fac, BASE, 0, &amt, |sc| sc.unlock_early()).result_status == 0,
            "baseToUnlock" => self.b.execute_esdt_transfer(&ca, &self.fac, BASE, 0, &amt, |sc| { sc.unlock_tokens_endpoint(); }).result_status == 0,
            "baseToWrap" => self.b.execute_esdt_transfer(&ca, &self.wr, BASE, 0, &amt, |sc| { sc.wrap_locked_token_endpoint(); }).result_status == 0,
            "baseToLockFunds" => {
                let ra = self.addr(1);
                self.b.execute_esdt_transfer(&ca, &self.tr, BASE, 0, &amt, |sc| sc.lock_funds(managed_address!(&ra))).result_status == 0
            }
            "userCancelTransfer" => {
                let (sa, ra) = (self.addr(1), self.addr(2));
                self.b.execute_tx(&ca, &self.tr, &zero, |sc| sc.cancel_transfer(managed_address!(&sa), managed_address!(&ra))).result_status == 0
            }
            "userRevertUnstake" => self.b.execute_tx(&ca, &self.fac, &zero, |sc| {
                sc.revert_unstake(managed_address!(&ca), Energy::new(mint(&fat.0), fat.1, mbig(&fat.2)));
            }).result_status == 0,
            "userSetEnergy" => self.b.execute_tx(&ca, &self.fac, &zero, |sc| {
                sc.set_user_energy_after_locked_token_transfer(managed_address!(&ca), Energy::new(mint(&fat.0), fat.1, mbig(&fat.2)));
            }).result_status == 0,
            "userDepositFees" => self.b.execute_esdt_transfer(&ca, &self.un, BASE, 0, &amt, |sc| sc.deposit_fees()).result_status == 0,
            "userDepositTokens" => self.b.execute_esdt_transfer(&ca, &self.un, BASE, 0, &amt, |sc| sc.deposit_user_tokens(managed_address!(&ca))).result_status == 0,
            _ => false,
        }
    }

    fn query_impl(&mut self, tr: &mut Trace, text: &str) {
        let n = tr.query(text);
        let w: Vec<&str> = text.split_whitespace().collect();
        tr.count(&format!("view.{}", w[0]));
        let pre = self.snap();
        let pre_line = self.state_line(&pre);
        let mut val: Option<String> = None;
        let mut enc = BigUint::zero();
        match w[0] {
            "penalty" => {
                let (amt, prev, new) = (big(w[1]), w[2].parse::<u64>().unwrap(), w[3].parse::<u64>().unwrap());
                let mut v = BigUint::zero();
                let r = self.b.execute_query(&self.fac, |sc| {
                    v = to_big(&sc.calculate_penalty_amount(&mbig(&amt), prev, new));
                });
                if r.result_status == 0 {
                    val = Some(format!("{v}"));
                    enc = v.clone();
                }
                self.oracle_penalty_view(tr, &pre, &amt, prev, new, if r.result_status == 0 { Some(v) } else { None });
            }
            "energy" => {
                let u: u64 = w[1].parse().unwrap();
                let a = self.addr(u);
                let mut v = (BigInt::zero(), 0u64, BigUint::zero(), BigUint::zero());
                let r = self.b.execute_query(&self.fac, |sc| {
                    let e = sc.get_updated_energy_entry_for_user(&managed_address!(&a));
                    v = (to_int(e.get_energy_amount_raw()), e.get_last_update_epoch(), to_big(e.get_total_locked_tokens()),
                         to_big(&sc.get_energy_amount_for_user(managed_address!(&a))));
                });
                if r.result_status == 0 {
                    val = Some(format!("{} {} {} {}", v.0, v.1, v.2, v.3));
                }
            }
            other => panic!("unknown view {other}"),
        }
        let post = self.snap();
        if self.state_line(&post) != pre_line {
            tr.fail("C20", "view_pure", w[0], "state changed by a view");
        }
        match val {
            Some(v) => {
                self.last_quote = Some((text.to_string(), enc));
                tr.view_ok(n, &v)
            }
            None => {
                self.last_quote = None;
                tr.view_err(n)
            }
        }
    }
}

// ---------------------------------------------------------------------------------------
// generator: structured, mostly valid, boundary-biased; everything is op text
// ---------------------------------------------------------------------------------------
fn gen_header_impl(rng: &mut Rng, _h: u64, _tier: &str) -> String {
    let ep = match rng.below(8) {
        0 => 0,
        1 => 1,
        2 => *rng.pick(&[5u64, 29, 30, 31, 59, 60]),
        3 => rng.range(32, 400),
        _ => rng.range(0, 3000),
    };
    let users = rng.range(2, 4);
    let unbond = *rng.pick(&[0u64, 1, 3, 10, 10, 30, 100]);
    let burn = if rng.chance(1, 3) { rng.range(0, 10_000) } else { *rng.pick(&[0u64, 1, 3333, 5000, 5000, 9999, 10_000]) };
    let minlock = *rng.pick(&[0u64, 1, 4, 4, 30]);
    let cooldown = *rng.pick(&[0u64, 1, 6, 6, 30]);
    // an admissible option set: distinct epochs >= 360, strictly increasing percentages <= 10000
    let k = if rng.chance(1, 4) { rng.range(1, 2) } else { rng.range(2, 6) } as usize;
    let cands = [360u64, 361, 365, 390, 400, 540, 719, 720, 721, 1000, 1080, 1440, 1441, 1800, 2160, 2880];
    let mut eps: Vec<u64> = vec![];
    while eps.len() < k {
        let e = if rng.chance(1, 4) { rng.range(360, 3000) } else { *rng.pick(&cands) };
        if !eps.contains(&e) {
            eps.push(e);
        }
    }
    eps.sort();
    let mut pcts: Vec<u64> = vec![];
    while pcts.len() < k {
        let p = match rng.below(8) {
            0 => 0,
            1 => 10_000,
            2 => 9_999,
            3 => 1,
            _ => rng.range(0, 10_000),
        };
        if !pcts.contains(&p) {
            pcts.push(p);
        }
    }
    pcts.sort();
    if rng.chance(1, 5) {
        // the configuration of the repository's own tests
        eps = vec![360, 720, 1440];
        pcts = vec![4000, 6000, 8000];
    }
    let opts: Vec<String> = eps.iter().zip(pcts.iter()).map(|(e, p)| format!("{e}:{p}")).collect();
    format!(
        "ep={ep} users={users} funds=1000000000000000000000000000000000000 unbond={unbond} burn={burn} minlock={minlock} cooldown={cooldown} opts={}",
        opts.join(",")
    )
}

impl EnergyWorld {
    fn quote_then(&mut self, q: String, next: String) -> (char, String) {
        self.pending.push(next);
        ('Q', q)
    }

    fn amt_of(rng: &mut Rng, have: &BigUint) -> BigUint {
        let one = BigUint::one();
        if have.is_zero() {
            return one;
        }
        match rng.below(40) {
            39 => BigUint::zero(), // zero-amount payment
            0 | 12 | 24 => one,
            1 | 2 | 3 | 13 | 14 | 15 | 25 | 26 | 27 => have.clone(),
            4 | 16 | 28 => have / 2u32 + &one,
            5 | 17 => have + &one, // over the balance: must fail
            6 | 18 | 30 => BigUint::from(rng.range(1, 20_000)).min(have.clone()),
            _ => rng.big_range(&one, have),
        }
    }

    fn gen_line_impl(&mut self, rng: &mut Rng, step: u64, _tier: &str) -> (char, String) {
        if let Some(p) = self.pending.pop() {
            return ('O', p);
        }
        let s = self.snap();
        let nu = self.users.len() as u64;
        let u = rng.range(1, nu);
        let other = |rng: &mut Rng| -> u64 {
            let mut o = rng.range(1, nu);
            if o == u {
                o = o % nu + 1;
            }
            o
        };
        let now = s.epoch;
        let one = BigUint::one();
        // holdings (user, nonce, amount, unlock)
        let mut hold: Vec<(u64, u64, BigUint, u64)> = vec![];
        for (i, us) in s.users.iter().enumerate() {
            for (k, a) in us.locked.iter().enumerate() {
                if !a.is_zero() {
                    hold.push((i as u64 + 1, k as u64 + 1, a.clone(), s.nonces[k]));
                }
            }
        }
        // holdings of the FARM contract account (FARM, nonce, amount, unlock)
        let mut fhold: Vec<(u64, u64, BigUint, u64)> = vec![];
        for (k, a) in s.farm.locked.iter().enumerate() {
            if !a.is_zero() {
                fhold.push((FARM, k as u64 + 1, a.clone(), s.nonces[k]));
            }
        }
        let listed = |rng: &mut Rng| -> u64 {
            if s.opts.is_empty() || rng.chance(1, 12) {
                *rng.pick(&[0u64, 1, 359, 361, 5000])
            } else {
                rng.pick(&s.opts).0
            }
        };
        let weights = [
            16, // 0 lock
            6,  // 1 extend
            8,  // 2 unlock
            8,  // 3 merge
            9,  // 4 unlockEarly
            8,  // 5 reduce
            7,  // 6 claim
            4,  // 7 cancel
            5,  // 8 lockFunds
            6,  // 9 withdraw
            2,  // 10 cancelTransfer
            4,  // 11 wrap
            4,  // 12 unwrap
            2,  // 13 xferWrapped
            3,  // 14 lockVirtual
            5,  // 15 cfg
            13, // 16 advance
            5,  // 17 queries
            3,  // 18 malformed
            8,  // 19 the FARM contract account acting for itself / holding for users
        ];
        let mut k = rng.weighted(&weights);
        if step < 4 && rng.chance(2, 3) {
            k = 0;
        }
        if hold.is_empty() && matches!(k, 1 | 2 | 3 | 4 | 5 | 8 | 11) && rng.chance(4, 5) {
            k = 0;
        }
        let any_queue = s.users.iter().chain(std::iter::once(&s.farm)).any(|x| !x.queue.is_empty());
        let any_ripe = s.users.iter().chain(std::iter::once(&s.farm)).any(|x| x.queue.first().map(|q| q.0 <= now).unwrap_or(false));
        let any_expired = hold.iter().any(|h| h.3 <= now);
        if (k == 6 || k == 7) && !any_queue && rng.chance(4, 5) {
            k = 4;
        }
        if k == 6 && any_queue && !any_ripe && rng.chance(1, 2) {
            let t = s.users.iter().chain(std::iter::once(&s.farm)).filter_map(|x| x.queue.first().map(|q| q.0)).min().unwrap();
            return ('O', format!("advance {}", t.max(now)));
        }
        if k == 2 && !any_expired && !hold.is_empty() && rng.chance(3, 5) {
            let t = hold.iter().map(|h| h.3).min().unwrap() + rng.range(0, 40);
            return ('O', format!("advance {}", t.max(now)));
        }
        if (k == 9 || k == 10) && s.xfers.is_empty() && rng.chance(4, 5) {
            k = 8;
        }
        if k == 5 {
            let feasible = hold.iter().any(|h| h.3 > now && s.opts.iter().any(|o| o.0 - (now + o.0) % 30 < h.3 - now));
            if !feasible && rng.chance(7, 10) {
                k = 4;
            }
        }
        // a burst of more than MAX_CLAIM_UNLOCKED_TOKENS early unlocks, then claims
        if rng.chance(1, 120) && !s.paused {
            if let Some(h) = hold.iter().find(|h| h.3 > now + self.unbond && h.2 > BigUint::from(30u32) && f_penalty(&s.opts, &BigUint::from(3u32), h.3 - now, 0).map(|p| p < BigUint::from(3u32)).unwrap_or(false)) {
                if rng.chance(1, 2) {
                    self.pending.push(format!("claim {}", h.0));
                    self.pending.push(format!("claim {}", h.0));
                    self.pending.push(format!("advance {}", now + self.unbond));
                } else {
                    // … or cancelled in one go: cancelUnbond has no per-call limit, every pending entry comes back
                    self.pending.push(format!("claim {}", h.0));
                    self.pending.push(format!("cancel {}", h.0));
                }
                for _ in 0..(22 - s.users[(h.0 - 1) as usize].queue.len().min(21)) {
                    self.pending.push(format!("unlockEarly {} {} 3", h.0, h.1));
                }
                return ('O', self.pending.pop().unwrap());
            }
        }
        match k {
            0 => {
                let amt = match rng.below(10) {
                    0 => one.clone(),
                    1 => BigUint::from(2u32),
                    2 => BigUint::from(rng.range(1, 100)),
                    3 => pow10(30),
                    4 => pow10(18) * BigUint::from(rng.range(1, 1000)),
                    5 => BigUint::from(rng.range(1, 20_000)),
                    6 => if rng.chance(1, 4) { &s.users[(u - 1) as usize].base + &one } else { BigUint::zero() },
                    _ => rng.magnitude(27),
                };
                let d = match rng.below(6) { 0 => other(rng), 1 => u, _ => 0 };
                ('O', format!("lock {} {} {} {}", u, amt, listed(rng), d))
            }
            1 => {
                if hold.is_empty() {
                    return ('O', format!("extend {} 1 1 {} 0", u, listed(rng)));
                }
                let h = rng.pick(&hold).clone();
                let amt = Self::amt_of(rng, &h.2);
                let d = match rng.below(8) { 0 => other(rng), 1 => h.0, _ => 0 };
                // prefer an option that really extends
                let mut ep = listed(rng);
                for _ in 0..3 {
                    if now + ep - (now + ep) % 30 > h.3 { break; }
                    ep = listed(rng);
                }
                ('O', format!("extend {} {} {} {} {}", h.0, h.1, amt, ep, d))
            }
            2 | 3 => {
                // unlock wants expired tokens, merge wants live ones
                let want_expired = k == 2;
                let usr = if hold.is_empty() { u } else { rng.pick(&hold).0 };
                let mine: Vec<&(u64, u64, BigUint, u64)> = hold.iter().filter(|h| h.0 == usr).collect();
                let good: Vec<&&(u64, u64, BigUint, u64)> = mine.iter().filter(|h| (h.3 <= now) == want_expired).collect();
                let mut ps: Pays = vec![];
                let cnt = match rng.below(6) { 0 => 1, 1 | 2 => 2, 3 => 3, _ => rng.range(1, 4) };
                for _ in 0..cnt {
                    let h = if !good.is_empty() && rng.chance(9, 10) { **rng.pick(&good) } else if !mine.is_empty() { *rng.pick(&mine) } else { break };
                    if ps.iter().any(|p| p.0 == h.1) && rng.chance(3, 4) {
                        continue;
                    }
                    let already: BigUint = ps.iter().filter(|p| p.0 == h.1).map(|p| p.1.clone()).sum();
                    let left = if h.2 > already { &h.2 - &already } else { BigUint::zero() };
                    if left.is_zero() { continue; }
                    ps.push((h.1, Self::amt_of(rng, &left)));
                }
                if ps.is_empty() && rng.chance(1, 2) {
                    ps.push((rng.range(0, s.nonces.len() as u64 + 1), one.clone()));
                }
                if k == 2 {
                    ('O', format!("unlock {} {}", usr, show_pays(&ps, ",")))
                } else {
                    // a whitelisted caller naming somebody else as original caller is trusted to hold the
                    // tokens on that account's behalf (energy and tokens part company by design: a separating
                    // op, followed by the attributed oracle); for a caller that is not whitelisted it must fail
                    let orig = match rng.below(10) { 0 => usr, 1 => other(rng), 2 => if s.wl.contains(&usr) { other(rng) } else { 0 }, _ => 0 };
                    ('O', format!("merge {} {} {}", usr, orig, show_pays(&ps, ",")))
                }
            }
            4 | 5 => {
                let live: Vec<&(u64, u64, BigUint, u64)> = hold.iter().filter(|h| h.3 > now).collect();
                let h = if !live.is_empty() && rng.chance(9, 10) { (*rng.pick(&live)).clone() } else if !hold.is_empty() { rng.pick(&hold).clone() } else { (u, 1, one.clone(), now + 360) };
                let amt = match rng.below(8) {
                    0 => one.clone(),
                    1 => BigUint::from(2u32).min(h.2.clone()),
                    _ => Self::amt_of(rng, &h.2),
                };
                let h = if k == 5 {
                    let feas: Vec<&(u64, u64, BigUint, u64)> = hold.iter().filter(|h| h.3 > now && s.opts.iter().any(|o| o.0 - (now + o.0) % 30 < h.3 - now)).collect();
                    if !feas.is_empty() && rng.chance(9, 10) { (*rng.pick(&feas)).clone() } else { h }
                } else { h };
                let amt = if amt > h.2 && rng.chance(9, 10) { h.2.clone() } else { amt };
                let prev = h.3.saturating_sub(now);
                if k == 4 {
                    let op = format!("unlockEarly {} {} {}", h.0, h.1, amt);
                    if rng.chance(1, 2) && prev > 0 {
                        return self.quote_then(format!("penalty {} {} 0", amt, prev), op);
                    }
                    ('O', op)
                } else {
                    let mut ep = listed(rng);
                    for _ in 0..4 {
                        if ep >= 30 && ep - (now + ep) % 30 < prev { break; }
                        ep = listed(rng);
                    }
                    let op = format!("reduce {} {} {} {}", h.0, h.1, amt, ep);
                    let newep = ep.saturating_sub((now + ep) % 30);
                    if rng.chance(1, 2) && prev > 0 {
                        return self.quote_then(format!("penalty {} {} {}", amt, prev, newep), op);
                    }
                    ('O', op)
                }
            }
            6 | 7 => {
                let withq: Vec<u64> = s.accounts().into_iter().filter(|(i, x)| *i != 0 && !x.queue.is_empty()).map(|(i, _)| i).collect();
                let ripe: Vec<u64> = s.accounts().into_iter().filter(|(i, x)| *i != 0 && x.queue.first().map(|q| q.0 <= now).unwrap_or(false)).map(|(i, _)| i).collect();
                let c = if k == 6 && !ripe.is_empty() && rng.chance(4, 5) { *rng.pick(&ripe) } else if !withq.is_empty() && rng.chance(9, 10) { *rng.pick(&withq) } else { u };
                ('O', format!("{} {}", if k == 6 { "claim" } else { "cancel" }, c))
            }
            8 => {
                let usr = if hold.is_empty() { u } else { rng.pick(&hold).0 };
                let mine: Vec<&(u64, u64, BigUint, u64)> = hold.iter().filter(|h| h.0 == usr).collect();
                let mut ps: Pays = vec![];
                let lo = if rng.chance(1, 15) { 0 } else { 1 };
                let cnt = rng.range(lo, 3);
                for _ in 0..cnt {
                    if mine.is_empty() { break; }
                    let h = *rng.pick(&mine);
                    if ps.iter().any(|p| p.0 == h.1) { continue; }
                    ps.push((h.1, Self::amt_of(rng, &h.2)));
                }
                let rcv = if rng.chance(1, 12) { usr } else { let mut o = rng.range(1, nu); if o == usr { o = o % nu + 1; } o };
                ('O', format!("lockFunds {} {} {}", usr, rcv, show_pays(&ps, ",")))
            }
            9 => {
                let ripe: Vec<&(u64, u64, u64, Pays)> = s.xfers.iter().filter(|x| now > x.2 + self.min_lock).collect();
                if !ripe.is_empty() && rng.chance(4, 5) {
                    let x = rng.pick(&ripe);
                    ('O', format!("withdraw {} {}", x.0, x.1))
                } else if !s.xfers.is_empty() && rng.chance(9, 10) {
                    let x = rng.pick(&s.xfers);
                    ('O', format!("withdraw {} {}", x.0, x.1))
                } else {
                    ('O', format!("withdraw {} {}", u, other(rng)))
                }
            }
            10 => {
                if !s.xfers.is_empty() && rng.chance(9, 10) {
                    let x = rng.pick(&s.xfers);
                    ('O', format!("cancelTransfer {} {}", x.1, x.0))
                } else {
                    ('O', format!("cancelTransfer {} {}", u, other(rng)))
                }
            }
            11 => {
                let live: Vec<&(u64, u64, BigUint, u64)> = hold.iter().filter(|h| h.3 > now).collect();
                let h = if !live.is_empty() && rng.chance(9, 10) { (*rng.pick(&live)).clone() } else if !hold.is_empty() { rng.pick(&hold).clone() } else { (u, 1, one.clone(), 0) };
                ('O', format!("wrap {} {} {}", h.0, h.1, Self::amt_of(rng, &h.2)))
            }
            12 | 13 => {
                let mut wh: Vec<(u64, u64, BigUint)> = vec![];
                for (i, us) in s.users.iter().enumerate() {
                    for (kk, a) in us.wrapped.iter().enumerate() {
                        if !a.is_zero() { wh.push((i as u64 + 1, kk as u64 + 1, a.clone())); }
                    }
                }
                if wh.is_empty() {
                    if let Some(h) = hold.iter().find(|h| h.3 > now) {
                        return ('O', format!("wrap {} {} {}", h.0, h.1, Self::amt_of(rng, &h.2)));
                    }
                    return ('O', format!("unwrap {} {} 1", u, rng.range(0, 2)));
                }
                let h = rng.pick(&wh).clone();
                let amt = Self::amt_of(rng, &h.2);
                if k == 12 {
                    ('O', format!("unwrap {} {} {}", h.0, h.1, amt))
                } else {
                    let mut to = rng.range(1, nu);
                    if to == h.0 && rng.chance(9, 10) { to = to % nu + 1; }
                    ('O', format!("xferWrapped {} {} {} {}", h.0, to, h.1, amt))
                }
            }
            14 => {
                if !s.wl.contains(&FARM) && rng.chance(3, 4) {
                    return ('O', format!("whitelist {}", FARM));
                }
                let amt = match rng.below(5) { 0 => one.clone(), 1 => BigUint::zero(), _ => rng.magnitude(24) };
                let c = if rng.chance(1, 8) { u } else { FARM };
                // (destination, energy address): a user for itself, the contract for itself, and the two
                // separating shapes (holder != energy address) of C08Attr.separating_ops
                let (d, ea) = match rng.below(12) {
                    0..=3 => (u, u),
                    4..=6 => (FARM, FARM),
                    7 | 8 => (FARM, u),
                    9 => (u, FARM),
                    10 => (u, other(rng)),
                    _ => (u, u),
                };
                ('O', format!("lockVirtual {} {} {} {} {}", c, amt, listed(rng), d, ea))
            }
            15 => match rng.below(10) {
                0 | 1 => {
                    // new options: mostly admissible w.r.t. the current set
                    let cnt = rng.range(0, 2);
                    let mut v: Vec<String> = vec![];
                    for _ in 0..cnt {
                        let e = if rng.chance(1, 8) { rng.range(0, 359) } else { rng.range(360, 3200) };
                        // a percentage that fits between the neighbours most of the time
                        let lo = s.opts.iter().filter(|o| o.0 < e).map(|o| o.1).max().unwrap_or(0);
                        let hi = s.opts.iter().filter(|o| o.0 > e).map(|o| o.1).min().unwrap_or(10_000);
                        let p = if rng.chance(1, 6) { rng.range(0, 10_001) } else if hi > lo + 1 { rng.range(lo + 1, hi - 1) } else { lo };
                        v.push(format!("{e}:{p}"));
                    }
                    ('O', format!("addOptions {}", if v.is_empty() { "-".to_string() } else { v.join(",") }))
                }
                2 | 3 => ('O', format!("setBurnPct {}", *rng.pick(&[0u64, 1, 2500, 5000, 9999, 10_000, 10_001]))),
                4 => ('O', "pause 1".to_string()),
                5 | 6 => ('O', "pause 0".to_string()),
                7 => ('O', format!("whitelist {}", if rng.chance(1, 2) { FARM } else { u })),
                8 => ('O', format!("unwhitelist {}", if rng.chance(1, 2) { FARM } else { u })),
                _ => ('O', format!("whitelist {}", u)),
            },
            16 => {
                if s.paused && rng.chance(1, 2) {
                    return ('O', "pause 0".to_string());
                }
                let mut targets: Vec<u64> = s.nonces.iter().filter(|e| **e + 1 >= now).cloned().collect();
                for us in s.users.iter() {
                    for q in us.queue.iter() { if q.0 >= now { targets.push(q.0); } }
                }
                for x in s.xfers.iter() { targets.push(x.2 + self.min_lock + 1); }
                for l in s.sl.iter().chain(s.rl.iter()) { targets.push(l.1 + self.cooldown + 1); }
                // BOUNDARY BURST: land exactly on the unlock epoch of a held token and use that very token at once
                // (merge / early unlock / reduce / transfer / wrap / extend / unlock with `unlock_epoch == now`: every
                //  `>` vs `>=` on the unlock epoch is decided here; a surviving mutant showed plain random timing misses it)
                let future: Vec<&(u64, u64, BigUint, u64)> = hold.iter().filter(|h| h.3 > now).collect();
                if !future.is_empty() && rng.chance(1, 5) {
                    let h = (*rng.pick(&future)).clone();
                    let mate = hold.iter().find(|x| x.0 == h.0 && x.1 != h.1).cloned();
                    let other_u = other(rng);
                    let mut burst: Vec<String> = vec![];
                    for _ in 0..rng.range(1, 2) {
                        burst.push(match rng.below(8) {
                            0 | 1 => match &mate {
                                Some(m) => format!("merge {} 0 {}", h.0, show_pays(&vec![(h.1, h.2.clone()), (m.1, m.2.clone())], ",")),
                                None => format!("merge {} 0 {}", h.0, show_pays(&vec![(h.1, &h.2 / 2u32 + &one), (h.1, one.clone())], ",")),
                            },
                            2 => format!("unlockEarly {} {} {}", h.0, h.1, h.2),
                            3 => format!("reduce {} {} {} {}", h.0, h.1, h.2, listed(rng)),
                            4 => format!("lockFunds {} {} {}", h.0, other_u, show_pays(&vec![(h.1, h.2.clone())], ",")),
                            5 => format!("wrap {} {} {}", h.0, h.1, h.2),
                            6 => format!("extend {} {} {} {} 0", h.0, h.1, h.2, listed(rng)),
                            _ => format!("unlock {} {}", h.0, show_pays(&vec![(h.1, h.2.clone())], ",")),
                        });
                    }
                    for b in burst.into_iter().rev() {
                        self.pending.push(b);
                    }
                    return ('O', format!("advance {}", h.3));
                }
                let e = if !targets.is_empty() && rng.chance(1, 3) {
                    let t = *rng.pick(&targets);
                    (match rng.below(3) { 0 => t.saturating_sub(1), 1 => t, _ => t + 1 }).max(now)
                } else {
                    now + match rng.below(10) {
                        0 => 0,
                        1 | 2 | 3 => rng.range(1, 10),
                        4 | 5 => rng.range(25, 35),
                        6 | 7 => rng.range(100, 400),
                        8 => rng.range(700, 1500),
                        _ => 7,
                    }
                };
                if rng.chance(1, 40) && now > 0 {
                    return ('O', format!("advance {}", now - 1)); // time never goes back
                }
                ('O', format!("advance {}", e))
            }
            17 => {
                if rng.chance(1, 4) {
                    return ('Q', format!("energy {}", if rng.chance(1, 4) { FARM } else { u }));
                }
                let last = s.opts.last().map(|o| o.0).unwrap_or(360);
                let prev = match rng.below(6) {
                    0 => rng.pick(&s.opts).0,
                    1 => rng.pick(&s.opts).0 + 1,
                    2 => rng.pick(&s.opts).0 - 1,
                    3 => last + rng.range(0, 2),
                    _ => rng.range(0, last),
                };
                let new = match rng.below(5) {
                    0 | 1 => 0,
                    2 => prev,
                    3 => { let o = rng.pick(&s.opts).0; o - (now + o) % 30 }
                    _ => rng.range(0, prev.max(1) - 1),
                };
                let amt = match rng.below(4) { 0 => one.clone(), 1 => BigUint::from(10_000u32), _ => rng.magnitude(30) };
                ('Q', format!("penalty {} {} {}", amt, prev, new))
            }
            19 => {
                // ---- the FARM contract account: locks rewards for itself / holds them for a user, and later
                // spends its tokens through the factory like any holder (the SC account is the caller)
                if !s.wl.contains(&FARM) && rng.chance(3, 4) {
                    return ('O', format!("whitelist {}", FARM));
                }
                let mag = |rng: &mut Rng| match rng.below(4) { 0 => BigUint::from(rng.range(1, 20_000)), _ => rng.magnitude(24) };
                if (fhold.is_empty() && s.farm.queue.is_empty()) || rng.chance(1, 6) {
                    let ea = if rng.chance(2, 3) { FARM } else { u };
                    return ('O', format!("lockVirtual {} {} {} {} {}", FARM, mag(rng), listed(rng), FARM, ea));
                }
                let live: Vec<&(u64, u64, BigUint, u64)> = fhold.iter().filter(|h| h.3 > now).collect();
                let dead: Vec<&(u64, u64, BigUint, u64)> = fhold.iter().filter(|h| h.3 <= now).collect();
                let pick_live = |rng: &mut Rng| -> (u64, u64, BigUint, u64) {
                    if !live.is_empty() && rng.chance(9, 10) { (*rng.pick(&live)).clone() } else if !fhold.is_empty() { rng.pick(&fhold).clone() } else { (FARM, 1, one.clone(), now + 360) }
                };
                match rng.below(12) {
                    0 | 1 => {
                        let h = pick_live(rng);
                        let amt = Self::amt_of(rng, &h.2);
                        let op = format!("unlockEarly {} {} {}", FARM, h.1, amt);
                        let prev = h.3.saturating_sub(now);
                        if rng.chance(1, 3) && prev > 0 {
                            return self.quote_then(format!("penalty {} {} 0", amt, prev), op);
                        }
                        ('O', op)
                    }
                    2 => {
                        let h = if fhold.is_empty() { pick_live(rng) } else { rng.pick(&fhold).clone() };
                        let mut ep = listed(rng);
                        for _ in 0..3 {
                            if now + ep - (now + ep) % 30 > h.3 { break; }
                            ep = listed(rng);
                        }
                        ('O', format!("extend {} {} {} {} 0", FARM, h.1, Self::amt_of(rng, &h.2), ep))
                    }
                    3 => {
                        let h = pick_live(rng);
                        let prev = h.3.saturating_sub(now);
                        let mut ep = listed(rng);
                        for _ in 0..4 {
                            if ep >= 30 && ep - (now + ep) % 30 < prev { break; }
                            ep = listed(rng);
                        }
                        ('O', format!("reduce {} {} {} {}", FARM, h.1, Self::amt_of(rng, &h.2), ep))
                    }
                    4 | 5 => {
                        if dead.is_empty() && !fhold.is_empty() && rng.chance(3, 4) {
                            let t = fhold.iter().map(|h| h.3).min().unwrap() + rng.range(0, 40);
                            return ('O', format!("advance {}", t.max(now)));
                        }
                        let mut ps: Pays = vec![];
                        for h in dead.iter().take(rng.range(1, 3) as usize) {
                            ps.push((h.1, Self::amt_of(rng, &h.2)));
                        }
                        if ps.is_empty() {
                            let h = pick_live(rng);
                            ps.push((h.1, h.2.clone()));
                        }
                        ('O', format!("unlock {} {}", FARM, show_pays(&ps, ",")))
                    }
                    6 => {
                        // merge of its own tokens, for itself
                        let mut ps: Pays = vec![];
                        for h in live.iter().take(rng.range(1, 3) as usize) {
                            ps.push((h.1, Self::amt_of(rng, &h.2)));
                        }
                        if ps.is_empty() {
                            let h = pick_live(rng);
                            ps.push((h.1, h.2.clone()));
                        }
                        ('O', format!("merge {} {} {}", FARM, if rng.chance(1, 3) { FARM } else { 0 }, show_pays(&ps, ",")))
                    }
                    7 | 8 => {
                        // merge on behalf of a user (original caller != caller): the user's entry pays and
                        // receives the energy, the tokens stay with the contract; mostly within the user's total
                        let best = (1..=nu).max_by_key(|i| s.users[(*i - 1) as usize].view.2.clone()).unwrap_or(u);
                        let orig = if rng.chance(4, 5) { best } else { u };
                        let mut room = s.users[(orig - 1) as usize].view.2.clone();
                        let mut ps: Pays = vec![];
                        for h in live.iter().take(rng.range(1, 3) as usize) {
                            let mut a = Self::amt_of(rng, &h.2);
                            if a > room && rng.chance(9, 10) { a = room.clone(); }
                            if a.is_zero() && rng.chance(9, 10) { continue; }
                            room = if room > a { &room - &a } else { BigUint::zero() };
                            ps.push((h.1, a));
                        }
                        if ps.is_empty() {
                            // nothing attributed to the user yet: hold a reward for it first
                            return ('O', format!("lockVirtual {} {} {} {} {}", FARM, mag(rng), listed(rng), FARM, orig));
                        }
                        ('O', format!("merge {} {} {}", FARM, orig, show_pays(&ps, ",")))
                    }
                    9 => {
                        if !s.farm.queue.is_empty() {
                            let ripe = s.farm.queue.first().map(|q| q.0 <= now).unwrap_or(false);
                            if !ripe && rng.chance(1, 3) {
                                return ('O', format!("advance {}", s.farm.queue[0].0.max(now)));
                            }
                            return ('O', format!("{} {}", if ripe && rng.chance(2, 3) { "claim" } else { "cancel" }, FARM));
                        }
                        let h = pick_live(rng);
                        ('O', format!("unlockEarly {} {} {}", FARM, h.1, Self::amt_of(rng, &h.2)))
                    }
                    10 => {
                        // base tokens the contract got from unlock / claim are locked again by itself
                        let have = s.farm.base.clone();
                        if have.is_zero() {
                            return ('O', format!("lockVirtual {} {} {} {} {}", FARM, mag(rng), listed(rng), FARM, FARM));
                        }
                        ('O', format!("lock {} {} {} {}", FARM, Self::amt_of(rng, &have), listed(rng), if rng.chance(1, 4) { u } else { 0 }))
                    }
                    _ => ('O', format!("lockVirtual {} {} {} {} {}", FARM, mag(rng), listed(rng), FARM, u)),
                }
            }
            _ => {
                let kinds = ["wrongTokenLock", "baseToUnlockEarly", "baseToUnlock", "baseToWrap", "baseToLockFunds",
                             "userCancelTransfer", "userRevertUnstake", "userSetEnergy", "userDepositFees", "userDepositTokens"];
                ('O', format!("bad {} {}", rng.pick(&kinds), u))
            }
        }
    }
}

// ---------------------------------------------------------------------------------------
// oracles: the properties' statements evaluated directly on the real state, with formulas
// recomputed here from the property text / README (nothing below calls the model)
// ---------------------------------------------------------------------------------------

/// penalty percentage for a full unlock with `rem` epochs left: the piecewise-linear function
/// through (0,0), (e_1,p_1), …, (e_k,p_k), rounded down; undefined beyond the longest option
fn f_pct_full(opts: &[(u64, u64)], rem: u64) -> Option<BigUint> {
    let mut pts: Vec<(u64, u64)> = vec![(0, 0)];
    pts.extend_from_slice(opts);
    for j in 1..pts.len() {
        if rem <= pts[j].0 {
            let (e0, p0) = pts[j - 1];
            let (e1, p1) = pts[j];
            let num = BigUint::from(p0) * BigUint::from(e1 - rem) + BigUint::from(p1) * BigUint::from(rem - e0);
            return Some(num / BigUint::from(e1 - e0));
        }
    }
    None
}

/// amount * p / 10000 with p = full(prev) for a full unlock and (p_old − p_new)/(1 − p_new) for a reduction
fn f_penalty(opts: &[(u64, u64)], amt: &BigUint, prev: u64, new: u64) -> Option<BigUint> {
    if prev == 0 || new >= prev || opts.is_empty() {
        return None;
    }
    let m = BigUint::from(MAXPCT);
    let pp = f_pct_full(opts, prev)?;
    let pct = if new == 0 {
        pp
    } else {
        let pn = f_pct_full(opts, new)?;
        if pn > pp || pn >= m {
            return None;
        }
        (pp - &pn) * &m / (&m - &pn)
    };
    Some(amt * pct / m)
}

fn som(e: u64) -> u64 {
    e - e % 30
}

impl EnergyWorld {
    /// C08 on one snapshot, for EVERY account (users, the FARM contract account, `nobody`):
    /// the ATTRIBUTED form — entry = (Σ attr·(unlock − now), Σ attr), depleted to now, with `attr` the signed
    /// ledger kept from real balance deltas — always; the HELD form (Σ over the tokens the account holds)
    /// as long as no separating op (merge for another account, lockVirtual with energy address ≠
    /// destination) has succeeded in the history, where the two must coincide (C08Attr.attr_eq_holdings)
    fn oracle_c08(&self, tr: &mut Trace, site: &str, s: &Snap) {
        let empty: Vec<BigInt> = vec![];
        for (id, u) in s.accounts() {
            let name = acc_name(id);
            let row = self.attr.get(&id).unwrap_or(&empty);
            let mut exp_e = BigInt::zero();
            let mut exp_t = BigInt::zero();
            for (k, a) in row.iter().enumerate() {
                let d = BigInt::from(s.nonces[k]) - BigInt::from(s.epoch);
                exp_e += a * d;
                exp_t += a;
            }
            if u.view.0 != exp_e {
                tr.fail("C08", "energy_eq_attr_sum", site, &format!("{} entry {} but sum attributed*(unlock-now) = {}", name, u.view.0, exp_e));
            }
            if BigInt::from(u.view.2.clone()) != exp_t {
                tr.fail("C08", "total_eq_attr_sum", site, &format!("{} total_locked {} but sum of attributed amounts = {}", name, u.view.2, exp_t));
            }
            if u.view.1 != s.epoch {
                tr.fail("C08", "view_depleted_to_now", site, &format!("{} last_update {} now {}", name, u.view.1, s.epoch));
            }
            let pos = if u.view.0.sign() == Sign::Plus { u.view.0.magnitude().clone() } else { BigUint::zero() };
            if u.amount != pos {
                tr.fail("C08", "amount_view", site, &format!("{} getEnergyAmountForUser {} expected {}", name, u.amount, pos));
            }
            if exp_e.sign() == Sign::Minus {
                tr.count("branch.negative_energy");
            }
            if id == FARM && !exp_t.is_zero() {
                tr.count("branch.farm_has_energy");
            }
            if row.iter().any(|a| a.sign() == Sign::Minus) {
                tr.count("branch.negative_attribution");
            }
            if self.separated {
                if row.iter().enumerate().any(|(k, a)| *a != BigInt::from(u.locked[k].clone())) {
                    tr.count("branch.attributed_ne_held");
                }
                continue;
            }
            // ---- no separating op so far: attribution = holding, the held form of the property
            let mut held_e = BigInt::zero();
            let mut held_t = BigUint::zero();
            for (k, a) in u.locked.iter().enumerate() {
                let d = BigInt::from(s.nonces[k]) - BigInt::from(s.epoch);
                held_e += BigInt::from(a.clone()) * d;
                held_t += a;
                if row.get(k).cloned().unwrap_or_default() != BigInt::from(a.clone()) {
                    tr.fail("C08", "attr_eq_holdings", site, &format!("{} nonce {}: attributed {} held {} without any separating op", name, k + 1, row.get(k).cloned().unwrap_or_default(), a));
                }
            }
            if u.view.0 != held_e {
                tr.fail("C08", "energy_eq_sum", site, &format!("{} entry {} but sum amount*(unlock-now) = {}", name, u.view.0, held_e));
            }
            if u.view.2 != held_t {
                tr.fail("C08", "total_eq_sum", site, &format!("{} total_locked {} but sum of amounts = {}", name, u.view.2, held_t));
            }
        }
        if s.sce || s.sc_views.iter().any(|(e, t)| !e.is_zero() || !t.is_zero()) {
            tr.fail("C08", "escrow_gives_nothing", site, "an escrow contract has an energy entry");
        }
    }

    #[allow(clippy::too_many_arguments)]
    fn oracles(&mut self, tr: &mut Trace, site: &str, pre: &Snap, post: &Snap, ok: bool, inf: &Info, pre_line: &str, post_line: &str) {
        self.oracle_c08(tr, site, post);
        // ---- C19: while the energy factory is paused nothing that moves tokens or energy through it succeeds
        if ok && pre.paused && matches!(site, "lock" | "extend" | "unlock" | "merge" | "unlockEarly" | "reduce" | "lockVirtual"
            | "cancel" | "lockFunds" | "withdraw" | "cancelTransfer" | "wrap" | "unwrap") {
            tr.fail("C19", "paused_blocks_funds", site, "an operation that moves tokens or energy through the factory succeeded while it is paused");
        }
        // ---- supply ledgers (every transaction)
        let lhs = &post.base_supply + &self.g.bl + &self.g.bc;
        let rhs = &self.base_init + &self.g.mu + &self.g.me;
        if lhs != rhs {
            tr.fail("C09", "base_supply_delta", site, &format!("supply {} + burned(lock {}, cancel {}) != initial {} + minted(unlock {}, early {})",
                post.base_supply, self.g.bl, self.g.bc, self.base_init, self.g.mu, self.g.me));
        }
        let lhs = &post.base_supply + &post.circ + &post.pp + &self.g.pb + &self.g.co;
        let rhs = &self.base_init + &self.g.vl;
        if lhs != rhs || post.base_supply > rhs {
            tr.fail("C09", "supply_conservation", site, &format!("base {} + locked in circulation {} + pending penalty {} + destroyed {}+{} != initial {} + reward emission {}",
                post.base_supply, post.circ, post.pp, self.g.pb, self.g.co, self.base_init, self.g.vl));
        }
        if !ok {
            if pre_line != post_line {
                tr.fail("C08", "failed_tx_changes_state", site, "state differs after a failed transaction");
                tr.fail("C09", "failed_tx_changes_state", site, "state differs after a failed transaction");
            }
            return;
        }
        // ---- nobody but the caller / the named destination is touched
        if inf.who != 0 {
            let ea = inf.parties.map(|p| p.1).unwrap_or(0);
            let touched = [self.key(inf.who), self.key(inf.dest), self.key(ea)];
            for ((id, a), (_, b)) in pre.accounts().into_iter().zip(post.accounts().into_iter()) {
                if touched.contains(&id) {
                    continue;
                }
                if a.base != b.base || a.raw != b.raw || a.locked.iter().ne(b.locked.iter().take(a.locked.len())) || a.wrapped.iter().ne(b.wrapped.iter().take(a.wrapped.len())) || a.queue != b.queue {
                    tr.fail("C09", "others_untouched", site, &format!("{} changed by a transaction of {}", acc_name(id), acc_name(inf.who)));
                }
            }
        }
        let now = pre.epoch;
        let w = inf.who;
        let (pw, qw) = (pre.acc(w), post.acc(w));
        let zero = BigUint::zero();
        let new_nonces = BigUint::from((post.nonces.len() - pre.nonces.len()) as u64);
        if !new_nonces.is_zero() {
            tr.count("branch.new_nonce");
        }
        let unlock_of = |n: u64| -> u64 { if n >= 1 && (n as usize) <= post.nonces.len() { post.nonces[(n - 1) as usize] } else { 0 } };
        let lk = |s: &Snap, u: u64, n: u64| -> BigUint { s.acc(u).locked.get((n.max(1) - 1) as usize).cloned().unwrap_or_default() };
        let dco = if post.coll_cell >= pre.coll_cell { &post.coll_cell - &pre.coll_cell } else { zero.clone() };
        let bp = BigUint::from(pre.bp);
        let m = BigUint::from(MAXPCT);
        match site {
            "lock" | "lockVirtual" => {
                let amt = &inf.pays[0].1;
                let d = inf.dest;
                let unlock = som(now + inf.arg_epochs);
                let nn = inf.outs.0.to_string().parse::<u64>().unwrap();
                let got = &lk(post, d, nn) - &lk(pre, d, nn);
                if inf.outs.1 != *amt || got != *amt || unlock_of(nn) != unlock || unlock <= now || !pre.opts.iter().any(|o| o.0 == inf.arg_epochs) {
                    tr.fail("C09", "lock_1to1", site, &format!("locked {} -> issued {} (result {}) at unlock {} expected {} (now {})", amt, got, inf.outs.1, unlock_of(nn), unlock, now));
                }
                if &post.locked_supply - &pre.locked_supply != amt + &new_nonces {
                    tr.fail("C09", "lock_1to1", site, "locked-token supply did not grow by exactly the locked amount");
                }
                if site == "lock" {
                    let paid = &pw.base - &qw.base;
                    if paid != *amt || &pre.base_supply - &post.base_supply != *amt {
                        tr.fail("C09", "lock_burns_base", site, &format!("paid {} supply change {} for amount {}", paid, &pre.base_supply - &post.base_supply, amt));
                    }
                    if inf.dest != inf.who { tr.count("branch.lock_for_other"); }
                } else if post.base_supply != pre.base_supply {
                    tr.fail("C09", "virtual_lock_burns_nothing", site, "base supply changed");
                }
            }
            "extend" => {
                let (n0, amt) = &inf.pays[0];
                let nn = inf.outs.0.to_string().parse::<u64>().unwrap();
                let unlock = som(now + inf.arg_epochs);
                let tot = |s: &Snap| -> BigUint { s.acc(w).locked.iter().sum() };
                if inf.outs.1 != *amt || tot(pre) != tot(post) || unlock_of(nn) != unlock || unlock <= unlock_of(*n0) || post.base_supply != pre.base_supply
                    || &post.locked_supply - &pre.locked_supply != new_nonces {
                    tr.fail("C09", "extend_1to1", site, &format!("amount {} -> {} unlock {} -> {}", amt, inf.outs.1, unlock_of(*n0), unlock_of(nn)));
                }
                if unlock_of(*n0) < now { tr.count("branch.extend_expired"); }
            }
            "unlock" => {
                let tot: BigUint = inf.pays.iter().map(|p| p.1.clone()).sum();
                for (nn, _) in inf.pays.iter() {
                    if unlock_of(*nn) > now {
                        tr.fail("C09", "unlock_requires_epoch", site, &format!("nonce {} unlocks at {} but was unlocked at {}", nn, unlock_of(*nn), now));
                    }
                    if unlock_of(*nn) < now { tr.count("branch.unlock_after_expiry"); }
                    if unlock_of(*nn) == now { tr.count("branch.unlock_at_epoch"); }
                }
                let got = &qw.base - &pw.base;
                if got != tot || inf.outs.0 != tot || &post.base_supply - &pre.base_supply != tot || &pre.locked_supply - &post.locked_supply != tot {
                    tr.fail("C09", "unlock_1to1", site, &format!("unlocked {} received {} result {}", tot, got, inf.outs.0));
                }
            }
            "merge" => {
                let tot: BigUint = inf.pays.iter().map(|p| p.1.clone()).sum();
                let nn = inf.outs.0.to_string().parse::<u64>().unwrap();
                // weighted average rounded up, pair by pair, then month normalisation
                let mut acc_e = BigUint::from(unlock_of(inf.pays[0].0));
                let mut acc_w = inf.pays[0].1.clone();
                for (pn, pa) in inf.pays.iter().skip(1) {
                    let wsum = &acc_w + pa;
                    acc_e = (&acc_e * &acc_w + BigUint::from(unlock_of(*pn)) * pa + &wsum - BigUint::one()) / &wsum;
                    acc_w = wsum;
                }
                let e = acc_e.to_string().parse::<u64>().unwrap();
                let last = pre.opts.last().map(|o| o.0).unwrap_or(0);
                let exp = if e % 30 == 0 { e } else if som(e) + 30 - now <= last { tr.count("branch.merge_round_up"); som(e) + 30 } else { tr.count("branch.merge_round_down"); som(e) };
                if unlock_of(nn) != exp || exp <= now {
                    tr.fail("C08", "merge_epoch", site, &format!("merged unlock epoch {} expected {}", unlock_of(nn), exp));
                }
                let totl = |s: &Snap| -> BigUint { s.acc(w).locked.iter().sum() };
                if inf.outs.1 != tot || totl(pre) != totl(post) || &post.locked_supply - &pre.locked_supply != new_nonces || inf.pays.iter().any(|p| unlock_of(p.0) <= now) {
                    tr.fail("C09", "merge_1to1", site, &format!("merged {} -> {}", tot, inf.outs.1));
                }
                if inf.pays.len() > 1 { tr.count("branch.merge_multi"); }
            }
            "unlockEarly" | "reduce" => {
                let (n0, amt) = &inf.pays[0];
                let old = unlock_of(*n0);
                let prev = old.saturating_sub(now);
                let new_ep = if site == "reduce" { inf.arg_epochs - (now + inf.arg_epochs) % 30 } else { 0 };
                let pen = if site == "reduce" { inf.outs.2.clone() } else { inf.outs.0.clone() };
                let exp = f_penalty(&pre.opts, amt, prev, new_ep);
                if old <= now || exp.is_none() || exp.as_ref() != Some(&pen) {
                    tr.fail("C09", "penalty_formula", site, &format!("amount {} remaining {} new {} options {:?}: charged {} expected {:?}", amt, prev, new_ep, pre.opts, pen, exp));
                }
                if pen >= *amt {
                    tr.fail("C09", "penalty_lt_amount", site, &format!("penalty {} amount {}", pen, amt));
                }
                if pen.is_zero() { tr.count("branch.penalty_zero"); }
                if let Some((q, v)) = self.last_quote.clone() {
                    if q == format!("penalty {} {} {}", amt, prev, new_ep) {
                        tr.count("branch.quote_then_exec");
                        if v != pen {
                            tr.fail("C20", "quote_eq_exec.penalty", site, &format!("getPenaltyAmount {} but {} charged {}", v, site, pen));
                        }
                    }
                }
                if site == "unlockEarly" {
                    let rest = amt - &pen;
                    let q = qw.queue.last().cloned().unwrap_or_default();
                    if qw.queue.len() != pw.queue.len() + 1 || q != (now + self.unbond, *n0, amt.clone(), rest.clone()) {
                        tr.fail("C09", "unbond_entry", site, &format!("queue entry {:?} expected ({}, {}, {}, {})", q, now + self.unbond, n0, amt, rest));
                    }
                    if qw.base != pw.base || &post.un_base - &pre.un_base != rest || &post.base_supply - &pre.base_supply != rest || post.locked_supply != pre.locked_supply {
                        tr.fail("C09", "early_unlock_mints_remainder_into_escrow", site, &format!("supply change {} escrow change {} expected {}", &post.base_supply - &pre.base_supply, &post.un_base - &pre.un_base, rest));
                    }
                } else {
                    let nn = inf.outs.0.to_string().parse::<u64>().unwrap();
                    let rest = amt - &pen;
                    let burn = &pen * &bp / &m;
                    if inf.outs.1 != rest || unlock_of(nn) != now + new_ep || unlock_of(nn) % 30 != 0 || unlock_of(nn) >= old || new_ep >= prev {
                        tr.fail("C09", "reduce_relock", site, &format!("re-locked {} expected {} unlock {} -> {} expected {}", inf.outs.1, rest, old, unlock_of(nn), now + new_ep));
                    }
                    if dco != &pen - &burn || &pre.locked_supply + &new_nonces - &post.locked_supply != pen || post.base_supply != pre.base_supply {
                        tr.fail("C09", "penalty_split", site, &format!("penalty {} burn% {}: collector got {} expected {}", pen, pre.bp, dco, &pen - &burn));
                    }
                    if !pen.is_zero() { tr.count("branch.reduce_penalty_paid"); }
                }
            }
            "claim" => {
                let (q0, q1) = (&pw.queue, &qw.queue);
                let cnt = q0.len() - q1.len();
                if cnt == 0 || cnt > 20 || q0[cnt..] != q1[..] || BigUint::from(cnt as u64) != inf.outs.1 {
                    tr.fail("C09", "claim_fifo", site, &format!("queue {} -> {} entries, result count {}", q0.len(), q1.len(), inf.outs.1));
                }
                let mut paid = zero.clone();
                let mut coll = zero.clone();
                let mut burned_locked = zero.clone();
                for q in q0[..cnt].iter() {
                    if q.0 > now {
                        tr.fail("C09", "unbond_gate", site, &format!("entry unbonding until {} paid at {}", q.0, now));
                    }
                    if q.0 == now { tr.count("branch.claim_at_unbond_epoch"); }
                    paid += &q.3;
                    let pen = &q.2 - &q.3;
                    coll += &pen - &pen * &bp / &m;
                    burned_locked += &q.2;
                }
                if cnt < 20 && !q1.is_empty() && q1[0].0 <= now {
                    tr.fail("C09", "claim_fifo", site, "a ripe entry was left in the queue");
                }
                if cnt == 20 { tr.count("branch.claim_cap_20"); }
                let got = &qw.base - &pw.base;
                if got != paid || inf.outs.0 != paid || post.base_supply != pre.base_supply || &pre.un_base - &post.un_base != paid {
                    tr.fail("C09", "claim_pays_remainder", site, &format!("paid {} expected {}", got, paid));
                }
                if dco != coll || &pre.locked_supply - &post.locked_supply != burned_locked {
                    tr.fail("C09", "penalty_split", site, &format!("collector got {} expected {}; locked supply fell by {} expected {}", dco, coll, &pre.locked_supply - &post.locked_supply, burned_locked));
                }
            }
            "cancel" => {
                let q0 = &pw.queue;
                let back: BigUint = q0.iter().map(|q| q.3.clone()).sum();
                let mut okk = qw.queue.is_empty() && !q0.is_empty();
                for n in 1..=post.nonces.len() as u64 {
                    let exp: BigUint = q0.iter().filter(|q| q.1 == n).map(|q| q.2.clone()).sum();
                    if &lk(post, w, n) - &lk(pre, w, n) != exp { okk = false; }
                }
                if q0.iter().any(|q| unlock_of(q.1) < now) { tr.count("branch.cancel_expired_token"); }
                if q0.iter().any(|q| unlock_of(q.1) == now) { tr.count("branch.cancel_at_unlock_epoch"); }
                if !okk || &pre.base_supply - &post.base_supply != back || &pre.un_base - &post.un_base != back || qw.base != pw.base || post.locked_supply != pre.locked_supply {
                    tr.fail("C09", "cancel_burns_base_returns_locked", site, &format!("base burned {} expected {}", &pre.base_supply - &post.base_supply, back));
                }
            }
            "lockFunds" | "wrap" => {
                if inf.pays.iter().any(|p| unlock_of(p.0) <= now) {
                    tr.fail("C08", "escrow_only_live_tokens", site, "an unlockable token entered escrow");
                }
                if post.base_supply != pre.base_supply || post.locked_supply != pre.locked_supply || post.circ != pre.circ {
                    tr.fail("C09", "transfer_conserves_supply", site, "supply changed");
                }
            }
            "withdraw" | "cancelTransfer" | "unwrap" => {
                if post.base_supply != pre.base_supply || post.locked_supply != pre.locked_supply || post.circ != pre.circ {
                    tr.fail("C09", "transfer_conserves_supply", site, "supply changed");
                }
                // tokens that expired while in escrow
                let gained: Vec<u64> = (1..=post.nonces.len() as u64).filter(|n| lk(post, w, *n) > lk(pre, w, *n)).collect();
                if gained.iter().any(|n| unlock_of(*n) <= now) { tr.count(&format!("branch.{}_expired_token", site)); }
            }
            _ => {
                if post.base_supply != pre.base_supply || post.locked_supply != pre.locked_supply {
                    tr.fail("C09", "config_op_moves_tokens", site, "supply changed");
                }
            }
        }
    }

    fn oracle_penalty_view(&mut self, tr: &mut Trace, pre: &Snap, amt: &BigUint, prev: u64, new: u64, got: Option<BigUint>) {
        let exp = f_penalty(&pre.opts, amt, prev, new);
        if exp != got {
            tr.fail("C09", "penalty_view_formula", "penalty", &format!("getPenaltyAmount({amt},{prev},{new}) = {:?} expected {:?} options {:?}", got, exp, pre.opts));
        }
        if let Some(g) = got {
            let maxp = pre.opts.last().map(|o| o.1).unwrap_or(0);
            if g > amt * BigUint::from(maxp) / BigUint::from(MAXPCT) {
                tr.fail("C09", "penalty_le_max", "penalty", &format!("penalty {g} above amount*{maxp}/10000"));
            }
            if new == 0 {
                // monotone in the remaining time: ask the real view for one epoch more
                let last = pre.opts.last().map(|o| o.0).unwrap_or(0);
                if prev < last {
                    let mut v = BigUint::zero();
                    let r = self.b.execute_query(&self.fac, |sc| {
                        v = to_big(&sc.calculate_penalty_amount(&mbig(amt), prev + 1, 0));
                    });
                    if r.result_status != 0 || v < g {
                        tr.fail("C09", "penalty_monotone", "penalty", &format!("penalty({}) = {} > penalty({}) = {}", prev, g, prev + 1, v));
                    }
                }
                if pre.opts.iter().any(|o| o.0 == prev) {
                    tr.count("branch.penalty_at_option");
                    let p = pre.opts.iter().find(|o| o.0 == prev).unwrap().1;
                    if g != amt * BigUint::from(p) / BigUint::from(MAXPCT) {
                        tr.fail("C09", "penalty_at_option", "penalty", &format!("at option {prev}: {g}"));
                    }
                }
            }
        }
    }
}

fn main() {
    run_world::<EnergyWorld>();
}
