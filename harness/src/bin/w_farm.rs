//! World `farm`: the real `dex/farm` (header `kind=farm`, with energy-factory-mock) or the real
//! `dex/farm-with-locked-rewards` (`kind=fwlr`, with the real energy factory), plus a real
//! permissions-hub, driven through the white-box VM.  Serves C05, C06, C07, C11 (farm/fwlr part).
//! Model: lean/MxModel/Core/Farm.lean (+ Core/Weekly.lean), driver `drv_farm`.
//! `--kind farm|fwlr` restricts generation to one contract (default: both, 3:2).

#![allow(deprecated)]

#[path = "farm_common/types.rs"]
mod types;
#[path = "farm_common/world.rs"]
mod world;
#[path = "farm_common/oracle.rs"]
mod oracle;
#[path = "farm_common/gen.rs"]
mod gen;

use mxharness::*;
use num_bigint::BigUint;
use num_traits::Zero;
use oracle::*;
use world::*;

fn kind_arg() -> Option<String> {
    let av: Vec<String> = std::env::args().collect();
    av.iter().position(|x| x == "--kind").and_then(|i| av.get(i + 1).cloned())
}

impl FarmWorld {
    /// fund the caller before the pre-snapshot so that op texts stay executable under shrinking
    fn prefund(&mut self, w: &[&str]) {
        match w[0] {
            "enter" | "enterOB" => {
                let c: u64 = w[1].parse().unwrap_or(0);
                let amt = big(w[3]);
                self.ensure_farming(c, &amt);
            }
            "bad" if w.get(1) == Some(&"farmingAsFarm") => {
                let c: u64 = w.get(2).and_then(|x| x.parse().ok()).unwrap_or(1);
                self.ensure_farming(c, &BigUint::from(1000u32));
            }
            _ => {}
        }
    }
}

impl World for FarmWorld {
    const NAME: &'static str = "farm";

    fn gen_header(rng: &mut Rng, h: u64, _tier: &str) -> String {
        gen::gen_header(rng, h, kind_arg().as_deref())
    }

    fn new(header: &str) -> Self {
        FarmWorld::new(header)
    }

    fn gen_line(&mut self, rng: &mut Rng, step: u64, _tier: &str) -> (char, String) {
        FarmWorld::gen_line(self, rng, step)
    }

    fn exec(&mut self, tr: &mut Trace, text: &str) {
        let n = tr.op(text);
        let w: Vec<&str> = text.split_whitespace().collect();
        let site = w[0].to_string();
        tr.count(&format!("op.{}", site));
        self.prefund(&w);
        let pre = self.snap();
        let mut info = op_info(&w);
        if site == "claimOB" {
            if let Some((n1, _)) = info.pays.first() {
                info.orig = pre.toks.get(n1).map(|a| a.owner).unwrap_or(0);
            }
        }
        let legit = self.legit(&pre, &info);
        let expected_b = self.expected_boosted(&pre, info.orig);
        let res = self.run_op(text);
        for h in std::mem::take(&mut self.hits) {
            if res.ok { tr.count(&h); }
        }
        let post = self.snap();
        let boosted = if res.ok { self.ledger_update(&info, &pre, &post, &res) } else { BigUint::zero() };
        self.oracles(tr, &info, &pre, &post, &res, &boosted, legit, &expected_b);
        let quote = self.last_quote.take();
        if res.ok {
            tr.count(&format!("ok.{}", site));
            // C20: the reward view quoted just before equals what the same claim / exit pays
            if let Some((qu, qn, qa, qv)) = quote {
                if matches!(site.as_str(), "claim" | "exit") && info.caller == qu && info.orig == qu && info.pays.len() == 1 && info.pays[0] == (qn, qa) {
                    tr.count("branch.quote_then_exec");
                    if qv != res.rew {
                        tr.fail("C20", "quote_eq_exec.farm_rewards", &site, &format!("calculateRewardsForGivenPosition {} executed {}", qv, res.rew));
                    }
                }
            }
            // receiver deltas (C05: what is reported as paid really arrives)
            if matches!(site.as_str(), "claim" | "exit" | "enter" | "merge" | "claimBoosted") && info.caller >= 1 && (info.caller as usize) <= self.users.len() {
                let i = (info.caller - 1) as usize;
                match self.kind {
                    Kind::Farm if !self.same => {
                        if &post.users[i].rew - &pre.users[i].rew != res.rew {
                            tr.fail("C05", "reward_arrives", &site, &format!("caller received {} reported {}", &post.users[i].rew - &pre.users[i].rew, res.rew));
                        }
                    }
                    _ => {}
                }
                if site == "exit" && !self.same && &post.users[i].farming - &pre.users[i].farming != res.farming {
                    tr.fail("C05", "principal_arrives", &site, "farming tokens received differ from the reported payment");
                }
            }
            let rew = if site == "compound" {
                &res.tok_amt - info.pays.iter().fold(BigUint::zero(), |a, x| a + &x.1)
            } else {
                res.rew.clone()
            };
            let outs = format!("tok={}:{} rew={} farming={} b={}", res.tok_nonce, res.tok_amt, rew, res.farming, boosted);
            let line = self.state_line(&post);
            tr.res_ok(n, &outs, &line);
            if post.week != pre.week { tr.count("branch.week_changed"); }
            if info.orig != 0 && info.orig != info.caller { tr.count("branch.orig_caller_differs"); }
            if pre.sup.is_zero() && post.last > pre.last { tr.count("branch.generate_zero_supply"); }
            if let Some((pw, _)) = info.orig.checked_sub(1).and_then(|i| pre.users.get(i as usize)).and_then(|u| u.progress.clone()) {
                if pre.week > pw + 4 && matches!(site.as_str(), "enter" | "claim" | "exit" | "merge" | "claimBoosted") { tr.count("branch.skipped_more_than_4_weeks"); }
            }
            if info.pays.iter().any(|(nn, _)| pre.toks.get(nn).map(|a| a.owner != info.orig).unwrap_or(false)) && matches!(site.as_str(), "enter" | "claim" | "exit" | "merge" | "compound") {
                tr.count("branch.foreign_position_used");
            }
        } else {
            tr.count(&format!("err.{}", site));
            if std::env::var("VERIF_VERBOSE").is_ok() {
                eprintln!("err {}: {}", text, res.msg);
            }
            tr.res_err(n);
        }
    }

    fn query(&mut self, tr: &mut Trace, text: &str) {
        let n = tr.query(text);
        let w: Vec<&str> = text.split_whitespace().collect();
        tr.count(&format!("view.{}", w[0]));
        match w[0] {
            "calcRewards" => {
                let user: u64 = w[1].parse().unwrap();
                let amount = big(w[2]);
                let nonce: u64 = w[3].parse().unwrap();
                let pre = self.snap();
                let attr = pre.toks.get(&nonce).cloned();
                if let Some(a) = &attr {
                    if a.owner != user {
                        tr.count("branch.quote_foreign_position");
                        let (bu, bo) = (self.expected_boosted(&pre, user), self.expected_boosted(&pre, a.owner));
                        if bu != bo { tr.count("branch.quote_foreign_position_boosted_differs"); }
                    }
                }
                // `execute_query` commits in this VM: evaluate on a twin world rebuilt from the op prefix
                let v = match attr {
                    None => None,
                    Some(a) => {
                        let mut twin = FarmWorld::new(&self.header);
                        for t in self.log.clone() {
                            let ww: Vec<&str> = t.split_whitespace().collect();
                            twin.prefund(&ww);
                            let _ = twin.run_op(&t);
                        }
                        twin.query_calc_rewards(user, &amount, &a)
                    }
                };
                let post = self.snap();
                if pre != post {
                    tr.fail("C20", "view_pure", w[0], "state changed by a view");
                }
                match v {
                    Some(x) => {
                        self.last_quote = Some((user, nonce, amount.clone(), x.clone()));
                        tr.view_ok(n, &x.to_string())
                    }
                    None => {
                        self.last_quote = None;
                        tr.view_err(n)
                    }
                }
            }
            other => panic!("unknown view {other}"),
        }
    }
}

fn main() {
    run_world::<FarmWorld>();
}
